#!/bin/bash
# tools/run_all_quick.sh: every registered quick check through ./check (rebuilds from /repo, writes evidence/).
cd /verif
out=reports/quick_run.txt
echo "# ./check <id> quick for every claimed property, VERIF_SEED=${VERIF_SEED:-default 20260921}, $(date -u +%FT%TZ), /repo $(git -C /repo rev-parse --short HEAD)" > $out
for p in $(python3 -c "import json;print(' '.join(c['property_id'] for c in json.load(open('/verif/MANIFEST.json'))['checks']))"); do
  t0=$(date +%s); ./check $p quick > /tmp/quick-$p.log 2>&1; rc=$?; t1=$(date +%s)
  echo "$p rc=$rc wall=$((t1-t0))s $(grep -c '^VIOLATION' /tmp/quick-$p.log) violations, $(grep -c '^KNOWN-FINDING' /tmp/quick-$p.log) known findings printed" >> $out
done
echo DONE >> $out
