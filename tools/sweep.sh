#!/bin/bash
# tools/sweep.sh <tier> <outdir> [props...]: build both engines once from /repo's working tree, copy the
# binaries aside, then run every check of the tier from the copies (so later rebuilds do not disturb it).
# Results: <outdir>/results.txt (one line per property: exit code, wall seconds), logs in <outdir>/logs.
set -u
tier="$1"; out="$2"; shift 2
props="$*"
[ -n "$props" ] || props=$(python3 -c "import json;print(' '.join(c['property_id'] for c in json.load(open('/verif/MANIFEST.json'))['checks']))")
mkdir -p "$out/logs" "$out/verif"
cd /verif && ./setup >"$out/build.log" 2>&1 || { echo "BUILD FAILED"; exit 2; }
cp /verif/sim/target/release/gmxsim /verif/sim/target/release/marketsim "$out/"
cp /verif/known_findings.json "$out/verif/"
for p in $props; do
  case "$p" in C02|C03|C04|C05|C06|C07|C08|C10|C11|C12|C13|C14) bin=marketsim ;; *) bin=gmxsim ;; esac
  extra=""; if [ "$p" = "C19" ] && [ "$tier" = "quick" ]; then extra="--scale 40"; fi
  t0=$(date +%s)
  VERIF_DIR="$out/verif" "$out/$bin" check --property "$p" --tier "$tier" $extra >"$out/logs/$p.log" 2>&1
  rc=$?
  t1=$(date +%s)
  echo "$p rc=$rc wall=$((t1-t0))s $(grep -c '^VIOLATION' "$out/logs/$p.log") violations" >>"$out/results.txt"
done
echo DONE >>"$out/results.txt"
