#!/bin/bash
# Scratch copy of the repository + the simulation workspace for sensitivity experiments, so that nothing in
# /repo or /verif is touched.
#   tools/scratch.sh new <name>   -> /tmp/wt-<name> (git worktree of /repo HEAD, detached)
#                                    /tmp/sim-<name> (copy of /verif/sim without target, repo symlink -> worktree)
#   tools/scratch.sh sync <name>  -> re-copy /verif/sim sources into /tmp/sim-<name> (keeps target and repo link)
#   tools/scratch.sh run <name> <engine-pkg> <bin> <args…>   build + run an engine binary there
#                                    (VERIF_DIR=/tmp/sim-<name>/out)
#   tools/scratch.sh rm <name>    -> remove both, including build output
set -eu
cmd="$1"; name="$2"; shift 2
wt="/tmp/wt-$name"; sim="/tmp/sim-$name"
case "$cmd" in
  new)
    git -C /repo worktree add --detach "$wt" HEAD >/dev/null
    mkdir -p "$sim"
    rsync -a --exclude 'target' --exclude 'target-*' --exclude repo /verif/sim/ "$sim/"
    ln -sfn "$wt" "$sim/repo"
    mkdir -p "$sim/out"
    cp /verif/known_findings.json "$sim/out/" 2>/dev/null || true
    echo "$wt $sim"
    ;;
  sync)
    rsync -a --exclude 'target' --exclude 'target-*' --exclude repo --exclude out /verif/sim/ "$sim/"
    cp /verif/known_findings.json "$sim/out/" 2>/dev/null || true
    ;;
  run)
    pkg="$1"; bin="$2"; shift 2
    cd "$sim"
    CARGO_NET_OFFLINE=true cargo build --release --offline -p "$pkg" --bin "$bin" >"$sim/out/build.log" 2>&1 || { tail -40 "$sim/out/build.log"; echo BUILD-FAILED; exit 2; }
    VERIF_DIR="$sim/out" "$sim/target/release/$bin" "$@"
    ;;
  rm)
    git -C /repo worktree remove --force "$wt" 2>/dev/null || true
    rm -rf "$sim" "$wt"
    git -C /repo worktree prune
    ;;
esac
