#!/usr/bin/env python3
"""Writes /verif/seeded/<id>/meta.json from the table below (one entry per kept seeded change)."""
import json, os
SUITE = "cargo test --workspace --no-fail-fast --offline (the fallback form of the pinned suite command in /root/.vp/BASELINE.json) with the patch applied: compiles; every stable-pass test still passes; the only failures are the 8 network-dependent tests that also fail on the clean tree in this sandbox (5 create_*_with_rpc, get_token_accounts_by_owner, http_rpc_sender send_request, wallet test_parse_url_or_path)"
def confirm(demo):
    return [
        "scratch worktree of /repo HEAD (tools/confirm_seed.sh): git apply patch.diff",
        SUITE,
        f"demonstration installed as described in demo.md and run ({demo}): exits non-zero with the patch, exits 0 with the patch reverted",
        "git -C /repo apply patch.diff; ./check on the properties listed under caught_by/not_caught_by; git -C /repo checkout -- . (tools/run_seed.sh)",
    ]
T = {
 "C18-a": dict(property="C18", file="programs/store/src/states/store.rs",
   summary="has_role/has_admin_role de-duplicated through is_restart_admin(); has_role now propagates the role-lookup outcome differently for a RESTART_ADMIN holder",
   needs="a role query for an address holding RESTART_ADMIN after a cluster restart was recorded (or the restart slot check erroring) where the queried role is disabled/unknown: result differs from the original three-way outcome",
   demo="cargo test -p gmsol-store --test c18_restart_roles_demo",
   caught_by={"C18": "oracle has_role_mismatch (roles scenario: reference set model vs store.has_role after every instruction)"}, not_caught_by=[]),
 "C20-a": dict(property="C20", file="programs/store/src/instructions/market.rs",
   summary="update_market_config_with_buffer: the non-updatable-key scan assigns instead of accumulating, so only the last buffer entry decides",
   needs="a MARKET_CONFIG_KEEPER (not MARKET_KEEPER) applying a buffer with >= 2 entries where a non-updatable key precedes an updatable last key",
   demo="cargo test -p gmsol-store --test c20_market_config_buffer_permissions",
   caught_by={"C20": "oracle buffer_applied_against_policy (config scenario: policy model vs outcome of every buffer application)"}, not_caught_by=[],
   note="this seed also exposed a harness defect (u128 in plan -> replay writer panic, silent exit 101), fixed in simcore (DESIGN 10.5)"),
 "C22-a": dict(property="C22", file="programs/store/src/states/market/revertible/swap_market.rs",
   summary="swap bookkeeping consolidation credits the first path market twice for direction=From with path [current, X, ..]",
   needs="an action whose funds leave a market (withdrawal / decrease output) through a swap path that starts with that same market and continues to another market",
   demo="cargo test -p gmsol-store --lib c22_demo (in-crate module, see demo.md)",
   caught_by={"C22": "oracle vault_below_recorded (recorded balances vs vault after every successful transaction) - only after the exchange generator learnt own-market-first paths (walk())"},
   not_caught_by=["C44 (its hop oracle compares consecutive hops of one path; the double credit is on the hand-over before hop 0)"]),
 "C23-a": dict(property="C23", file="crates/utils/src/action.rs",
   summary="ActionState::completed()/cancelled() share a helper whose guard allows cancelled -> completed",
   needs="a second execution of an action that was already cancelled by a failed execution while its account still exists (keeper duplicate / retry)",
   demo="cargo test -p gmsol-utils --test action_state_lifecycle",
   caught_by={"C23": "oracle executed_twice / illegal_transition (duplicate_execute fault after a throwing execution)"}, not_caught_by=[]),
 "C36-a": dict(property="C36", file="programs/timelock/src/states/instruction.rs",
   summary="lazy executor-wallet derivation validates only the first account listed as signer",
   needs="a buffered instruction listing >= 2 signer accounts where the first is the executor wallet and a later one is not",
   demo="cargo test -p gmsol-timelock --test c36_signer_flags",
   caught_by={"C36": "oracle only_wallet_signs (timelock scenario: stored flags vs reference on every created buffer, and the executed CPI metas)"}, not_caught_by=[]),
 "C44-a": dict(property="C44", file="programs/store/src/states/market/revertible/swap_market.rs",
   summary="hand-over from the current market to the next market records the transfer-out only for direction=From",
   needs="a deposit (direction Into) whose swap path starts with the deposit's own market and continues to another market",
   demo="cargo test -p gmsol-store --lib swap_path_demo (in-crate module, see demo.md / demo.diff)",
   caught_by={"C44": "oracle recorded_balance_not_moved_by_hop", "C22": "oracle vault_below_recorded"}, not_caught_by=[]),

 "C04-a": dict(property="C04", file="crates/model/src/action/swap.rs",
   summary="Swap::try_execute positive-impact branch: the capped remainder binding is shadowed inside the if-block, so the token-in swap impact pool is debited 0 while the remainder is still credited to the liquidity pool and paid out",
   needs="one swap with positive price impact, capped because the output token's swap impact pool is too small (an empty pool counts), while the input token's swap impact pool is non-zero",
   demo="cargo test -p gmsol-model --offline --test swap_conservation",
   caught_by={"C04": "oracle swap_holdings_in (holdings of the input token change by exactly the input amount)", "C05": "oracle swap_overpays"}, not_caught_by=[]),
 "C06-a": dict(property="C06", file="crates/model/src/action/deposit.rs",
   summary="positive-impact deposits mint market tokens from the uncapped USD impact instead of the capped amount actually taken from the swap impact pool",
   needs="an imbalanced non-empty pool whose abundant token's swap impact pool cannot cover the positive impact (e.g. imbalance caused by a price move), then a rebalancing deposit",
   demo="cargo test -p gmsol-model --offline --test lp_round_trip",
   caught_by={"C06": "oracle lp_value_decreased (value per market token of existing LPs never decreases on a deposit)"}, not_caught_by=[]),
 "C08-a": dict(property="C08", file="crates/model/src/action/decrease_position/collateral_processor.rs",
   summary="pay_for_fees_excluding_funding books the full pool/receiver fees even when the cost was only partly paid (remaining_cost non-zero)",
   needs="a liquidation or ADL (insolvent close allowed) whose collateral covers funding and the realised loss but only part of the fees (insolvent close step = Fees), no secondary-output payment",
   demo="cargo test -p gmsol-model --offline --test seed_c08_demo",
   caught_by={"C08": "oracle ledger_identity (independent tokens-in/tokens-out ledger vs accounted pools after every operation; not matched by the two listed known findings)"}, not_caught_by=[]),
 "C13-a": dict(property="C13", file="crates/model/src/position.rs",
   summary="update_total_borrowing returns early when the size is unchanged, although the position's borrowing factor snapshot still moves",
   needs="an open position, a clock advance with update_borrowing so the cumulative factor moves, then an increase/decrease of that position with size_delta_usd == 0 (collateral-only)",
   demo="cargo test -p gmsol-model --offline --test total_borrowing_consistency",
   caught_by={"C13": "oracle total_borrowing_sum (total_borrowing == sum over open positions of floor(size x factor) after every operation)"}, not_caught_by=[]),
 "C16-a": dict(property="C16", file="programs/store/src/states/market/config.rs",
   summary="skip_borrowing_fee_for_smaller_side(is_market_closed) chooses the closed-market flag by the closed state alone, ignoring enable_market_closed_params",
   needs="market closed, enable_market_closed_params off, and the two skip flags holding different values",
   demo="cargo test -p gmsol-store --offline --test closed_market_params_switch",
   caught_by={"C16": "oracle closed_market_flag - ADDED because of this change: the first run missed it (the model-parameter oracle only looked at open markets)", "C40": "oracle decoding_differs on an altered copy (what-if contents, also added after this change)"}, not_caught_by=[]),
 "C24-a": dict(property="C24", file="programs/store/src/states/oracle/validator.rs",
   summary="the max-age check moved from per token to once per request and tests the newest timestamp instead of the oldest",
   needs="a request loading >= 2 tokens where one adjusted timestamp is older than now - max_age while another is fresh, spread within oracle_max_timestamp_range, feed heartbeat longer than max age",
   demo="cargo test -p gmsol-store --offline --lib c24_ (in-crate module, demo-install.diff)",
   caught_by={"C24": "oracle accepted_violates_predicate check=max_age"}, not_caught_by=[]),
 "C30-a": dict(property="C30", file="programs/store/src/states/gt.rs",
   summary="next_minting_cost applies the grow factor once instead of once per newly entered step",
   needs="a single mint whose amount crosses two or more multiples of grow_step_amount",
   demo="cargo test -p gmsol-store --offline --lib c30 (in-crate module, demo-hook.diff)",
   caught_by={"C30": "oracle cost_schedule (stored cost == cost0 x grow^k for the step k reached by total minted)"}, not_caught_by=[]),
 "C38-a": dict(property="C38", file="programs/liquidity-provider/src/lib.rs",
   summary="compute_time_weighted_apy caps the full-week loop at APY_BUCKETS instead of APY_LAST_INDEX, counting week 52 twice",
   needs="a position staked for at least 53 full weeks with a non-zero last APY bucket",
   demo="cargo test -p gmsol-liquidity-provider --offline (in-crate module seed_c38_demo)",
   caught_by={"C38": "oracle reward_schedule (minted GT within the rounding interval of the reference integral of the weekly schedule)"}, not_caught_by=[]),
}

def main():
    base = "/verif/seeded"
    for sid, e in T.items():
        d = os.path.join(base, sid)
        if not os.path.isdir(d):
            print("missing", d); continue
        meta = {
            "id": sid,
            "property": e["property"],
            "file_changed": e["file"],
            "change": e["summary"],
            "needs_to_manifest": e["needs"],
            "demonstration": e["demo"],
            "confirmed_by_me": confirm(e["demo"]),
            "caught_by": e["caught_by"],
            "not_caught_by": e.get("not_caught_by", []),
        }
        if "note" in e: meta["note"] = e["note"]
        json.dump(meta, open(os.path.join(d, "meta.json"), "w"), indent=1)
        print("wrote", sid)
if __name__ == "__main__":
    main()
