#!/usr/bin/env python3
"""Writes /verif/seeded/<id>/meta.json from the table below (one entry per kept seeded change)."""
import json, os
SUITE = "cargo test --workspace --no-fail-fast --offline (the fallback form of the pinned suite command in /root/.vp/BASELINE.json) with the patch applied: compiles; every stable-pass test still passes; the only failures are the 8 network-dependent tests that also fail on the clean tree in this sandbox (5 create_*_with_rpc, get_token_accounts_by_owner, http_rpc_sender send_request, wallet test_parse_url_or_path)"
def confirm(demo):
    return [
        "scratch worktree of /repo HEAD (tools/confirm_seed.sh): git apply patch.diff",
        SUITE,
        f"demonstration installed as described in demo.md and run ({demo}): exits non-zero with the patch, exits 0 with the patch reverted",
        "git -C /repo apply patch.diff; ./check on the properties listed under caught_by/not_caught_by; git -C /repo checkout -- . (tools/run_seed.sh)",
    ]
T = {
 "C18-a": dict(property="C18", file="programs/store/src/states/store.rs",
   summary="has_role/has_admin_role de-duplicated through is_restart_admin(); has_role now propagates the role-lookup outcome differently for a RESTART_ADMIN holder",
   needs="a role query for an address holding RESTART_ADMIN after a cluster restart was recorded (or the restart slot check erroring) where the queried role is disabled/unknown: result differs from the original three-way outcome",
   demo="cargo test -p gmsol-store --test c18_restart_roles_demo",
   caught_by={"C18": "oracle has_role_mismatch (roles scenario: reference set model vs store.has_role after every instruction)"}, not_caught_by=[]),
 "C20-a": dict(property="C20", file="programs/store/src/instructions/market.rs",
   summary="update_market_config_with_buffer: the non-updatable-key scan assigns instead of accumulating, so only the last buffer entry decides",
   needs="a MARKET_CONFIG_KEEPER (not MARKET_KEEPER) applying a buffer with >= 2 entries where a non-updatable key precedes an updatable last key",
   demo="cargo test -p gmsol-store --test c20_market_config_buffer_permissions",
   caught_by={"C20": "oracle buffer_applied_against_policy (config scenario: policy model vs outcome of every buffer application)"}, not_caught_by=[],
   note="this seed also exposed a harness defect (u128 in plan -> replay writer panic, silent exit 101), fixed in simcore (DESIGN 10.5)"),
 "C22-a": dict(property="C22", file="programs/store/src/states/market/revertible/swap_market.rs",
   summary="swap bookkeeping consolidation credits the first path market twice for direction=From with path [current, X, ..]",
   needs="an action whose funds leave a market (withdrawal / decrease output) through a swap path that starts with that same market and continues to another market",
   demo="cargo test -p gmsol-store --lib c22_demo (in-crate module, see demo.md)",
   caught_by={"C22": "oracle vault_below_recorded (recorded balances vs vault after every successful transaction) - only after the exchange generator learnt own-market-first paths (walk())"},
   not_caught_by=["C44 (its hop oracle compares consecutive hops of one path; the double credit is on the hand-over before hop 0)"]),
 "C23-a": dict(property="C23", file="crates/utils/src/action.rs",
   summary="ActionState::completed()/cancelled() share a helper whose guard allows cancelled -> completed",
   needs="a second execution of an action that was already cancelled by a failed execution while its account still exists (keeper duplicate / retry)",
   demo="cargo test -p gmsol-utils --test action_state_lifecycle",
   caught_by={"C23": "oracle executed_twice / illegal_transition (duplicate_execute fault after a throwing execution)"}, not_caught_by=[]),
 "C36-a": dict(property="C36", file="programs/timelock/src/states/instruction.rs",
   summary="lazy executor-wallet derivation validates only the first account listed as signer",
   needs="a buffered instruction listing >= 2 signer accounts where the first is the executor wallet and a later one is not",
   demo="cargo test -p gmsol-timelock --test c36_signer_flags",
   caught_by={"C36": "oracle only_wallet_signs (timelock scenario: stored flags vs reference on every created buffer, and the executed CPI metas)"}, not_caught_by=[]),
 "C44-a": dict(property="C44", file="programs/store/src/states/market/revertible/swap_market.rs",
   summary="hand-over from the current market to the next market records the transfer-out only for direction=From",
   needs="a deposit (direction Into) whose swap path starts with the deposit's own market and continues to another market",
   demo="cargo test -p gmsol-store --lib swap_path_demo (in-crate module, see demo.md / demo.diff)",
   caught_by={"C44": "oracle recorded_balance_not_moved_by_hop", "C22": "oracle vault_below_recorded"}, not_caught_by=[]),
}

def main():
    base = "/verif/seeded"
    for sid, e in T.items():
        d = os.path.join(base, sid)
        if not os.path.isdir(d):
            print("missing", d); continue
        meta = {
            "id": sid,
            "property": e["property"],
            "file_changed": e["file"],
            "change": e["summary"],
            "needs_to_manifest": e["needs"],
            "demonstration": e["demo"],
            "confirmed_by_me": confirm(e["demo"]),
            "caught_by": e["caught_by"],
            "not_caught_by": e.get("not_caught_by", []),
        }
        if "note" in e: meta["note"] = e["note"]
        json.dump(meta, open(os.path.join(d, "meta.json"), "w"), indent=1)
        print("wrote", sid)
if __name__ == "__main__":
    main()
