#!/bin/bash
# confirm.sh <id> <place-cmd> <demo-test-cmd>
id=$1; place=$2; demo=$3
wt=/tmp/wt-seedv; out=/tmp/seed-$id-out
[ -d $wt ] || git -C /repo worktree add --detach $wt HEAD >/dev/null
cd $wt && git checkout -q -- . && git clean -fdq -e target && git checkout -q --detach $(git -C /repo rev-parse HEAD)
export CARGO_TARGET_DIR=$wt/target
git apply $out/patch.diff || { echo "CONFIRM $id: patch does not apply"; exit 1; }
cargo test --workspace --no-fail-fast --offline >/tmp/seedv-$id-suite.log 2>&1
fails=$(grep -E "^test .* FAILED$" /tmp/seedv-$id-suite.log | sort -u | wc -l)
comp=$(grep -c "^error" /tmp/seedv-$id-suite.log)
passed=$(grep -E "^test result" /tmp/seedv-$id-suite.log | awk '{s+=$4} END {print s}')
echo "CONFIRM $id: suite with patch: compile_errors=$comp passed=$passed failed=$fails (8 network tests expected)"
grep -E "^test .* FAILED$" /tmp/seedv-$id-suite.log | sort -u | sed 's/^/    /' 
eval "$place"
eval "$demo" >/tmp/seedv-$id-demo-with.log 2>&1; r1=$?
git apply -R $out/patch.diff
eval "$demo" >/tmp/seedv-$id-demo-without.log 2>&1; r2=$?
echo "CONFIRM $id: demo with patch exit=$r1 (want != 0); without patch exit=$r2 (want 0)"
git checkout -q -- . ; git clean -fdq -e target
