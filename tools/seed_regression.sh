#!/bin/bash
# tools/seed_regression.sh [ids...]: for every kept seeded change, apply it to /repo, run the quick checks named
# under caught_by in its meta.json, undo it. Writes reports/seeded_runs.txt. Every line must say VIOLATION.
cd /verif
ids="$*"; [ -n "$ids" ] || ids=$(ls seeded)
out=reports/seeded_runs.txt
echo "# tools/seed_regression.sh: seeded change applied to /repo (git apply), quick check, undone (git checkout -- .)" > $out
for id in $ids; do
  props=$(python3 -c "import json;print(' '.join(json.load(open('seeded/$id/meta.json'))['caught_by'].keys()))")
  tools/run_seed.sh /verif/seeded/$id $props 2>&1 | cut -c1-420 | sed "s#^SEED $id#SEED $id#" >> $out
done
git -C /repo status --short >> $out
echo "missed: $(grep -c '^SEED' $out) lines, $(grep '^SEED' $out | grep -vc VIOLATION) without a VIOLATION" >> $out
