#!/bin/bash
# tools/run_seed.sh <seed-dir> <Cxx> [<Cyy> ...]: apply a seeded change to /repo, run the given checks (quick), undo it.
# Evidence and replays written during the run go to /tmp/seedrun-out (VERIF_DIR override), not into /verif.
set -u
dir="$1"; shift
cd /repo && git diff --quiet || { echo "REPO DIRTY"; exit 2; }
git -C /repo apply "$dir/patch.diff" || { echo "patch failed"; exit 2; }
trap 'git -C /repo checkout -- .' EXIT
mkdir -p /tmp/seedrun-out && cp /verif/known_findings.json /tmp/seedrun-out/
for prop in "$@"; do
  case "$prop" in C02|C03|C04|C05|C06|C07|C08|C10|C11|C12|C13|C14) pkg=marketsim; bin=marketsim ;; *) pkg=gmxsim; bin=gmxsim ;; esac
  (cd /verif/sim && cargo build --release --offline -p $pkg --bin $bin >/tmp/seedrun-out/build.log 2>&1) || { echo "SEED $(basename $dir) [$prop]: BUILD FAILED"; continue; }
  res=$(cd /verif/sim && VERIF_DIR=/tmp/seedrun-out ./target/release/$bin check --property $prop --tier quick 2>&1 | grep -v "^KNOWN-FINDING" | grep -E "VIOLATION|^OK|oracle=|HARNESS" | head -3 | cut -c1-300 | tr '\n' ' ')
  echo "SEED $(basename $dir) [$prop]: $res"
done
