#!/usr/bin/env python3
"""Generate /verif/MANIFEST.json from the table below. Properties without an entry in CHECKS are listed under
not_applicable with the reason given in NA (or 'not claimed')."""
import json

SIM = "deterministic simulation with fault injection"

# id -> (level, engine label, technique, text, note, design_ref)
CHECKS = {
    "C16": ("exploration", "chainsim/scn-admin",
            SIM + ": keeper actors with different role sets write every configuration key (enumerated) on the in-process cluster; read-back, isolation and model-parameter oracles after every landed transaction",
            "Every key of every configuration enum is written through the real store instructions by six kinds of signers in seeded histories; after each landed write the key, every other key, the byte diff of the market account and the model-trait parameter named by the key are compared with a reference. Sampling over plans; the closed-market switch and the SDK view are out of reach of this check (see C40).",
            "trusted: chainsim runtime stub; key -> parameter table transcribed from key names and doc comments", "§5 C16"),
    "C17": ("exploration", "chainsim/scn-admin",
            SIM + ": every market created in any run (pure and impure) is inspected right after initialize_market against documented defaults",
            "Markets are created through the real initialize_market instruction (pure and impure, keeper/stranger signers, boundary names); every config key, flag, pool and purity is compared with a table transcribed from the documented DEFAULT_* constants. Found and fixed: reserve_factor default.",
            "trusted: the transcription of documented defaults (constants/market.rs names and doc comments)", "§5 C17"),
    "C18": ("exploration", "chainsim/scn-admin",
            SIM + ": role-table histories (enable/disable/grant/revoke, authority hand-over) with cluster-restart faults and capacity exhaustion, refined against a set model",
            "Seeded operation histories over 3–72 addresses and up to 36 role names, signed by authority / ex-admin / keeper / arbitrary addresses, with LastRestartSlot changes; after every transaction the on-chain has_role / check_role / has_admin answers, member and role counts equal a set model, and every operation's acceptance equals the model's verdict.",
            "trusted: chainsim runtime stub (sysvars, privilege rules)", "§5 C18"),
    "C19": ("fault_enumeration", "chainsim/scn-admin+scn-exchange+scn-timelock+scn-treasury+scn-lp+scn-competition",
            SIM + ": byzantine twin of every landed privileged transaction (stranger, holder of every other role, other user) executed on a fork of the pre-state",
            "For every landed privileged transaction of the admin, configuration, exchange, timelock, treasury, liquidity-provider and competition scenarios the same transaction re-signed by (a) an address with no role, (b) a holder of every role except the required one, (c) for owner-gated closes another user, is executed on a fork of the pre-state and must fail. Exhaustive over the landed privileged transactions of each run; per-instruction coverage is reported (reach_probes c19_twin:*).",
            "covers the instructions reached by these scenarios (listed per run under reach_probes c19_twin:*); instructions needing absent third-party programs (token metadata, Pyth, Switchboard), migrations, virtual-inventory and GLV management instructions are not twinned", "§5 C19"),
    "C20": ("exploration", "chainsim/scn-admin",
            SIM + ": policy model vs transaction outcome for config updates by MARKET_KEEPER / MARKET_CONFIG_KEEPER / others, buffers with expiry under clock jumps and delayed application",
            "Single-key, flag and buffer updates by every kind of signer while the updatable markings change; buffers mix updatable and non-updatable entries, change authority, and are applied before/at/after expiry under clock jumps. Outcome must equal the policy model in both directions.",
            "trusted: chainsim runtime stub; policy transcribed from the statement", "§5 C20"),
    "C35": ("exploration", "chainsim/scn-admin",
            SIM + ": admin/keeper actors create roles, markets and tokens with boundary-length, multi-byte and NUL-containing names; accepted names must read back and be usable (fork probe)",
            "Names of length 0, 1, cap-1, cap, cap+1, multi-byte straddling the limit and with embedded/trailing NUL are submitted through enable_role, initialize_market and push_to_token_map_synthetic; an accepted name must be listed/read back identically and (roles) be grantable, queryable and disablable on a fork. Found and fixed: exactly-capacity and NUL names.",
            "store key (multi-store feature off) and timelock executor names are not exercised", "§5 C35"),
    "C22": ("exploration", "chainsim/scn-exchange",
            SIM + ": invariant after every landed transaction of exchange histories over markets sharing vaults, with dust transfers, soft failures and keeper retries",
            "After every landed transaction of seeded exchange histories (deposits, withdrawals, shifts, swaps, position orders, liquidations, auto-deleveraging, fee claims by the receiver, keeper transfers, fee updates over 3–5 markets sharing vaults, one pure) each market's recorded balance covers liquidity+impact+fees and, separately, collateral, and each vault's SPL balance covers the recorded balances of all markets sharing it.",
            "GLV vaults are checked in scn-glv (vault_conservation)", "§5 C22"),
    "C23": ("fault_enumeration", "chainsim/scn-exchange",
            SIM + ": action lifecycle state machine + escrow ledger under transaction duplication, stale prices, soft/hard failures, closes by owner/keeper/stranger, and a final drain (bounded liveness)",
            "Every deposit, withdrawal, shift and order is tracked through a three-state model; executes of non-pending actions (keeper retries) must fail, soft-failed executes must cancel, leave every market untouched and keep the escrow, closes are allowed only per the ownership rules and must return every escrowed token and the execution lamports; at the end every owner closes everything and all escrows must be empty.",
            "GLV actions are covered by scn-glv where built", "§5 C23"),
    "C44": ("exploration", "chainsim/scn-exchange",
            SIM + ": swap-path oracle from emitted SwapExecuted events and per-market recorded-balance ledger over markets forming paths; invalid paths submitted by owners must be rejected at creation",
            "Swap orders with valid (1–3 hops) and invalid (duplicates, single-token markets, wrong first/last token, up to 10 hops) paths; executed hops must equal the declared markets in order with chained amounts, end in the declared token, and move each market's recorded balances by exactly the hop amounts.",
            "hop-level oracle on swap orders; deposits/withdrawals/position orders with paths are checked for creation-time rejection and solvency only", "§5 C44"),
    "C21": ("fault_enumeration", "unitsim+chainsim/scn-exchange",
            SIM + ": every soft-failed (abandoned) execution is followed by a fork comparison: world with the abandoned operation vs world without it under the same next operation",
            "Unit part (buffersim, through a cfg-guarded hook): begin/read/write/commit/abandon sequences over all pool kinds, clocks and other state of a real zero-copy Market against a copy-on-write reference; every operation is additionally abandoned after each prefix and a fresh operation must read pure storage (exhaustive over abandonment points of the generated operations). Chain part: for each soft-failed execution the market state must be untouched and the next successful operation must produce identical market state in the world with and the world without the abandoned attempt.",
            "depends on soft failures being reached (reach probe soft_failed_execution)", "§5 C21"),
    "C02": ("exploration", "marketsim",
            SIM + ": every fee-bearing report of simulated market histories (deposits, withdrawals, swaps, orders, liquidations) is split-checked against a BigInt reference; misconfiguration faults (> 100 % factors) must fail",
            "Every deposit, withdrawal, swap, order and liquidation report produced by the real gmsol-model actions in seeded multi-party histories (own SimMarket with simulated clock and failing storage) is compared with an independent big-integer fee split; discounts are checked by fork (same order with discount 0 and d); > 100 % factors are injected as misconfiguration faults. Known finding: order fee factor > 100 % is not rejected.",
            "inputs are those the simulation and its fault injection produce, not a uniform sweep of u128", "§5 C02"),
    "C03": ("exploration", "marketsim",
            SIM + ": per-operation imbalance-vs-impact-sign monitor on reached pool states, virtual-inventory clause, fork-and-reverse round-trip probe",
            "Pool states come from simulated histories; per operation the sign of the reported impact is compared with the change of the pool imbalance, with virtual inventory the reported impact must be the worse of real/virtual and equal the real one when it is non-negative; forks apply a delta and its exact reverse. Known finding: cross-over rebalances (by design).",
            "exact impact reference only for unit-multiple exponents; fractional exponents get the sign and round-trip oracles", "§5 C03"),
    "C04": ("fault_enumeration", "marketsim",
            SIM + ": ledger oracle on every swap of simulated histories plus exhaustive failure injection at every fallible storage call of each sampled swap",
            "For each sampled swap the fallible calls n of a clean execution are counted and the swap is re-executed n times from the same snapshot failing call 1..n (pool accessors, parameter getters, checked_apply_delta): each must fail and leave the market bit-identical without the harness restoring it; successful swaps must move H_in by exactly the input and H_out by exactly the output.",
            "exhaustive over fault points of the sampled swaps; sampling over market states", "§5 C04"),
    "C05": ("exploration", "marketsim",
            SIM + ": monitor on every swap report of simulated histories against a BigInt value bound including the impact actually funded by the impact pools",
            "out x p_out.max <= in x p_in.min + value that left the swap impact pools (from pool deltas), and exact floor conversion with zero fees and impact, on every swap of seeded histories.",
            "the funded-impact terms are priced generously so that the check can only be weaker than the statement", "§5 C05"),
    "C06": ("exploration", "marketsim",
            SIM + ": fork round-trip probes (deposit then withdraw everything at the same prices and time) on states reached by simulated histories, LP-value monitor on both legs, first-deposit pricing",
            "At random points of seeded histories the world is forked, (x, y) deposited and everything minted withdrawn; USD out <= USD in, market-token value for other LPs never decreases beyond rounding on either leg, first deposit priced at 1 USD per token. Known findings: impact-pool bonus and ownerless value at zero supply (both by design).",
            "cross valuations only without price spread and without a binding pnl cap", "§5 C06"),
    "C32": ("exploration", "chainsim/scn-exchange",
            SIM + ": builder-fee arithmetic evaluated through a cfg-guarded hook on the executed sizes, prices, increments and outputs of position orders in exchange histories; real settle_builder_fee with duplicated settlements on charges recorded by the simulator",
            "At this commit every execution call site passes a builder fee factor of 0 (TODO(builder-fee)), so the charging path is unreachable from any instruction. The arithmetic (fee = ceil(size x factor / min price), increment split or failure, clamp to the output, withdrawal top-up and swap-type rejection) is evaluated on the values real executions produce; the charge is then written onto the order account (stub) and the real settlement instruction is run once or twice: it moves min(recorded, escrow), zeroes the record, and a repeat moves nothing.",
            "the wiring between execution and the fee arithmetic does not exist yet and is therefore not covered", "§5 C32"),
    "C40": ("translation_validation", "chainsim/scn-exchange",
            SIM + ": every market account produced in exchange histories is decoded twice (program zero-copy struct vs SDK IDL type in MarketModel) and compared field by field through the model traits; executed fee updates, deposits and withdrawals are replayed on the SDK model under the simulated clock and compared with the program's post-state",
            "Per landed transaction every market is decoded with both stacks (sizes, ~150 trait-visible fields, flags, meta, balances). For update_fees_state, deposits and withdrawals without swap paths the SDK MarketModel built from the pre-state bytes replays distribute-impact / update-funding / the action with the prices the program's own oracle accepted and must reach the same pools and minted / paid amounts.",
            "the SDK model has no BorrowingFeeMarketMut, so the cumulative borrowing factor is compared at the decoding level only; position orders and swaps are not replayed; the order-fee-discount clause is C31", "§5 C40"),
    "C45": ("exploration", "chainsim/scn-glv",
            SIM + ": GLV histories (management, deposits, withdrawals, shifts) with lifecycle faults; composition, cap, exact pricing (BigInt from get_market_token_value on forks) and fork round-trip oracles",
            "GLVs over 2-4 markets incl. attempts to insert foreign-token markets; after each deposit the market balance respects max_amount / max_value; minted and burned amounts equal the BigInt formulas with maximised / minimised GLV value; fork round trips never return more market tokens than deposited. Known finding: orphaned value when GLV supply is zero.",
            "swap paths inside GLV actions and a second GLV in the same world are not covered", "§5 C45"),
    "C36": ("exploration", "chainsim/scn-timelock",
            SIM + ": interleaved timelock buffer lifecycles (create/approve/cancel/execute/increase-delay) with role changes between approval and execution, clock moves to eta-1/eta/eta+1, tx loss/duplication/delay, CPI-failure injection; lifecycle model + exactness of the instruction observed at the CPI boundary",
            "Real timelock and store programs; 1-30 interleaved buffers of real store instructions (0-12 accounts, 0-200 data bytes, extra signers); the store admin revokes/re-grants the approver's role between approval and execution; execution is attempted before, at and after the delay in force; every execute's CPI (program id, accounts, signer/writable flags, data) is compared with what the plan buffered and only the executor wallet may sign.",
            "RESTART_ADMIN interplay and multi-store look-alikes are not exercised", "§5 C36"),
    "C37": ("exploration", "chainsim/scn-treasury",
            SIM + ": full GT buyback flow (store GT exchange -> treasury deposit -> confirmation with oracle prices -> claims in scheduler-chosen order) with tx loss/duplication/delay, misconfiguration, dust, CPI failures; BigInt payout model",
            "Real treasury and store programs end to end over 1-3 windows and 1-3 bank tokens; set_gt_factor/set_buyback_factor with values up to and above 100 %; every claim must pay floor(balance x gt_i / remaining) per token, never more than the bank holds, at least the floor share of the original balances, the last claim drains the bank, a second claim pays nothing.",
            "Token-2022 bank tokens, treasury swaps and withdraw_from_treasury_vault are not covered; fees reach the receiver vault by direct mint", "§5 C37"),
    "C38": ("exploration", "chainsim/scn-lp",
            SIM + ": LP staking histories (stake, gradient updates, claims, partial/full unstakes, claim toggles, dust into position vaults) under clock jumps across week buckets, tx loss/duplication/delay and byzantine twins; BigInt reward schedule reference and fork monotonicity probes",
            "Real liquidity-provider and store programs; rewards observed through the GT actually minted and bracketed by a BigInt evaluation of the weekly-bucket average (weeks past the last bucket use the last one); forks with larger stake value / longer cost integral must not earn less; partial unstakes return exactly the request and keep floor(value x remaining/old); full exits sweep the vault incl. dust; with claims disabled only full exits land; gradients above the 200 % cap are rejected.",
            "stake_glv (GLV pricing CPI, Token-2022) is not covered; the private reward functions are observed through their on-chain effect only", "§5 C38"),
    "C39": ("exploration", "chainsim/scn-competition",
            SIM + ": trade-callback histories from 2-12 traders delivered to the real competition program (callback-authority PDA flagged as signer, trade-event account written by the simulator) under stalled / jumping clocks, duplicate deliveries and byzantine callers; exact top-5 / extension model; a second part drives real store orders with the competition as callback and cross-checks the forged inputs",
            "After every delivered callback the leaderboard has at most five distinct traders in non-increasing order with their latest totals, every participant left off a full board has no more volume than the last entry, and the end time never moves earlier nor past max(old end, now + cap). Part 2 executes real orders through the store with the competition as callback and requires byte-identical competition state between the real CPI and the forged delivery.",
            "the main part forges the store's CPI (declared stub); the clock is monotone as on Solana (a violation needing a backward clock step was classified as a false alarm of the fault model and the regression removed)", "§5 C39"),
    "C15": ("exploration", "unitsim",
            SIM + " (single-object history): signed-delta and cancel histories on the store's pure Pool and the SDK Pool against a one-number model, totals up to u128::MAX",
            "Operation histories of 20-8000 steps (long / short deltas, two-sided deltas, cancel) on a pure pool obtained from a real Market::init, run on the program's Pool and the SDK Pool side by side against a single u128 total; long+short == total, ceil/floor split, a delta of d changes the total by exactly d or fails unchanged, cancel leaves the parity remainder. An impure pool runs the same history as a control. No fault other than overflow: this is the sequential reference-model part of the technique.",
            "no clock, party or fault is involved beyond long use and overflow", "§5 C15"),
    "C34": ("exploration", "unitsim",
            SIM + " (single-object history): insert/replace/remove/get/clear histories with key universes of twice the capacity on every fixed-capacity map type used by the programs, against BTreeMap; capacity exhaustion as the fault; panics caught and attributed",
            "18 map variants (8 real public types of store and treasury, 6 SDK mirrors, 4 own instantiations of the same macro) are filled beyond capacity, hammered while full, drained and cleared; results, contents (raw bytemuck image), sortedness and zeroed tail equal the reference; a new key into a full map must fail and change nothing; any panic is a violation. Known finding: the plain `insert` panics on a full map.",
            "no clock or party; capacity exhaustion is the only fault", "§5 C34"),
    "C27": ("exploration", "unitsim+chainsim/scn-oracle",
            SIM + ": a stored feed price lives through a simulated timeline (reports with status / last-update tracking, policy-flag and timeout changes, clock stalls and jumps to the 64-bit extremes); is_market_open is compared with the statement's predicate evaluated in i128 at every step",
            "Unit part: timelines of 20-12000 steps incl. jumps to i64::MIN / i64::MAX and the freshness edges; openness and is_market_open must equal the reference predicate (status not closed under the feed's policy flags, open flag set, and with last-update tracking both the report and the last update no older than the timeout). Chain part (scn-oracle): v8/v11 reports with every status and last-update values, per-feed policy flags toggled by the keeper, clock moved around the timeout between update and use; the openness observed on chain (MarketNotOpen or the market's closed flag) must equal the same predicate.",
            "the extreme-timestamp clause is unreachable through u32 report timestamps on chain, hence the unit-level timeline", "§5 C27"),
    "C30": ("exploration", "chainsim/scn-user",
            SIM + ": GT mint / burn / exchange-vault histories over 2-6 users with window-boundary clock moves, duplicate and early confirmations, cluster restarts and byzantine signers; balance/supply/cost/rank model and fork probe for split-independence of the minting cost; second scenario mints through real order executions",
            "After every transaction the buyback-able supply equals the sum of user balances, total minted is monotone, the minting cost equals cost0 x grow^floor(total/step) (BigInt, also by forking the same total in different splits), ranks equal the number of thresholds at or below the balance, exchange deposits land only in the current window and confirmations only after it; order-based minting yields the whole units affordable and leaves the remainder unminted. Known finding: a zero first rank threshold.",
            "gt_set_exchange_time_window is compiled out without the store's test-only feature: the field is overwritten by the simulator (stub)", "§5 C30"),
    "C31": ("exploration", "chainsim/scn-user",
            SIM + ": keeper histories set rank tables and the referred-user discount (incl. exactly 100 % and rejected > 100 %) with byzantine signers and failed attempts; on every reached store state the program's and the SDK's order_fee_discount_factor are evaluated on the same account bytes for every rank and referral flag",
            "0 <= d <= 100 %, referred >= unreferred, d in {floor, ceil} of 1-(1-a)(1-b) (BigInt), ranks above the maximum rejected, program == SDK on identical bytes; failed keeper attempts change nothing.",
            "a referred-user discount above 100 % is accepted by the setters (outside the stated domain; reported by a probe)", "§5 C31"),
    "C33": ("exploration", "chainsim/scn-user",
            SIM + ": referral histories among 2-6 users (code creation, referrer setting, code transfer / cancel / accept) with delayed, duplicated and lost transactions, stale account choices and byzantine signers; relation model",
            "Referrers are write-once, never self, never mutual (both orders of A->B / B->A are scheduled); each code has exactly one owner and ownership changes only on accept by the proposed owner; every transaction's outcome equals the model's allow/deny predicate.",
            "only user<->user and code<->code account substitutions are generated", "§5 C33"),
    "C24": ("exploration", "chainsim/scn-oracle",
            SIM + ": price keeper posts stale / future / deviating / substituted-feed reports while keepers change age, range, future-excess, timestamp-adjustment and deviation settings; acceptance by set_prices_from_price_feed and by executing instructions implies the reference predicate; oracle cleared after every use",
            "One-directional oracle (accepted => fresh, in band, expected provider and feed, enabled token, timestamp spread within range), so a legitimately rejected price is never an alarm; stored prices are well formed; after every executing instruction (success, soft failure, rollback) the oracle account is cleared.",
            "clearing is observed after deposits, increase orders and fee/ADL state updates only; Pyth and Switchboard are not simulated", "§5 C24"),
    "C25": ("exploration", "chainsim/scn-oracle",
            SIM + ": histories of custom-feed updates (strict and idempotent) with out-of-order, duplicated, delayed, lost, future-dated, inverted and corrupted reports under stalled and jumping clocks and byzantine signers",
            "After every delivered transaction: feed timestamps never decrease, min <= price <= max, a failed update leaves every feed byte-identical, a successful one changes only its target, and an older report in idempotent mode succeeds without updating (return data false) while strict mode rejects it.",
            "mock Chainlink verifier; reports from the simulator's own ABI encoder", "§5 C25"),
    "C26": ("exploration", "chainsim/scn-oracle",
            SIM + ": tokens with swarm-drawn decimals (0-30) and precision (0-26) receive exactly known 18-decimal report prices; the Decimal stored by the oracle is compared with a BigInt truncation; the same triples also drive the conversion functions directly",
            "stored value x 10^m <= exact price, error below one precision step, equals the BigInt floor; unrepresentable prices and unsupported decimal settings fail instead of storing a wrong price (probes show that no representable price is rejected).",
            "prices expressible in a Chainlink report on chain; the full u128 range and provider decimals up to 40 only through the direct calls (same oracle)", "§5 C26"),
    "C28": ("fault_enumeration", "chainsim/scn-oracle",
            SIM + ": valid v2/v3/v7/v8/v11 reports are damaged in transit (every single-bit flip of the header words, truncation at every word boundary, rewritten offset/length words, damaged snappy frames, splices, wrong feed/schema ids) and fed to the decoders directly and through the on-chain instruction; panics attributed by location",
            "No panic located in crates/chainlink-datastreams, crates/utils or the store; success implies the blob is exactly the slice described by the 256-bit ABI words; conversion rejects negatives and mis-ordering, preserves bid <= price <= ask and scales all three by the same power of ten. Found and fixed: high bits of the ABI words were ignored.",
            "exhaustive over the single-bit flips of the five header words and the word-boundary truncations of each sampled report; snappy length prefixes above 2^24 are not injected", "§5 C28"),
    "C29": ("exploration", "chainsim/scn-oracle",
            SIM + ": tokens with price adjustment enabled receive reports inside, on and outside the deviation band (factors from 1e-8 to 250 %); accepted adjusted prices are checked against the exact band",
            "Every accepted adjusted price has |min-ref| <= dev, |max-ref| <= dev and min <= max; the clamp moves bounds inwards only; otherwise the transaction failed.",
            "only the explicit-reference path (custom feeds) is reachable; the implicit mid-price reference belongs to Pyth / Switchboard feeds", "§5 C29"),
    "C09": ("exploration", "chainsim/scn-exchange",
            SIM + ": liquidation attempts by the keeper on live positions after price moves; a successful liquidation must close the whole position",
            "Chain part: after every executed increase or non-removing decrease the position must not be liquidatable at the execution prices, every successful liquidation must have been liquidatable under the liquidation thresholds on the pre-state and must remove the whole position, and every successful auto-deleverage must have had a pnl-to-pool factor above the ADL limit, strictly lower it and leave it at or above the configured minimum (pnl factors from the SDK MarketModel of the pre/post account bytes). The reference evaluates check_liquidatable on the SDK's PositionModel of the same account bytes after bringing the fee state up to date with the program's update_fees_state on a fork.",
            "the references share the formulas of check_liquidatable / pnl_factor with the code under test (evaluated at a different call site, on the SDK decoding of the same bytes); ADL is exercised with lowered pnl-factor limits (a parameter set of the swarm)", "§5 C09"),
}

NA = {
    "C01": "pure leaf functions of their operands (no schedule, clock, party or fault); not a simulation target — consequences are covered by the ledger oracles of C04/C05/C06/C08",
    "C41": "pure client-side function of its argument list (transaction packing); no clock, second party, state or fault to simulate",
    "C42": "pure graph algorithm over its inputs (swap path search); no clock, second party, state or fault to simulate",
    "C43": "pure conversion functions (Decimal round trips); no clock, second party, state or fault to simulate",
}

ENGINE_BIN = {}


def main():
    props = [json.loads(l) for l in open('/verif/properties.jsonl')]
    checks = []
    na = []
    for p in props:
        pid = p['id']
        if pid in CHECKS:
            level, engine, technique, text, note, ref = CHECKS[pid]
            checks.append({
                "property_id": pid,
                "quick_cmd": f"./check {pid} quick",
                "thorough_cmd": f"./check {pid} thorough",
                "evidence_file": f"/verif/evidence/{pid}.json",
                "replay_cmd_template": "./replay {path}",
                "engine": engine,
                "level_claimed": {"category": level, "text": text, "design_ref": ref},
                "level_note": note,
                "technique": technique,
            })
        else:
            na.append({"property_id": pid, "reason": NA.get(pid, "check not built yet in this session (see DESIGN.md §5 for the planned scenario); not claimed")})
    m = {
        "version": 1,
        "setup_cmd": "cd /verif && ./setup",
        "hooks": {
            "guard": "--cfg gmsol_verif",
            "enable": "rustflags in /verif/sim/.cargo/config.toml (--cfg gmsol_verif); the engines path-depend on /repo's crates through /verif/sim/repo -> /repo",
            "baseline_off_cmd": "cd /repo && cargo test --workspace --no-fail-fast --offline",
            "source_commits": HOOK_COMMITS,
            "add_only": True,
        },
        "engines": [
            {"name": "simcore", "path": "/verif/sim/simcore", "serves_properties": sorted(CHECKS.keys()), "kind_free_text": "seeded PRNG streams, plan/execute scenario abstraction, batch runner, delta-debugging shrinker, replay files, evidence writer, known-findings matcher"},
            {"name": "chainsim", "path": "/verif/sim/chainsim", "serves_properties": sorted(k for k, v in CHECKS.items() if v[1].startswith('chainsim')), "kind_free_text": "in-process Solana cluster running the real program entrypoints natively (accounts db, tx atomicity, loader, CPI/PDA signing, sysvars incl. clock and LastRestartSlot, fault hooks)"},
            {"name": "marketsim", "path": "/verif/sim/marketsim", "serves_properties": sorted(k for k, v in CHECKS.items() if v[1].startswith('marketsim')), "kind_free_text": "own implementation of the gmsol-model market traits with simulated clock, parties, failing storage and an independent token ledger; every action is the real model code"},
            {"name": "unitsim", "path": "/verif/sim/unitsim", "serves_properties": sorted(k for k, v in CHECKS.items() if v[1].startswith('unitsim')), "kind_free_text": "single-object simulations (pool, fixed map, revertible buffer, feed-price timeline) against trivial reference models"},
        ],
        "checks": checks,
        "notes": "All checks are seeded simulations: VERIF_SEED selects the batch (default 20260921); a violation is minimised, written to /verif/replays/ and re-executed in a fresh process before it is reported. Exit 2 = harness error. Known findings: /verif/known_findings.json.",
        "not_applicable": na,
    }
    json.dump(m, open('/verif/MANIFEST.json', 'w'), indent=1)
    print(f"{len(checks)} checks, {len(na)} not claimed")


HOOK_COMMITS = []

if __name__ == '__main__':
    main()
