#!/usr/bin/env python3
"""Generate /verif/MANIFEST.json from the table below. Properties without an entry in CHECKS are listed under
not_applicable with the reason given in NA (or 'not claimed')."""
import json

SIM = "deterministic simulation with fault injection"

# id -> (level, engine label, technique, text, note, design_ref)
CHECKS = {
    "C16": ("exploration", "chainsim/scn-admin",
            SIM + ": keeper actors with different role sets write every configuration key (enumerated) on the in-process cluster; read-back, isolation and model-parameter oracles after every landed transaction",
            "Every key of every configuration enum is written through the real store instructions by six kinds of signers in seeded histories; after each landed write the key, every other key, the byte diff of the market account and the model-trait parameter named by the key are compared with a reference. Sampling over plans; the closed-market switch and the SDK view are out of reach of this check (see C40).",
            "trusted: chainsim runtime stub; key -> parameter table transcribed from key names and doc comments", "§5 C16"),
    "C17": ("exploration", "chainsim/scn-admin",
            SIM + ": every market created in any run (pure and impure) is inspected right after initialize_market against documented defaults",
            "Markets are created through the real initialize_market instruction (pure and impure, keeper/stranger signers, boundary names); every config key, flag, pool and purity is compared with a table transcribed from the documented DEFAULT_* constants. Found and fixed: reserve_factor default.",
            "trusted: the transcription of documented defaults (constants/market.rs names and doc comments)", "§5 C17"),
    "C18": ("exploration", "chainsim/scn-admin",
            SIM + ": role-table histories (enable/disable/grant/revoke, authority hand-over) with cluster-restart faults and capacity exhaustion, refined against a set model",
            "Seeded operation histories over 3–72 addresses and up to 36 role names, signed by authority / ex-admin / keeper / arbitrary addresses, with LastRestartSlot changes; after every transaction the on-chain has_role / check_role / has_admin answers, member and role counts equal a set model, and every operation's acceptance equals the model's verdict.",
            "trusted: chainsim runtime stub (sysvars, privilege rules)", "§5 C18"),
    "C19": ("fault_enumeration", "chainsim/scn-admin+scn-exchange",
            SIM + ": byzantine twin of every landed privileged transaction (stranger, holder of every other role, other user) executed on a fork of the pre-state",
            "For every landed privileged transaction of the admin, configuration and exchange scenarios the same transaction re-signed by (a) an address with no role, (b) a holder of every role except the required one, (c) for owner-gated closes another user, is executed on a fork of the pre-state and must fail. Exhaustive over the landed privileged transactions of each run; per-instruction coverage is reported (reach_probes c19_twin:*).",
            "covers store instructions reached by these scenarios; treasury/timelock/LP/competition twins are in their own scenarios where built; instructions needing absent third-party programs are uncovered", "§5 C19"),
    "C20": ("exploration", "chainsim/scn-admin",
            SIM + ": policy model vs transaction outcome for config updates by MARKET_KEEPER / MARKET_CONFIG_KEEPER / others, buffers with expiry under clock jumps and delayed application",
            "Single-key, flag and buffer updates by every kind of signer while the updatable markings change; buffers mix updatable and non-updatable entries, change authority, and are applied before/at/after expiry under clock jumps. Outcome must equal the policy model in both directions.",
            "trusted: chainsim runtime stub; policy transcribed from the statement", "§5 C20"),
    "C35": ("exploration", "chainsim/scn-admin",
            SIM + ": admin/keeper actors create roles, markets and tokens with boundary-length, multi-byte and NUL-containing names; accepted names must read back and be usable (fork probe)",
            "Names of length 0, 1, cap-1, cap, cap+1, multi-byte straddling the limit and with embedded/trailing NUL are submitted through enable_role, initialize_market and push_to_token_map_synthetic; an accepted name must be listed/read back identically and (roles) be grantable, queryable and disablable on a fork. Found and fixed: exactly-capacity and NUL names.",
            "store key (multi-store feature off) and timelock executor names are not exercised", "§5 C35"),
    "C22": ("exploration", "chainsim/scn-exchange",
            SIM + ": invariant after every landed transaction of exchange histories over markets sharing vaults, with dust transfers, soft failures and keeper retries",
            "After every landed transaction of seeded exchange histories (deposits, withdrawals, shifts, swaps, position orders, liquidations, fee updates over 3–5 markets sharing vaults, one pure) each market's recorded balance covers liquidity+impact+fees and, separately, collateral, and each vault's SPL balance covers the recorded balances of all markets sharing it.",
            "fee claims and market_transfer_in are not yet in the workload", "§5 C22"),
    "C23": ("fault_enumeration", "chainsim/scn-exchange",
            SIM + ": action lifecycle state machine + escrow ledger under transaction duplication, stale prices, soft/hard failures, closes by owner/keeper/stranger, and a final drain (bounded liveness)",
            "Every deposit, withdrawal, shift and order is tracked through a three-state model; executes of non-pending actions (keeper retries) must fail, soft-failed executes must cancel, leave every market untouched and keep the escrow, closes are allowed only per the ownership rules and must return every escrowed token and the execution lamports; at the end every owner closes everything and all escrows must be empty.",
            "GLV actions are covered by scn-glv where built", "§5 C23"),
    "C44": ("exploration", "chainsim/scn-exchange",
            SIM + ": swap-path oracle from emitted SwapExecuted events and per-market recorded-balance ledger over markets forming paths; invalid paths submitted by owners must be rejected at creation",
            "Swap orders with valid (1–3 hops) and invalid (duplicates, single-token markets, wrong first/last token, up to 10 hops) paths; executed hops must equal the declared markets in order with chained amounts, end in the declared token, and move each market's recorded balances by exactly the hop amounts.",
            "hop-level oracle on swap orders; deposits/withdrawals/position orders with paths are checked for creation-time rejection and solvency only", "§5 C44"),
    "C21": ("fault_enumeration", "chainsim/scn-exchange",
            SIM + ": every soft-failed (abandoned) execution is followed by a fork comparison: world with the abandoned operation vs world without it under the same next operation",
            "Chain part: for each soft-failed execution the market state must be untouched and the next successful operation must produce identical market state in both worlds. The unit-level fault enumeration over the revertible buffer is a separate part (unitsim) once merged.",
            "depends on soft failures being reached (reach probe soft_failed_execution)", "§5 C21"),
    "C09": ("exploration", "chainsim/scn-exchange",
            SIM + ": liquidation attempts by the keeper on live positions after price moves; a successful liquidation must close the whole position",
            "Chain part only: liquidations reached in exchange histories always remove the whole position. Health predicates (validate / check_liquidatable) and ADL are not yet covered here.",
            "partial coverage of the statement (third clause, ADL, not yet built)", "§5 C09"),
}

NA = {
    "C01": "pure leaf functions of their operands (no schedule, clock, party or fault); not a simulation target — consequences are covered by the ledger oracles of C04/C05/C06/C08",
    "C41": "pure client-side function of its argument list (transaction packing); no clock, second party, state or fault to simulate",
    "C42": "pure graph algorithm over its inputs (swap path search); no clock, second party, state or fault to simulate",
    "C43": "pure conversion functions (Decimal round trips); no clock, second party, state or fault to simulate",
}

ENGINE_BIN = {}


def main():
    props = [json.loads(l) for l in open('/verif/properties.jsonl')]
    checks = []
    na = []
    for p in props:
        pid = p['id']
        if pid in CHECKS:
            level, engine, technique, text, note, ref = CHECKS[pid]
            checks.append({
                "property_id": pid,
                "quick_cmd": f"./check {pid} quick",
                "thorough_cmd": f"./check {pid} thorough",
                "evidence_file": f"/verif/evidence/{pid}.json",
                "replay_cmd_template": "./replay {path}",
                "engine": engine,
                "level_claimed": {"category": level, "text": text, "design_ref": ref},
                "level_note": note,
                "technique": technique,
            })
        else:
            na.append({"property_id": pid, "reason": NA.get(pid, "check not built yet in this session (see DESIGN.md §5 for the planned scenario); not claimed")})
    m = {
        "version": 1,
        "setup_cmd": "cd /verif && ./setup",
        "hooks": {
            "guard": "--cfg gmsol_verif",
            "enable": "rustflags in /verif/sim/.cargo/config.toml (--cfg gmsol_verif); the engines path-depend on /repo's crates through /verif/sim/repo -> /repo",
            "baseline_off_cmd": "cd /repo && cargo test --workspace --no-fail-fast --offline",
            "source_commits": HOOK_COMMITS,
            "add_only": True,
        },
        "engines": [
            {"name": "simcore", "path": "/verif/sim/simcore", "serves_properties": sorted(CHECKS.keys()), "kind_free_text": "seeded PRNG streams, plan/execute scenario abstraction, batch runner, delta-debugging shrinker, replay files, evidence writer, known-findings matcher"},
            {"name": "chainsim", "path": "/verif/sim/chainsim", "serves_properties": sorted(k for k, v in CHECKS.items() if v[1].startswith('chainsim')), "kind_free_text": "in-process Solana cluster running the real program entrypoints natively (accounts db, tx atomicity, loader, CPI/PDA signing, sysvars incl. clock and LastRestartSlot, fault hooks)"},
            {"name": "marketsim", "path": "/verif/sim/marketsim", "serves_properties": sorted(k for k, v in CHECKS.items() if v[1].startswith('marketsim')), "kind_free_text": "own implementation of the gmsol-model market traits with simulated clock, parties, failing storage and an independent token ledger; every action is the real model code"},
            {"name": "unitsim", "path": "/verif/sim/unitsim", "serves_properties": sorted(k for k, v in CHECKS.items() if v[1].startswith('unitsim')), "kind_free_text": "single-object simulations (pool, fixed map, revertible buffer, feed-price timeline) against trivial reference models"},
        ],
        "checks": checks,
        "notes": "All checks are seeded simulations: VERIF_SEED selects the batch (default 20260921); a violation is minimised, written to /verif/replays/ and re-executed in a fresh process before it is reported. Exit 2 = harness error. Known findings: /verif/known_findings.json.",
        "not_applicable": na,
    }
    json.dump(m, open('/verif/MANIFEST.json', 'w'), indent=1)
    print(f"{len(checks)} checks, {len(na)} not claimed")


HOOK_COMMITS = []

if __name__ == '__main__':
    main()
