#!/bin/bash
# tools/verify_seed.sh <Cxx> <seed-out-dir> : confirm a seeded change in the shared scratch worktree /tmp/wt-seedv:
#   1. patch applies; `cargo test --workspace --no-run` compiles;  2. the baseline suite passes (only the 8 known
#   network tests fail);  3. prints the commands for the demonstration (run by hand: demos differ).
set -u
id="$1"; out="$2"
wt=/tmp/wt-seedv
if [ ! -d "$wt" ]; then git -C /repo worktree add --detach "$wt" HEAD >/dev/null; fi
cd "$wt" && git checkout -q -- . && git clean -fdq -e target && git checkout -q --detach "$(git -C /repo rev-parse HEAD)"
git apply "$out/patch.diff" || { echo "SEED $id: patch does not apply"; exit 1; }
export CARGO_TARGET_DIR=/tmp/wt-seedv/target
cargo test --workspace --no-run --offline >/tmp/seedv-build.log 2>&1 || { echo "SEED $id: does not compile"; tail -20 /tmp/seedv-build.log; exit 1; }
cargo test --workspace --no-fail-fast --offline >/tmp/seedv-test.log 2>&1
fails=$(grep -E "^test .* FAILED$" /tmp/seedv-test.log | sort -u)
echo "SEED $id: failing tests with the patch:"; echo "$fails"
n=$(echo "$fails" | grep -c FAILED)
echo "SEED $id: $n failing (8 network tests are expected to fail on the original tree as well)"
