#!/bin/bash
# Determinism proof: every scenario of every check is executed for N run indices in two separate processes at two
# different worker counts; per-run history hashes must agree (in-process diff = 0, equal batch hashes across processes).
N="${1:-300}"
B="${BIN_DIR:-/verif/sim/target/release}"   # directory holding the engine binaries
cd /verif/sim || exit 2
out=/verif/reports/determinism.txt
mkdir -p /verif/reports
: > "$out"
bad=0
for bin in gmxsim marketsim; do
  [ -x $B/$bin ] || continue
  for p in $(VERIF_DIR=/tmp $B/$bin list); do
    a=$(VERIF_DIR=/tmp $B/$bin determinism --property $p --runs $N --threads 16 2>/dev/null | grep DET)
    b=$(VERIF_DIR=/tmp $B/$bin determinism --property $p --runs $N --threads 5 2>/dev/null | grep DET)
    if [ "$a" == "$b" ] && ! echo "$a" | grep -qv "in_process_diffs=0"; then echo "SAME $a" | tr '\n' ' ' >> "$out"; echo >> "$out"; else echo "DIFF $p" >> "$out"; echo "$a" >> "$out"; echo "$b" >> "$out"; bad=1; fi
  done
done
cat "$out" | cut -c1-200
exit $bad
