//! C37 — treasury factor bounds and proportional GT buyback payouts.
//!
//! One run = one store + treasury deployment, 1–3 GT exchange windows ("rounds"). In every round users get GT,
//! burn it into the window's exchange vault, the keeper deposits 1–3 tokens (split by the GT factor between the
//! GT bank and the treasury vault), the clock crosses the window boundary, the keeper confirms the buyback with
//! oracle prices and the claimants complete their exchanges in a scheduler-chosen order.

use std::collections::BTreeMap;

use serde::{Deserialize, Serialize};
use solana_program::{instruction::Instruction, program_pack::Pack, pubkey::Pubkey};

use chainsim::deploy::{ata, token_balance};
use chainsim::ex::{create_ata_ix, update_feed_ix};
use chainsim::rt::{TxOpts, TxOutcome, World};
use chainsim::smoke::price_report;
use simcore::big::{bu, BigUint};
use simcore::{Components, Obs, Rng, Scenario, Tier};

use crate::fixture::*;

pub const P: &str = "C37";

/// `serde_json::Value` cannot hold integers above `u64::MAX`: 128-bit plan values travel as decimal strings.
mod u128_str {
    use serde::{Deserialize, Deserializer, Serializer};
    pub fn serialize<S: Serializer>(v: &u128, s: S) -> Result<S::Ok, S::Error> {
        s.serialize_str(&v.to_string())
    }
    pub fn deserialize<'de, D: Deserializer<'de>>(d: D) -> Result<u128, D::Error> {
        let s = String::deserialize(d)?;
        s.parse::<u128>().map_err(serde::de::Error::custom)
    }
}

#[derive(Clone, Debug, Serialize, Deserialize)]
pub struct Cfg {
    /// Fault-injecting sub-batch (odd runs) vs fault-free sub-batch (even runs).
    pub faults: bool,
    pub n_tokens: usize,
    pub token_order: u8,
    pub n_users: usize,
    pub rounds: usize,
    pub gt_decimals: u8,
    #[serde(with = "u128_str")]
    pub minting_cost: u128,
    #[serde(with = "u128_str")]
    pub grow_factor: u128,
    pub grow_step: u64,
    /// Price of each token as a multiple (in bps) of its reference price.
    pub price_bps: Vec<u32>,
    /// Seconds into the first window at which the run starts.
    pub start_offset: i64,
    /// C19: every landed privileged treasury transaction is re-run on a fork of its pre-state with
    /// forged signers (always on when the focus is C19, a small fraction of the other runs).
    #[serde(default)]
    pub twins: bool,
}

#[derive(Clone, Copy, Debug, PartialEq, Eq, Serialize, Deserialize)]
pub enum Fault {
    None,
    /// The transaction is never delivered.
    Lost,
    /// A second delivery of an earlier transaction.
    Dup,
    /// Delivered later than subsequently planned transactions.
    Delayed,
}

#[derive(Clone, Copy, Debug, PartialEq, Eq, Serialize, Deserialize)]
pub enum ClaimMode {
    Owner,
    /// A stranger signs as `owner` for somebody else's exchange (paying into the stranger's accounts).
    StrangerSigner,
    /// The owner signs but the receiving token accounts belong to a stranger.
    WrongTarget,
}

#[derive(Clone, Debug, Serialize, Deserialize)]
pub enum Op {
    SetFactor {
        buyback: bool,
        #[serde(with = "u128_str")]
        factor: u128,
        signer: Actor,
    },
    MintGt { user: usize, amount: u64 },
    PrepareVault,
    PrepareBank { back: usize, signer: Actor },
    Request { user: usize, back: usize, amount: u64 },
    Deposit { token: usize, amount: u64, signer: Actor, cpi_fail: u8 },
    Dust { token: usize, amount: u64, back: usize, to_bank: bool },
    Advance { secs: i64 },
    NextWindow { extra: i64, skip: u16 },
    Confirm { back: usize, signer: Actor, fresh_prices: bool, cpi_fail: u8 },
    StoreConfirm { back: usize },
    Claim { back: usize, user: usize, mode: ClaimMode, cpi_fail: u8 },
    Sync { back: usize, token: usize, signer: Actor },
    Restart,
    FixRestart,
    /// Administrative treasury instructions (generated in twin runs so that C19 reaches them).
    Admin(AdminOp),
}

#[derive(Clone, Debug, Serialize, Deserialize)]
pub enum AdminOp {
    /// toggle a token flag off and on again
    ToggleFlag { token: usize, deposit: bool },
    /// remove a token from the treasury vault config, insert it again and restore its flags
    ReinsertToken { token: usize },
    SetReferral { seed: u8 },
    /// initialise vault config #1 (once), authorise it, authorise #0 again
    SwitchVaultConfig,
    TransferReceiver { alt: bool },
    Withdraw { token: usize, amount: u64 },
    ClaimFees,
}

#[derive(Clone, Debug, Serialize, Deserialize)]
pub struct Step {
    pub op: Op,
    pub fault: Fault,
}

fn st(op: Op) -> Step {
    Step { op, fault: Fault::None }
}

// ------------------------------------------------------------------------------------------------ model

#[derive(Clone, Debug)]
struct Conf {
    /// Total GT confirmed (model: sum of the successful requests into the window).
    total: u64,
    /// Recorded bank balances right after the confirmation.
    initial: Vec<(Pubkey, u64)>,
    /// Model of the current recorded balances.
    bal: Vec<(Pubkey, u64)>,
    /// Model of the remaining confirmed GT.
    remaining: u64,
    claimed: Vec<bool>,
    n_claims: usize,
}

#[derive(Clone, Debug)]
struct Win {
    index: i64,
    vault: Pubkey,
    bank: Pubkey,
    /// Model: GT each user successfully requested into this window.
    req: Vec<u64>,
    conf: Option<Conf>,
}

struct Sim {
    w: World,
    fx: Fx,
    wins: Vec<Win>,
    price_bps: Vec<u32>,
    /// `last_restart_slot` the store has acknowledged (role checks fail while it differs from the cluster's).
    store_restart_slot: u64,
    twins: bool,
}

/// What a privileged instruction demands from its signer.
#[derive(Clone, Debug)]
enum Req {
    Role(&'static str),
    /// `complete_gt_exchange`: the signer must own the exchange; `(old target, mint)` pairs are re-pointed
    /// to the twin's own token accounts.
    ExchangeOwner(Vec<(Pubkey, Pubkey)>),
}

fn resign(ixs: &[Instruction], map: &[(Pubkey, Pubkey)]) -> Vec<Instruction> {
    ixs.iter()
        .map(|ix| {
            let mut ix = ix.clone();
            for m in ix.accounts.iter_mut() {
                if let Some((_, to)) = map.iter().find(|(from, _)| *from == m.pubkey) {
                    m.pubkey = *to;
                }
            }
            ix
        })
        .collect()
}

fn floor_mul_div(a: u64, b: u64, c: u64) -> BigUint {
    bu(a as u128) * bu(b as u128) / bu(c as u128)
}

fn sum_mint(w: &World, mint: &Pubkey) -> (u128, u64) {
    let mut sum: u128 = 0;
    for (_, a) in w.accounts.iter() {
        if a.owner == spl_token::ID && a.data.len() == spl_token::state::Account::LEN && a.data[..32] == mint.to_bytes() {
            sum += u64::from_le_bytes(a.data[64..72].try_into().unwrap()) as u128;
        }
    }
    (sum, chainsim::deploy::mint_supply(w, mint))
}

impl Sim {
    fn win_at(&self, back: usize) -> Option<usize> {
        if back < self.wins.len() {
            Some(self.wins.len() - 1 - back)
        } else {
            None
        }
    }

    fn restarted(&self) -> bool {
        self.w.last_restart_slot != self.store_restart_slot
    }

    fn cur_index(&self) -> i64 {
        self.w.clock.unix_timestamp / WINDOW
    }

    fn tx(&mut self, ixs: &[Instruction], cpi_fail: u8, obs: &mut Obs) -> TxOutcome {
        let opts = TxOpts { fail_cpi_at: if cpi_fail > 0 { Some(cpi_fail as u64) } else { None }, payer: None };
        let out = self.w.process_tx(ixs, &opts);
        if cpi_fail > 0 && !out.ok && out.custom_code() == Some(0xdead_0002) {
            obs.fault("cpi_failure");
        }
        out
    }

    /// A privileged treasury transaction; when it lands and twins are on, forged-signer twins of it are run
    /// on forks of the pre-state (C19).
    fn priv_tx(&mut self, ixs: &[Instruction], name: &'static str, req: Req, signer: Pubkey, cpi_fail: u8, obs: &mut Obs) -> TxOutcome {
        let pre = if self.twins { Some(self.w.clone()) } else { None };
        let out = self.tx(ixs, cpi_fail, obs);
        if out.ok {
            if let Some(pre) = pre {
                self.run_twins(&pre, ixs, name, &req, signer, obs);
            }
        }
        out
    }

    fn run_twins(&self, pre: &World, ixs: &[Instruction], name: &str, req: &Req, signer: Pubkey, obs: &mut Obs) {
        let mut variants: Vec<&str> = vec!["no_role", "every_other_role"];
        if matches!(req, Req::ExchangeOwner(_)) {
            variants.push("other_user");
        }
        for variant in variants {
            let mut f = pre.clone();
            let twin = if variant == "other_user" {
                if signer != self.fx.stranger {
                    self.fx.stranger
                } else {
                    self.fx.users[0]
                }
            } else {
                let k = f.new_key("c19-twin");
                f.fund(&k, 1_000_000_000_000);
                k
            };
            if variant == "every_other_role" {
                let required = match req {
                    Req::Role(r) => Some(*r),
                    Req::ExchangeOwner(_) => None,
                };
                let mut granted = true;
                for role in chainsim::deploy::ALL_ROLES.iter().chain(TREASURY_ROLES.iter()) {
                    if Some(*role) == required {
                        continue;
                    }
                    granted &= f.process(self.fx.grant_role_ix(&twin, role)).ok;
                }
                if !granted {
                    obs.probe("c19_grant_failed");
                    continue;
                }
            }
            let mut map = vec![(signer, twin)];
            if let Req::ExchangeOwner(targets) = req {
                for (old, mint) in targets {
                    let _ = f.process(create_ata_ix(&twin, &twin, mint));
                    map.push((*old, ata(&twin, mint)));
                }
            }
            let before = f.accounts.clone();
            let out = f.process_tx(&resign(ixs, &map), &TxOpts::default());
            obs.fault("byzantine_twin");
            obs.probe(&format!("c19_twin:treasury.{name}"));
            obs.outcome(variant, name, &out.class());
            obs.event(|| format!("twin {name} {variant} -> {}", out.class()));
            obs.require(
                !out.ok,
                "C19",
                "stranger_accepted",
                || format!("ix={name},variant={variant},program=treasury"),
                || format!("{name} landed when signed by a {variant} address {twin} instead of {signer}"),
            );
            if !out.ok {
                obs.require(
                    f.accounts == before,
                    "C19",
                    "rejection_changed_state",
                    || format!("ix={name},variant={variant},program=treasury"),
                    || format!("{name} was rejected ({}) but accounts changed", out.class()),
                );
            }
        }
    }

    /// Invariants checked after every step.
    fn invariants(&self, obs: &mut Obs) {
        if let Some((g, b)) = factors(&self.w, &self.fx.config) {
            obs.require(
                g <= UNIT && b <= UNIT,
                P,
                "factor_bound",
                || format!("gt_over={},buyback_over={}", g > UNIT, b > UNIT),
                || format!("gt_factor={g} buyback_factor={b} unit={UNIT}"),
            );
        }
        for t in 0..self.fx.n_tokens {
            let m = self.fx.mint(t);
            let (sum, supply) = sum_mint(&self.w, &m);
            obs.require(
                sum == supply as u128,
                P,
                "token_conservation",
                || format!("token={}", self.fx.d.tokens[t].name),
                || format!("sum of token accounts {sum} != supply {supply}"),
            );
        }
    }
}

// ------------------------------------------------------------------------------------------------ scenario

pub struct Buyback;

fn draw_factor(r: &mut Rng, allow_over: bool) -> u128 {
    let k = r.below(100);
    if allow_over && k < 30 {
        // misconfiguration: above 100 %
        match r.below(5) {
            0 => UNIT + 1,
            1 => UNIT + r.log_u128(UNIT),
            2 => UNIT * 2,
            3 => u128::MAX,
            _ => UNIT + r.range128(1, 1000),
        }
    } else if k < 45 {
        UNIT
    } else if k < 52 {
        0
    } else if k < 60 {
        UNIT - r.range128(1, 1000)
    } else if k < 70 {
        r.log_u128(UNIT)
    } else {
        // 1 % .. 99 % in whole percent
        UNIT / 100 * r.range128(1, 99)
    }
}

impl Scenario for Buyback {
    type Cfg = Cfg;
    type Step = Step;

    fn name(&self) -> &'static str {
        "treasury_buyback"
    }

    fn generate(&self, seed: u64, run: u64, tier: Tier, focus: &str) -> (Cfg, Vec<Step>) {
        let mut r = Rng::derive(seed, run, "treasury.cfg");
        let faults = run % 2 == 1;
        let twins = focus == "C19" || run % 16 == 7;
        let n_tokens = r.usize(1, 3);
        // "exact shares" plans: equal GT holdings for 3 or 6 claimants and bank balances that are exact
        // multiples of the number of claimants, so that balance * gt / remaining is an integer while
        // gt / remaining is a non-terminating decimal (the boundary between floor-of-product and
        // product-of-floors).
        let exact = run % 5 == 2;
        let n_users = if exact { *r.pick(&[3usize, 6, 3]) } else { r.usize(2, 6) };
        let long_tail = match tier {
            Tier::Quick => 12,
            Tier::Thorough => 8,
        };
        let rounds = *r.weighted(&[(60u32, 1usize), (30, 2), (10, 3)]);
        let gt_decimals = *r.pick(&[0u8, 5, 7, 9]);
        let minting_cost = match r.below(10) {
            0 => r.log_u128(1_000),
            1 => r.log_u128(10u128.pow(20)),
            _ => r.range128(10u128.pow(9), 10u128.pow(13)),
        };
        let grow_factor = UNIT + UNIT / 1000 * r.range128(0, 50);
        let grow_step = 10u64.pow(r.range(8, 13) as u32);
        let price_bps: Vec<u32> = (0..n_tokens).map(|_| r.range(500, 40_000) as u32).collect();
        let cfg = Cfg {
            faults,
            n_tokens,
            token_order: r.below(6) as u8,
            n_users,
            rounds,
            gt_decimals,
            minting_cost,
            grow_factor,
            grow_step,
            price_bps,
            start_offset: r.range_i64(0, WINDOW - 1),
            twins,
        };

        let mut g = Rng::derive(seed, run, "treasury.plan");
        let mut steps: Vec<Step> = vec![];
        // initial configuration
        if g.chance(9, 10) {
            let f = match g.below(4) {
                0 => UNIT,
                1 => UNIT / 100 * g.range128(1, 99),
                _ => UNIT / 10 * g.range128(3, 9),
            };
            steps.push(st(Op::SetFactor { buyback: false, factor: f, signer: Actor::Admin }));
        }
        if g.chance(9, 10) {
            let f = match g.below(4) {
                0 => UNIT,
                1 => g.log_u128(UNIT),
                _ => UNIT / 100 * g.range128(1, 100),
            };
            steps.push(st(Op::SetFactor { buyback: true, factor: f, signer: Actor::Admin }));
        }
        // model of the GT each user holds (upper bound, used to pick mostly-valid requests)
        let mut held: Vec<u64> = vec![0; n_users];
        let max_mint = (grow_step as u128 * 150).min(10u128.pow(13)) as u64;
        let mut pending_claims: Vec<Step> = vec![];
        for round in 0..rounds {
            let mut seg: Vec<Step> = vec![];
            seg.push(st(Op::PrepareVault));
            seg.push(st(Op::PrepareBank { back: 0, signer: Actor::Keeper }));
            let n_ops = if exact { g.usize(2, 6) } else if g.chance(1, long_tail) { g.usize(25, 70) } else { g.usize(4, 22) };
            let mut requested: Vec<bool> = vec![false; n_users];
            // make sure there is something to exchange and to pay out in most rounds
            let mut body: Vec<Op> = vec![];
            let equal_mint = g.log_u64(max_mint).max(1);
            for u in 0..n_users {
                if exact {
                    body.push(Op::MintGt { user: u, amount: equal_mint });
                } else if g.chance(4, 5) {
                    let a = g.log_u64(max_mint).max(1);
                    body.push(Op::MintGt { user: u, amount: a });
                }
            }
            for _ in 0..n_ops {
                let k = g.below(100);
                let op = if exact {
                    if k < 80 {
                        // a multiple of 100 * n_users: the bank's share stays a multiple of n_users for any whole-percent GT factor
                        let amount = 100 * n_users as u64 * 10u64.pow(g.range(0, 8) as u32) * g.range(1, 99);
                        Op::Deposit { token: g.usize(0, n_tokens - 1), amount, signer: Actor::Keeper, cpi_fail: 0 }
                    } else {
                        Op::Advance { secs: g.range_i64(0, 600) }
                    }
                } else if k < 18 {
                    Op::MintGt { user: g.usize(0, n_users - 1), amount: g.log_u64(max_mint) }
                } else if k < 42 {
                    Op::Request { user: g.usize(0, n_users - 1), back: 0, amount: 0 }
                } else if k < 64 {
                    let amount = match g.below(12) {
                        0 => 0,
                        1 => g.log_u64(u64::MAX / 8),
                        2 => g.range(1, 10),
                        3 | 4 => g.log_u64(10u64.pow(13)),
                        _ => 10u64.pow(g.range(5, 12) as u32) * g.range(1, 99) + g.range(0, 99_999),
                    };
                    let signer = if faults && g.chance(1, 10) { *g.pick(&[Actor::Admin, Actor::Stranger, Actor::StoreKeeper]) } else { Actor::Keeper };
                    let cpi_fail = if faults && g.chance(1, 12) { g.range(1, 6) as u8 } else { 0 };
                    Op::Deposit { token: g.usize(0, n_tokens - 1), amount, signer, cpi_fail }
                } else if k < 74 {
                    let signer = if faults && g.chance(1, 4) { *g.pick(&[Actor::Keeper, Actor::Stranger, Actor::StoreKeeper]) } else { Actor::Admin };
                    Op::SetFactor { buyback: g.bool(), factor: draw_factor(&mut g, true), signer }
                } else if k < 80 {
                    Op::Advance { secs: if faults && g.chance(1, 6) { 0 } else { g.range_i64(0, 1800) } }
                } else if k < 85 {
                    if faults {
                        Op::Dust { token: g.usize(0, n_tokens - 1), amount: g.log_u64(10u64.pow(12)), back: g.usize(0, 1), to_bank: g.chance(3, 4) }
                    } else {
                        Op::Sync { back: g.usize(0, 1), token: g.usize(0, n_tokens - 1), signer: Actor::Keeper }
                    }
                } else if k < 89 {
                    Op::Sync { back: g.usize(0, 1), token: g.usize(0, n_tokens - 1), signer: if faults && g.chance(1, 3) { Actor::Admin } else { Actor::Keeper } }
                } else if k < 93 {
                    // premature confirmation / claim: must be rejected by the store-side window checks
                    if g.bool() {
                        Op::Confirm { back: 0, signer: Actor::Keeper, fresh_prices: true, cpi_fail: 0 }
                    } else {
                        Op::Claim { back: 0, user: g.usize(0, n_users - 1), mode: ClaimMode::Owner, cpi_fail: 0 }
                    }
                } else if k < 96 && faults {
                    if g.bool() {
                        Op::Restart
                    } else {
                        Op::PrepareBank { back: g.usize(0, 1), signer: *g.pick(&[Actor::Stranger, Actor::Admin, Actor::Keeper]) }
                    }
                } else {
                    Op::MintGt { user: g.usize(0, n_users - 1), amount: g.log_u64(max_mint) }
                };
                body.push(op);
            }
            // administrative instructions, so that the forged-signer twins reach them too
            if twins {
                for _ in 0..g.usize(1, 4) {
                    let a = match g.below(8) {
                        0 => AdminOp::ToggleFlag { token: g.usize(0, n_tokens - 1), deposit: g.bool() },
                        1 => AdminOp::ReinsertToken { token: g.usize(0, n_tokens - 1) },
                        2 => AdminOp::SetReferral { seed: g.below(256) as u8 },
                        3 => AdminOp::SwitchVaultConfig,
                        4 => AdminOp::TransferReceiver { alt: g.bool() },
                        5 | 6 => AdminOp::Withdraw { token: g.usize(0, n_tokens - 1), amount: g.log_u64(10u64.pow(9)) },
                        _ => AdminOp::ClaimFees,
                    };
                    let at = g.usize(0, body.len());
                    body.insert(at, Op::Admin(a));
                }
            }
            // most holders do request an exchange at some point of the round
            for u in 0..n_users {
                if exact || g.chance(3, 4) {
                    let at = g.usize(n_users.min(body.len()), body.len());
                    body.insert(at, Op::Request { user: u, back: 0, amount: 0 });
                }
            }
            // resolve request amounts against the running GT model
            for op in body.iter_mut() {
                match op {
                    Op::MintGt { user, amount } => held[*user] = held[*user].saturating_add(*amount),
                    Op::Request { user, amount, .. } => {
                        let h = held[*user];
                        let a = match if exact { 2 } else { g.below(16) } {
                            0 => h.saturating_add(g.range(1, 1000)), // more than held: must fail
                            1 => 0,
                            2 | 3 | 4 => h,
                            _ => {
                                if h == 0 {
                                    0
                                } else {
                                    g.range(1, h)
                                }
                            }
                        };
                        *amount = a;
                        if a <= h {
                            held[*user] -= a;
                            requested[*user] = true;
                        }
                    }
                    _ => {}
                }
            }
            // a Restart is followed by its repair a few operations later (most of the time)
            let mut i = 0;
            while i < body.len() {
                if matches!(body[i], Op::Restart) && g.chance(4, 5) {
                    let at = (i + 1 + g.usize(0, 4)).min(body.len());
                    body.insert(at, Op::FixRestart);
                }
                i += 1;
            }
            seg.extend(body.into_iter().map(st));

            // claims of the previous round interleave with this round's operations (older window = back 1)
            let late: Vec<Step> = std::mem::take(&mut pending_claims);
            for mut c in late {
                if let Op::Claim { back, .. } | Op::Sync { back, .. } = &mut c.op {
                    *back = 1;
                }
                let at = g.usize(1, seg.len());
                seg.insert(at, c);
            }

            // window boundary
            let skip = if faults && g.chance(1, 15) { *g.pick(&[1u16, 2, 30, 400]) } else { 0 };
            seg.push(st(Op::NextWindow { extra: g.range_i64(0, 7200), skip }));

            // confirmation (with failed attempts in front when faults are on)
            if faults && g.chance(1, 4) {
                let bad = match g.below(4) {
                    0 => Op::Confirm { back: 0, signer: Actor::Keeper, fresh_prices: false, cpi_fail: 0 },
                    1 => Op::Confirm { back: 0, signer: *g.pick(&[Actor::Admin, Actor::Stranger, Actor::StoreKeeper]), fresh_prices: true, cpi_fail: 0 },
                    2 => Op::Confirm { back: 0, signer: Actor::Keeper, fresh_prices: true, cpi_fail: g.range(1, 8) as u8 },
                    _ => Op::Claim { back: 0, user: g.usize(0, n_users - 1), mode: ClaimMode::Owner, cpi_fail: 0 },
                };
                seg.push(st(bad));
            }
            if faults && g.chance(1, 40) {
                seg.push(st(Op::StoreConfirm { back: 0 }));
            }
            seg.push(st(Op::Confirm { back: 0, signer: Actor::Keeper, fresh_prices: true, cpi_fail: 0 }));

            // claims
            let mut order: Vec<usize> = (0..n_users).filter(|u| requested[*u] || g.chance(1, 6)).collect();
            g.shuffle(&mut order);
            let mut claims: Vec<Step> = vec![];
            for u in order.iter() {
                if faults && g.chance(1, 7) {
                    // this claimant crashed and never claims
                    claims.push(Step { op: Op::Claim { back: 0, user: *u, mode: ClaimMode::Owner, cpi_fail: 0 }, fault: Fault::Lost });
                    continue;
                }
                if faults && g.chance(1, 6) {
                    let mode = if g.bool() { ClaimMode::StrangerSigner } else { ClaimMode::WrongTarget };
                    claims.push(st(Op::Claim { back: 0, user: *u, mode, cpi_fail: 0 }));
                }
                if faults && g.chance(1, 8) {
                    claims.push(st(Op::Claim { back: 0, user: *u, mode: ClaimMode::Owner, cpi_fail: g.range(1, 5) as u8 }));
                }
                claims.push(st(Op::Claim { back: 0, user: *u, mode: ClaimMode::Owner, cpi_fail: 0 }));
                if g.chance(1, 5) {
                    claims.push(st(Op::Sync { back: 0, token: g.usize(0, n_tokens - 1), signer: Actor::Keeper }));
                }
                if faults && g.chance(1, 8) {
                    claims.push(st(Op::Dust { token: g.usize(0, n_tokens - 1), amount: g.log_u64(10u64.pow(10)), back: 0, to_bank: true }));
                }
            }
            // duplicated deliveries of claims
            if faults && !claims.is_empty() {
                for _ in 0..g.usize(0, 2) {
                    let i = g.usize(0, claims.len() - 1);
                    if let Op::Claim { .. } = claims[i].op {
                        if claims[i].fault == Fault::None {
                            let mut dup = claims[i].clone();
                            dup.fault = Fault::Dup;
                            let at = g.usize(i + 1, claims.len());
                            claims.insert(at, dup);
                        }
                    }
                }
            } else if !claims.is_empty() && g.chance(1, 4) {
                // even without faults a user may try to claim twice
                let i = g.usize(0, claims.len() - 1);
                if let Op::Claim { .. } = claims[i].op {
                    let dup = claims[i].clone();
                    let at = g.usize(i + 1, claims.len());
                    claims.insert(at, dup);
                }
            }
            if round + 1 < rounds && g.chance(1, 2) {
                // a part of the claims is delivered during the next round
                let keep = g.usize(0, claims.len());
                pending_claims = claims.split_off(keep);
            }
            seg.extend(claims);
            steps.extend(seg);
        }
        steps.extend(std::mem::take(&mut pending_claims));

        // transport faults on non-structural transactions
        if faults {
            let n = g.usize(0, 3);
            for _ in 0..n {
                if steps.len() < 4 {
                    break;
                }
                let i = g.usize(0, steps.len() - 1);
                let structural = matches!(steps[i].op, Op::PrepareVault | Op::NextWindow { .. } | Op::Advance { .. } | Op::Restart | Op::FixRestart);
                if structural || steps[i].fault != Fault::None {
                    continue;
                }
                let important = matches!(steps[i].op, Op::Confirm { .. } | Op::PrepareBank { .. });
                match g.below(3) {
                    0 => {
                        if !important || g.chance(1, 4) {
                            steps[i].fault = Fault::Lost;
                        }
                    }
                    1 => {
                        let mut dup = steps[i].clone();
                        dup.fault = Fault::Dup;
                        let at = (i + 1 + g.usize(0, 5)).min(steps.len());
                        steps.insert(at, dup);
                    }
                    _ => {
                        if !important {
                            let mut s = steps.remove(i);
                            s.fault = Fault::Delayed;
                            let at = (i + g.usize(1, 6)).min(steps.len());
                            steps.insert(at, s);
                        }
                    }
                }
            }
        }
        (cfg, steps)
    }

    fn execute(&self, cfg: &Cfg, steps: &[Step], obs: &mut Obs) {
        let mut w = World::new(0, 0);
        let gt = GtParams {
            decimals: cfg.gt_decimals,
            initial_minting_cost: cfg.minting_cost,
            grow_factor: cfg.grow_factor,
            grow_step: cfg.grow_step.max(1),
        };
        let n_tokens = cfg.n_tokens.clamp(1, 3);
        let n_users = cfg.n_users.clamp(1, 8);
        let start_ts = 19_676 * WINDOW + cfg.start_offset.rem_euclid(WINDOW);
        let fx = Fx::deploy(&mut w, n_tokens, cfg.token_order, n_users, &gt, start_ts, cfg.twins);
        let mut price_bps = cfg.price_bps.clone();
        price_bps.resize(n_tokens, 10_000);
        let store_restart_slot = w.last_restart_slot;
        let mut sim = Sim { w, fx, wins: vec![], price_bps, store_restart_slot, twins: cfg.twins };
        sim.invariants(obs);

        for (i, step) in steps.iter().enumerate() {
            obs.set_step(i);
            match step.fault {
                Fault::Lost => {
                    obs.fault("tx_loss");
                    obs.event(|| format!("lost {:?}", step.op));
                    continue;
                }
                Fault::Dup => obs.fault("tx_duplicate"),
                Fault::Delayed => obs.fault("tx_delayed"),
                Fault::None => {}
            }
            run_op(&mut sim, &step.op, obs);
            if obs.should_stop() {
                return;
            }
            sim.invariants(obs);
            if obs.should_stop() {
                return;
            }
        }
    }

    fn simplify_step(&self, s: &Step) -> Vec<Step> {
        let mut out = vec![];
        if s.fault != Fault::None && s.fault != Fault::Lost {
            out.push(Step { op: s.op.clone(), fault: Fault::None });
        }
        let mut push = |op: Op| out.push(Step { op, fault: s.fault });
        match &s.op {
            Op::MintGt { user, amount } if *amount > 1 => push(Op::MintGt { user: *user, amount: amount / 2 }),
            Op::Deposit { token, amount, signer, cpi_fail } => {
                if *cpi_fail > 0 {
                    push(Op::Deposit { token: *token, amount: *amount, signer: *signer, cpi_fail: 0 });
                }
                if *amount > 1 {
                    push(Op::Deposit { token: *token, amount: amount / 2, signer: *signer, cpi_fail: *cpi_fail });
                }
            }
            Op::Request { user, back, amount } if *amount > 1 => push(Op::Request { user: *user, back: *back, amount: amount / 2 }),
            Op::Dust { token, amount, back, to_bank } if *amount > 1 => push(Op::Dust { token: *token, amount: amount / 2, back: *back, to_bank: *to_bank }),
            Op::Advance { secs } if *secs != 0 => push(Op::Advance { secs: 0 }),
            Op::NextWindow { extra, skip } if *extra != 0 || *skip != 0 => push(Op::NextWindow { extra: 0, skip: 0 }),
            Op::Claim { back, user, mode, cpi_fail } if *cpi_fail > 0 => push(Op::Claim { back: *back, user: *user, mode: *mode, cpi_fail: 0 }),
            _ => {}
        }
        out
    }

    fn components(&self) -> Components {
        Components {
            real: vec![
                "gmsol_treasury program entrypoint (config, treasury vault config, GT bank, deposit, confirm_gt_buyback, complete_gt_exchange, sync_gt_bank_v2)".into(),
                "gmsol_store program entrypoint (roles, receiver hand-over, GT state, GT exchange vault / exchange, oracle set/clear prices, custom price feeds)".into(),
                "gmsol_mock_chainlink_verifier, gmsol_chainlink_datastreams report decoding".into(),
                "SPL Token, Associated Token Account".into(),
            ],
            stub: vec![
                "chainsim runtime (accounts db, loader, CPI, sysvars, system program)".into(),
                "receiver vault funded by a direct mint_to instead of claim_fees; GT handed out by mint_gt_reward instead of trading".into(),
                "price reports produced by the simulator's Chainlink report encoder".into(),
            ],
        }
    }

    fn rule(&self) -> String {
        "one run = fresh store+treasury deployment with 1-3 bank tokens (decimals 6/8/9, prices 0.05x-4x reference), 2-6 claimants, \
         1-3 exchange windows; per window: GT mints, exchange requests (partial/full/zero/over-balance), deposits split by the GT \
         factor, factor updates incl. exactly 100% and >100%, window crossing, confirm_gt_buyback with fresh prices, claims in a \
         shuffled order with repeats; odd runs add tx loss/dup/delay, forged signers, look-alike targets, CPI failures, dust into \
         bank vaults, clock stalls / multi-window jumps, cluster restart, a claimant that never claims. Twin runs (all runs under C19, 1/16 otherwise) add administrative treasury instructions and re-run every landed privileged treasury transaction on forks of its pre-state with a role-less signer, a signer holding every other role, and another user. A case is distinct by \
         (tokens, claimants, reservation kind, claim position, share bucket) fingerprints and outcome trigrams."
            .into()
    }
}

fn actor_name(a: Actor) -> &'static str {
    match a {
        Actor::Admin => "tadmin",
        Actor::Keeper => "tkeeper",
        Actor::StoreKeeper => "storekeeper",
        Actor::Stranger => "stranger",
    }
}

fn run_op(sim: &mut Sim, op: &Op, obs: &mut Obs) {
    match op {
        Op::SetFactor { buyback, factor, signer } => {
            let which = if *buyback { "buyback" } else { "gt" };
            let pre = factors(&sim.w, &sim.fx.config).unwrap_or((0, 0));
            let cur = if *buyback { pre.1 } else { pre.0 };
            let sk = sim.fx.signer(*signer);
            let ix = sim.fx.set_factor_ix(*buyback, *factor, &sk);
            let name = if *buyback { "set_buyback_factor" } else { "set_gt_factor" };
            let out = sim.priv_tx(&[ix], name, Req::Role("TREASURY_ADMIN"), sk, 0, obs);
            obs.outcome(actor_name(*signer), if *buyback { "set_buyback_factor" } else { "set_gt_factor" }, &out.class());
            let post = factors(&sim.w, &sim.fx.config).unwrap_or((0, 0));
            let now = if *buyback { post.1 } else { post.0 };
            obs.event(|| format!("set_{which}_factor {factor} by {} -> {} (was {cur}, now {now})", actor_name(*signer), out.class()));
            if *factor > UNIT {
                obs.fault("misconfiguration");
                obs.require(
                    !out.ok && post == pre,
                    P,
                    "factor_reject",
                    || format!("which={which},signer={},accepted={}", actor_name(*signer), out.ok),
                    || format!("factor {factor} > unit {UNIT}: outcome {} factors {:?} -> {:?}", out.class(), pre, post),
                );
            } else if *signer == Actor::Admin && *factor != cur && !sim.restarted() {
                if *factor == UNIT {
                    obs.probe("factor_exactly_100pct");
                }
                let other_same = if *buyback { post.0 == pre.0 } else { post.1 == pre.1 };
                obs.require(
                    out.ok && now == *factor && other_same,
                    P,
                    "factor_accept",
                    || format!("which={which},exact_unit={},ok={}", *factor == UNIT, out.ok),
                    || format!("factor {factor} <= unit by TREASURY_ADMIN: outcome {} factors {:?} -> {:?}", out.class(), pre, post),
                );
            } else if out.ok && *signer != Actor::Admin {
                obs.probe("factor_set_by_non_admin");
            }
            if !out.ok {
                debug_assert_eq!(pre, post);
            }
        }
        Op::MintGt { user, amount } => {
            let u = *user % sim.fx.users.len();
            let ix = sim.fx.mint_gt_ix(&sim.fx.user_accounts[u], *amount);
            let out = sim.tx(&[ix], 0, obs);
            obs.outcome("storekeeper", "mint_gt_reward", &out.class());
            obs.event(|| format!("mint_gt user{u} {amount} -> {}", out.class()));
        }
        Op::PrepareVault => {
            let index = sim.cur_index();
            let ix = sim.fx.prepare_vault_ix(&sim.fx.d.keeper, index);
            let out = sim.tx(&[ix], 0, obs);
            obs.outcome("storekeeper", "prepare_gt_exchange_vault", &out.class());
            obs.event(|| format!("prepare_vault index {index} -> {}", out.class()));
            if out.ok && !sim.wins.iter().any(|x| x.index == index) {
                let vault = sim.fx.vault_pda(index);
                let bank = sim.fx.bank_pda(&vault);
                sim.wins.push(Win { index, vault, bank, req: vec![0; sim.fx.users.len()], conf: None });
            }
        }
        Op::PrepareBank { back, signer } => {
            let Some(wi) = sim.win_at(*back) else {
                obs.outcome(actor_name(*signer), "prepare_gt_bank", "nowindow");
                return;
            };
            let (vault, bank) = (sim.wins[wi].vault, sim.wins[wi].bank);
            let s = sim.fx.signer(*signer);
            let mut ixs = vec![sim.fx.prepare_bank_ix(&s, &vault, &bank)];
            for t in 0..sim.fx.n_tokens {
                ixs.push(create_ata_ix(&s, &bank, &sim.fx.mint(t)));
            }
            let out = sim.priv_tx(&ixs, "prepare_gt_bank", Req::Role("TREASURY_KEEPER"), s, 0, obs);
            obs.outcome(actor_name(*signer), "prepare_gt_bank", &out.class());
            obs.event(|| format!("prepare_bank win{wi} by {} -> {}", actor_name(*signer), out.class()));
            if *signer != Actor::Keeper {
                obs.fault("byzantine_signer");
            }
        }
        Op::Request { user, back, amount } => {
            let u = *user % sim.fx.users.len();
            let Some(wi) = sim.win_at(*back) else {
                obs.outcome("user", "request_gt_exchange", "nowindow");
                return;
            };
            let vault = sim.wins[wi].vault;
            let ix = sim.fx.request_exchange_ix(&sim.fx.users[u], &sim.fx.user_accounts[u], &vault, *amount);
            let out = sim.tx(&[ix], 0, obs);
            obs.outcome("user", "request_gt_exchange", &out.class());
            obs.event(|| format!("request user{u} win{wi} {amount} -> {}", out.class()));
            if out.ok {
                sim.wins[wi].req[u] += *amount;
                if *amount == 0 {
                    obs.probe("zero_amount_exchange");
                }
            }
        }
        Op::Deposit { token, amount, signer, cpi_fail } => {
            let t = *token % sim.fx.n_tokens;
            let Some(wi) = sim.win_at(0) else {
                obs.outcome(actor_name(*signer), "deposit_to_treasury_vault", "nowindow");
                return;
            };
            let (vault, bank) = (sim.wins[wi].vault, sim.wins[wi].bank);
            let s = sim.fx.signer(*signer);
            let mut ixs = vec![];
            if *amount > 0 {
                ixs.push(sim.fx.mint_to_ix(t, &sim.fx.receiver_vaults[t], *amount));
            }
            ixs.push(sim.fx.deposit_ix(&s, t, &vault, &bank));
            let pre_bank = token_balance(&sim.w, &ata(&bank, &sim.fx.mint(t)));
            let out = sim.priv_tx(&ixs, "deposit_to_treasury_vault", Req::Role("TREASURY_KEEPER"), s, *cpi_fail, obs);
            obs.outcome(actor_name(*signer), "deposit_to_treasury_vault", &out.class());
            let post_bank = token_balance(&sim.w, &ata(&bank, &sim.fx.mint(t)));
            obs.event(|| format!("deposit token{t} {amount} win{wi} by {} -> {} (bank vault {pre_bank} -> {post_bank})", actor_name(*signer), out.class()));
            if *signer != Actor::Keeper {
                obs.fault("byzantine_signer");
            }
            if out.ok && post_bank > pre_bank {
                obs.probe("bank_funded");
            }
        }
        Op::Dust { token, amount, back, to_bank } => {
            let t = *token % sim.fx.n_tokens;
            let dest = if *to_bank {
                let Some(wi) = sim.win_at(*back) else {
                    obs.outcome("stranger", "dust", "nowindow");
                    return;
                };
                ata(&sim.wins[wi].bank, &sim.fx.mint(t))
            } else {
                sim.fx.treasury_vaults[t]
            };
            let ix = sim.fx.mint_to_ix(t, &dest, *amount);
            let out = sim.tx(&[ix], 0, obs);
            obs.outcome("stranger", "dust", &out.class());
            obs.event(|| format!("dust token{t} {amount} to_bank={to_bank} -> {}", out.class()));
            if out.ok {
                obs.fault("dust_transfer");
            }
        }
        Op::Advance { secs } => {
            // Solana's clock is monotone: plans never step backwards
            let secs = &(*secs).max(0);
            sim.w.advance(secs.unsigned_abs().max(1), *secs);
            if *secs == 0 {
                obs.fault("clock_stall");
            }
            obs.sim_seconds += secs.unsigned_abs();
            obs.event(|| format!("advance {secs}s -> ts {}", sim.w.clock.unix_timestamp));
        }
        Op::NextWindow { extra, skip } => {
            let target = (sim.cur_index() + 1 + *skip as i64) * WINDOW + (*extra).clamp(0, WINDOW - 1);
            let secs = target - sim.w.clock.unix_timestamp;
            sim.w.advance((secs as u64) * 2, secs);
            obs.sim_seconds += secs as u64;
            if *skip > 0 {
                obs.fault(if *skip >= 30 { "clock_extreme_jump" } else { "clock_jump" });
            }
            obs.event(|| format!("next window (+{skip}) -> ts {} index {}", sim.w.clock.unix_timestamp, sim.cur_index()));
        }
        Op::Confirm { back, signer, fresh_prices, cpi_fail } => {
            let Some(wi) = sim.win_at(*back) else {
                obs.outcome(actor_name(*signer), "confirm_gt_buyback", "nowindow");
                return;
            };
            let (vault, bank) = (sim.wins[wi].vault, sim.wins[wi].bank);
            if *fresh_prices {
                let now = sim.w.clock.unix_timestamp;
                for t in 0..sim.fx.n_tokens {
                    let dollars = base_price(&sim.fx.d.tokens[t].name) as i128;
                    let p = dollars * 10i128.pow(18) * sim.price_bps[t] as i128 / 10_000;
                    let rep = price_report(&sim.fx.d, t, now, p, 2);
                    let out = sim.w.process(update_feed_ix(&sim.fx.d, t, &rep, false));
                    obs.outcome("storekeeper", "update_price_feed", &out.class());
                }
            } else {
                obs.fault("stale_prices");
            }
            let s = sim.fx.signer(*signer);
            let Some(ix) = sim.fx.confirm_ix(&sim.w, &s, &vault, &bank) else {
                obs.outcome(actor_name(*signer), "confirm_gt_buyback", "nobank");
                return;
            };
            let pre = bank_view(&sim.w, &bank).unwrap_or_default();
            let out = sim.priv_tx(&[ix], "confirm_gt_buyback", Req::Role("TREASURY_KEEPER"), s, *cpi_fail, obs);
            obs.outcome(actor_name(*signer), "confirm_gt_buyback", &out.class());
            if *signer != Actor::Keeper {
                obs.fault("byzantine_signer");
            }
            let post = bank_view(&sim.w, &bank).unwrap_or_default();
            obs.event(|| format!("confirm win{wi} by {} -> {} pre {:?} post {:?}", actor_name(*signer), out.class(), pre, post));
            if out.ok {
                if *signer != Actor::Keeper {
                    obs.probe("confirm_by_non_keeper");
                }
                let total: u64 = sim.wins[wi].req.iter().sum();
                obs.require(
                    post.confirmed && post.remaining == total,
                    P,
                    "confirm_total",
                    || format!("confirmed={},match={}", post.confirmed, post.remaining == total),
                    || format!("remaining confirmed GT {} after confirmation, requested into the window {}", post.remaining, total),
                );
                let kind = if post.balances.iter().all(|b| b.1 == 0) {
                    if pre.balances.iter().all(|b| b.1 == 0) {
                        "reserve_empty_bank"
                    } else {
                        "reserve_zero"
                    }
                } else if post.balances == pre.balances {
                    "reserve_full"
                } else {
                    "reserve_partial"
                };
                obs.probe(kind);
                if total == 0 {
                    obs.probe("confirm_without_gt");
                }
                if sim.wins[wi].conf.is_none() {
                    let n = sim.fx.users.len();
                    sim.wins[wi].conf = Some(Conf {
                        total,
                        initial: post.balances.clone(),
                        bal: post.balances.clone(),
                        remaining: total,
                        claimed: vec![false; n],
                        n_claims: 0,
                    });
                } else {
                    obs.probe("confirmed_twice");
                }
            }
        }
        Op::StoreConfirm { back } => {
            let Some(wi) = sim.win_at(*back) else {
                obs.outcome("storekeeper", "confirm_gt_exchange_vault", "nowindow");
                return;
            };
            let ix = sim.fx.store_confirm_ix(&sim.wins[wi].vault);
            let out = sim.tx(&[ix], 0, obs);
            obs.outcome("storekeeper", "confirm_gt_exchange_vault", &out.class());
            obs.event(|| format!("store-level confirm win{wi} -> {}", out.class()));
            if out.ok {
                obs.fault("vault_confirmed_outside_treasury");
            }
        }
        Op::Claim { back, user, mode, cpi_fail } => claim(sim, *back, *user, *mode, *cpi_fail, obs),
        Op::Sync { back, token, signer } => {
            let t = *token % sim.fx.n_tokens;
            let Some(wi) = sim.win_at(*back) else {
                obs.outcome(actor_name(*signer), "sync_gt_bank", "nowindow");
                return;
            };
            let bank = sim.wins[wi].bank;
            let sk = sim.fx.signer(*signer);
            let ix = sim.fx.sync_ix(&sk, t, &bank);
            let pre = bank_view(&sim.w, &bank);
            let out = sim.priv_tx(&[ix], "sync_gt_bank_v2", Req::Role("TREASURY_WITHDRAWER"), sk, 0, obs);
            obs.outcome(actor_name(*signer), "sync_gt_bank", &out.class());
            obs.event(|| format!("sync win{wi} token{t} by {} -> {}", actor_name(*signer), out.class()));
            if out.ok {
                obs.probe("bank_synced");
                // syncing never touches the recorded balances
                let post = bank_view(&sim.w, &bank);
                if let (Some(a), Some(b)) = (pre, post) {
                    if a.balances != b.balances || a.remaining != b.remaining {
                        obs.probe("sync_changed_recorded_state");
                    }
                }
            }
        }
        Op::Admin(a) => admin_op(sim, a, obs),
        Op::Restart => {
            sim.w.last_restart_slot = sim.w.clock.slot;
            obs.fault("cluster_restart");
            obs.event(|| "cluster restart".to_string());
        }
        Op::FixRestart => {
            let out = sim.w.process(sim.fx.update_restart_ix());
            obs.outcome("admin", "update_last_restarted_slot", &out.class());
            if out.ok {
                sim.store_restart_slot = sim.w.last_restart_slot;
            }
        }
    }
}

fn admin_op(sim: &mut Sim, a: &AdminOp, obs: &mut Obs) {
    let admin = sim.fx.tadmin;
    let keeper = sim.fx.tkeeper;
    let mut go = |sim: &mut Sim, ix: Instruction, name: &'static str, role: &'static str, signer: Pubkey, obs: &mut Obs| -> bool {
        let out = sim.priv_tx(&[ix], name, Req::Role(role), signer, 0, obs);
        obs.outcome(if signer == admin { "tadmin" } else { "tkeeper" }, name, &out.class());
        obs.event(|| format!("{name} -> {}", out.class()));
        out.ok
    };
    match a {
        AdminOp::ToggleFlag { token, deposit } => {
            let t = *token % sim.fx.n_tokens;
            let flag = if *deposit { "allow_deposit" } else { "allow_withdrawal" };
            for value in [false, true] {
                let ix = sim.fx.toggle_flag_ix(&admin, t, flag, value);
                go(sim, ix, "toggle_token_flag", "TREASURY_ADMIN", admin, obs);
            }
        }
        AdminOp::ReinsertToken { token } => {
            let t = *token % sim.fx.n_tokens;
            let ix = sim.fx.remove_token_ix(&admin, t);
            go(sim, ix, "remove_token_from_treasury_vault", "TREASURY_ADMIN", admin, obs);
            let ix = sim.fx.insert_token_ix(&admin, t);
            go(sim, ix, "insert_token_to_treasury_vault", "TREASURY_ADMIN", admin, obs);
            for flag in ["allow_deposit", "allow_withdrawal"] {
                let ix = sim.fx.toggle_flag_ix(&admin, t, flag, true);
                go(sim, ix, "toggle_token_flag", "TREASURY_ADMIN", admin, obs);
            }
        }
        AdminOp::SetReferral { seed } => {
            let base = UNIT / 1000 * (*seed as u128);
            let factors = vec![base, base + UNIT / 100, base + UNIT / 50, base + UNIT / 20];
            let ix = sim.fx.set_referral_reward_ix(&admin, factors);
            go(sim, ix, "set_referral_reward", "TREASURY_ADMIN", admin, obs);
        }
        AdminOp::SwitchVaultConfig => {
            let tvc1 = sim.fx.tvc_pda(1);
            if sim.w.get(&tvc1).is_none() {
                let ix = sim.fx.init_tvc_ix(&admin, 1);
                go(sim, ix, "initialize_treasury_vault_config", "TREASURY_ADMIN", admin, obs);
            }
            let ix = sim.fx.set_tvc_ix(&admin, &tvc1);
            go(sim, ix, "set_treasury_vault_config", "TREASURY_ADMIN", admin, obs);
            let ix = sim.fx.set_tvc_ix(&admin, &sim.fx.tvc);
            go(sim, ix, "set_treasury_vault_config", "TREASURY_ADMIN", admin, obs);
        }
        AdminOp::TransferReceiver { alt } => {
            let next = if *alt { sim.fx.stranger } else { sim.fx.d.admin };
            let ix = sim.fx.transfer_receiver_ix(&admin, &next);
            go(sim, ix, "transfer_receiver", "TREASURY_OWNER", admin, obs);
        }
        AdminOp::Withdraw { token, amount } => {
            let t = *token % sim.fx.n_tokens;
            let have = token_balance(&sim.w, &sim.fx.treasury_vaults[t]);
            let target = ata(&sim.fx.users[0], &sim.fx.mint(t));
            let ix = sim.fx.withdraw_ix(&keeper, t, &target, (*amount).min(have));
            go(sim, ix, "withdraw_from_treasury_vault", "TREASURY_WITHDRAWER", keeper, obs);
        }
        AdminOp::ClaimFees => {
            if let Some(ix) = sim.fx.claim_fees_ix(&keeper) {
                go(sim, ix, "claim_fees", "TREASURY_KEEPER", keeper, obs);
            }
        }
    }
}

fn claim(sim: &mut Sim, back: usize, user: usize, mode: ClaimMode, cpi_fail: u8, obs: &mut Obs) {
    let u = user % sim.fx.users.len();
    let role = match mode {
        ClaimMode::Owner => "user",
        ClaimMode::StrangerSigner => "stranger",
        ClaimMode::WrongTarget => "user_wrong_target",
    };
    let Some(wi) = sim.win_at(back) else {
        obs.outcome(role, "complete_gt_exchange", "nowindow");
        return;
    };
    let (vault, bank) = (sim.wins[wi].vault, sim.wins[wi].bank);
    let owner = sim.fx.users[u];
    let exchange = sim.fx.exchange_pda(&vault, &owner);
    let (signer, target_owner) = match mode {
        ClaimMode::Owner => (owner, owner),
        ClaimMode::StrangerSigner => (sim.fx.stranger, sim.fx.stranger),
        ClaimMode::WrongTarget => (owner, sim.fx.stranger),
    };
    if mode != ClaimMode::Owner {
        obs.fault("byzantine_twin_claim");
    }
    let Some((ix, triples)) = sim.fx.complete_ix(&sim.w, &signer, &vault, &bank, &exchange, &target_owner) else {
        obs.outcome(role, "complete_gt_exchange", "nobank");
        return;
    };
    let pre_bank = bank_view(&sim.w, &bank).unwrap_or_default();
    let pre_ex = exchange_amount(&sim.w, &exchange);
    let pre_vaults: Vec<u64> = triples.iter().map(|t| token_balance(&sim.w, &t.1)).collect();
    let pre_targets: Vec<u64> = triples.iter().map(|t| token_balance(&sim.w, &t.2)).collect();
    let req = Req::ExchangeOwner(triples.iter().map(|t| (t.2, t.0)).collect());
    let out = sim.priv_tx(&[ix], "complete_gt_exchange", req, signer, cpi_fail, obs);
    obs.outcome(role, "complete_gt_exchange", &out.class());
    let post_bank = bank_view(&sim.w, &bank).unwrap_or_default();
    let post_vaults: Vec<u64> = triples.iter().map(|t| token_balance(&sim.w, &t.1)).collect();
    let post_targets: Vec<u64> = triples.iter().map(|t| token_balance(&sim.w, &t.2)).collect();
    obs.event(|| {
        format!(
            "claim win{wi} user{u} {:?} cpi_fail={cpi_fail} -> {} exchange={:?} bank {:?} -> {:?} targets {:?} -> {:?}",
            mode,
            out.class(),
            pre_ex,
            pre_bank,
            post_bank,
            pre_targets,
            post_targets
        )
    });
    if !out.ok {
        return;
    }
    match mode {
        ClaimMode::Owner => {}
        ClaimMode::StrangerSigner => obs.probe("twin_claim_by_stranger_succeeded"),
        ClaimMode::WrongTarget => obs.probe("claim_with_foreign_targets_succeeded"),
    }
    let n_users = sim.fx.users.len();
    let win = &mut sim.wins[wi];
    let windex = win.index;
    let req = win.req.clone();
    let paid: Vec<u64> = post_targets.iter().zip(pre_targets.iter()).map(|(a, b)| a.saturating_sub(*b)).collect();
    let Some(conf) = win.conf.as_mut() else {
        // The bank was never confirmed through the treasury (only reachable with a zero-GT exchange).
        obs.probe("claim_ok_on_unconfirmed_bank");
        return;
    };
    let already = conf.claimed[u];
    if already {
        // A second claim of the same exchange must not pay anything.
        obs.require(
            paid.iter().all(|p| *p == 0),
            P,
            "double_claim",
            || format!("paid={}", paid.iter().any(|p| *p > 0)),
            || format!("user{u} claimed window {windex} twice: second claim paid {:?}", paid),
        );
        return;
    }
    let gt_i = req[u];
    let position = conf.n_claims;
    // Reference from the model (confirmed total minus GT already claimed; initial balances minus payouts).
    for (k, (token, _vault, _target)) in triples.iter().enumerate() {
        let bal = conf.bal.iter().find(|b| b.0 == *token).map(|b| b.1).unwrap_or(0);
        let initial = conf.initial.iter().find(|b| b.0 == *token).map(|b| b.1).unwrap_or(0);
        let expected: BigUint = if gt_i == 0 || conf.remaining == 0 { bu(0) } else { floor_mul_div(bal, gt_i, conf.remaining) };
        let floor_share: BigUint = if gt_i == 0 || conf.total == 0 { bu(0) } else { floor_mul_div(initial, gt_i, conf.total) };
        let p = paid[k];
        let last = conf.remaining == gt_i;
        obs.require(
            bu(p as u128) == expected,
            P,
            "claim_amount",
            || format!("position={},last={},over={}", position.min(3), last, bu(p as u128) > expected),
            || {
                format!(
                    "user{u} window {windex} token {token}: paid {p}, expected floor({bal} * {gt_i} / {}) = {expected} (claim #{position})",
                    conf.remaining
                )
            },
        );
        obs.require(
            p <= bal && p <= pre_vaults[k],
            P,
            "claim_le_bank",
            || format!("over_recorded={},over_actual={}", p > bal, p > pre_vaults[k]),
            || format!("user{u} token {token}: paid {p}, bank records {bal}, bank vault holds {}", pre_vaults[k]),
        );
        obs.require(
            bu(p as u128) >= floor_share,
            P,
            "claim_floor_share",
            || format!("position={}", position.min(3)),
            || format!("user{u} token {token}: paid {p} < floor({initial} * {gt_i} / {}) = {floor_share}", conf.total),
        );
        // conservation between the bank vault and the receiver's account
        let out_of_vault = pre_vaults[k].saturating_sub(post_vaults[k]);
        obs.require(
            out_of_vault == p && post_vaults[k] <= pre_vaults[k],
            P,
            "claim_conservation",
            || "vault_vs_target".to_string(),
            || format!("user{u} token {token}: bank vault {} -> {}, target +{p}", pre_vaults[k], post_vaults[k]),
        );
        if let Some(b) = conf.bal.iter_mut().find(|b| b.0 == *token) {
            b.1 = b.1.saturating_sub(p);
        }
        if p > 0 {
            let share_bucket = (gt_i as u128 * 8 / conf.remaining.max(1) as u128) as u64;
            obs.fingerprint(&[0xC37, triples.len() as u64, n_users as u64, position as u64, k as u64, share_bucket, (bal == initial) as u64]);
        }
    }
    conf.claimed[u] = true;
    conf.n_claims += 1;
    conf.remaining = conf.remaining.saturating_sub(gt_i);
    if gt_i > 0 && paid.iter().any(|p| *p > 0) {
        obs.probe("claim_paid");
    }
    if position >= 1 && gt_i > 0 {
        obs.probe("claim_after_first");
    }
    // The last claim drains the bank.
    let all_claimed = (0..n_users).all(|x| req[x] == 0 || conf.claimed[x]);
    if all_claimed && conf.total > 0 {
        obs.probe("bank_fully_claimed");
        let drained = post_bank.balances.iter().all(|b| b.1 == 0) && post_bank.remaining == 0;
        obs.require(
            drained,
            P,
            "drain",
            || format!("remaining_zero={}", post_bank.remaining == 0),
            || format!("window {windex}: every exchange is claimed but the bank records {:?}", post_bank),
        );
    }
}

/// Step-count histogram helper used by the dev binary.
pub fn plan_summary(steps: &[Step]) -> BTreeMap<String, usize> {
    let mut m = BTreeMap::new();
    for s in steps {
        let name = format!("{:?}", s.op);
        let name = name.split(|c: char| !c.is_alphanumeric()).next().unwrap_or("").to_string();
        *m.entry(name).or_insert(0) += 1;
    }
    m
}
