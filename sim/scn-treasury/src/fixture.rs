//! Treasury deployment on top of `chainsim::deploy::deploy_full`, PDAs and instruction builders for the
//! GT-exchange / GT-bank / buyback flow.
//!
//! Forged (not through the real protocol): the receiver vault is funded by a direct `mint_to` of the mint
//! authority instead of `claim_fees` from a market; GT is handed out with `mint_gt_reward` instead of trading.

use anchor_lang::{InstructionData, ToAccountMetas};
use solana_program::{
    instruction::{AccountMeta, Instruction},
    pubkey::Pubkey,
    system_program,
};

use chainsim::deploy::{any_ix, ata, deploy_full, expect_ok, read_pod, store_ix, Dep, DeployOpts, TokenSpec};
use chainsim::ex::{create_ata_ix, prepare_user_ix, user_pda};
use chainsim::rt::World;

use gmsol_store::states::gt::{GtExchange, GtExchangeVault};
use gmsol_treasury::states::{Config, GtBank, TreasuryVaultConfig};

pub const TREASURY: Pubkey = gmsol_treasury::ID;
pub const UNIT: u128 = gmsol_store::constants::MARKET_USD_UNIT;
pub const WINDOW: i64 = gmsol_store::constants::DEFAULT_GT_VAULT_TIME_WINDOW as i64;

pub const TREASURY_ROLES: &[&str] = &["TREASURY_OWNER", "TREASURY_ADMIN", "TREASURY_WITHDRAWER", "TREASURY_KEEPER"];

pub fn tpda(seeds: &[&[u8]]) -> Pubkey {
    Pubkey::find_program_address(seeds, &TREASURY).0
}

/// Who signs a privileged treasury instruction.
#[derive(Clone, Copy, Debug, PartialEq, Eq, serde::Serialize, serde::Deserialize)]
pub enum Actor {
    /// TREASURY_ADMIN (+ TREASURY_OWNER).
    Admin,
    /// TREASURY_KEEPER + TREASURY_WITHDRAWER.
    Keeper,
    /// The store keeper: every *store* role, no treasury role.
    StoreKeeper,
    /// No role at all.
    Stranger,
}

#[derive(Clone, Debug)]
pub struct Fx {
    pub d: Dep,
    pub config: Pubkey,
    pub receiver: Pubkey,
    pub tvc: Pubkey,
    pub t_oracle: Pubkey,
    pub tadmin: Pubkey,
    pub tkeeper: Pubkey,
    pub stranger: Pubkey,
    pub n_tokens: usize,
    pub receiver_vaults: Vec<Pubkey>,
    pub treasury_vaults: Vec<Pubkey>,
    /// Claimants (store users with a user account).
    pub users: Vec<Pubkey>,
    pub user_accounts: Vec<Pubkey>,
}

#[derive(Clone, Debug)]
pub struct GtParams {
    pub decimals: u8,
    pub initial_minting_cost: u128,
    pub grow_factor: u128,
    pub grow_step: u64,
}

pub fn token_specs(n: usize, order: u8) -> Vec<TokenSpec> {
    let all = [
        TokenSpec { name: "SOL", decimals: 9, precision: 4, synthetic: false, schema: 3, heartbeat: 120 },
        TokenSpec { name: "USDC", decimals: 6, precision: 6, synthetic: false, schema: 3, heartbeat: 120 },
        TokenSpec { name: "WBTC", decimals: 8, precision: 2, synthetic: false, schema: 3, heartbeat: 120 },
    ];
    let perm: [usize; 3] = match order % 6 {
        0 => [0, 1, 2],
        1 => [0, 2, 1],
        2 => [1, 0, 2],
        3 => [1, 2, 0],
        4 => [2, 0, 1],
        _ => [2, 1, 0],
    };
    perm.iter().take(n).map(|i| all[*i].clone()).collect()
}

/// Reference dollar price (integer dollars) of a token by name.
pub fn base_price(name: &str) -> u64 {
    match name {
        "SOL" => 150,
        "USDC" => 1,
        _ => 60_000,
    }
}

impl Fx {
    pub fn signer(&self, a: Actor) -> Pubkey {
        match a {
            Actor::Admin => self.tadmin,
            Actor::Keeper => self.tkeeper,
            Actor::StoreKeeper => self.d.keeper,
            Actor::Stranger => self.stranger,
        }
    }

    pub fn mint(&self, t: usize) -> Pubkey {
        self.d.tokens[t].mint
    }

    /// Deploy store + tokens + feeds, then the treasury on top.
    pub fn deploy(w: &mut World, n_tokens: usize, token_order: u8, n_users: usize, gt: &GtParams, start_ts: i64, with_market: bool) -> Fx {
        let opts = DeployOpts {
            tokens: token_specs(n_tokens, token_order),
            // a pure market on token 0 gives `claim_fees` something to claim from (C19 twins)
            markets: if with_market { vec![(0, 0, 0)] } else { vec![] },
            n_users: n_users + 1,
            user_token_amount: 1_000_000,
            start_ts,
            start_slot: 1000,
        };
        let d = deploy_full(w, &opts);
        let tadmin = w.new_key("tadmin");
        let tkeeper = w.new_key("tkeeper");
        for k in [tadmin, tkeeper] {
            w.fund(&k, 1_000_000_000_000);
        }
        let config = tpda(&[b"config", d.store.as_ref()]);
        let receiver = tpda(&[b"receiver", config.as_ref()]);
        let tvc = tpda(&[b"treasury_vault_config", config.as_ref(), &0u16.to_le_bytes()]);

        // Roles.
        for role in TREASURY_ROLES {
            expect_ok(
                "enable treasury role",
                w.process(store_ix(
                    gmsol_store::accounts::EnableRole { authority: d.admin, store: d.store },
                    gmsol_store::instruction::EnableRole { role: role.to_string() },
                )),
            );
        }
        let grant = |w: &mut World, user: Pubkey, role: &str| {
            expect_ok(
                "grant role",
                w.process(store_ix(
                    gmsol_store::accounts::GrantRole { authority: d.admin, store: d.store },
                    gmsol_store::instruction::GrantRole { user, role: role.to_string() },
                )),
            );
        };
        grant(w, tadmin, "TREASURY_ADMIN");
        grant(w, tadmin, "TREASURY_OWNER");
        grant(w, tkeeper, "TREASURY_KEEPER");
        grant(w, tkeeper, "TREASURY_WITHDRAWER");
        // The treasury config PDA signs the CPIs into the store.
        grant(w, config, "GT_CONTROLLER");
        grant(w, config, "ORACLE_CONTROLLER");

        // Receiver hand-over: store.transfer_receiver (current receiver = admin) then
        // treasury.initialize_config (accepts as the receiver PDA).
        expect_ok(
            "store transfer_receiver",
            w.process(store_ix(
                gmsol_store::accounts::TransferReceiver { authority: d.admin, store: d.store, next_receiver: receiver },
                gmsol_store::instruction::TransferReceiver {},
            )),
        );
        expect_ok(
            "treasury initialize_config",
            w.process(any_ix(
                TREASURY,
                gmsol_treasury::accounts::InitializeConfig {
                    payer: d.admin,
                    store: d.store,
                    config,
                    receiver,
                    store_program: gmsol_store::ID,
                    system_program: system_program::ID,
                },
                gmsol_treasury::instruction::InitializeConfig {},
            )),
        );
        expect_ok(
            "initialize_treasury_vault_config",
            w.process(any_ix(
                TREASURY,
                gmsol_treasury::accounts::InitializeTreasuryVaultConfig {
                    authority: tadmin,
                    store: d.store,
                    config,
                    treasury_vault_config: tvc,
                    store_program: gmsol_store::ID,
                    system_program: system_program::ID,
                },
                gmsol_treasury::instruction::InitializeTreasuryVaultConfig { index: 0 },
            )),
        );
        expect_ok(
            "set_treasury_vault_config",
            w.process(any_ix(
                TREASURY,
                gmsol_treasury::accounts::SetTreasuryVaultConfig {
                    authority: tadmin,
                    store: d.store,
                    config,
                    treasury_vault_config: tvc,
                    store_program: gmsol_store::ID,
                },
                gmsol_treasury::instruction::SetTreasuryVaultConfig {},
            )),
        );
        let mut receiver_vaults = vec![];
        let mut treasury_vaults = vec![];
        for t in d.tokens.iter() {
            expect_ok(
                "insert_token_to_treasury_vault",
                w.process(any_ix(
                    TREASURY,
                    gmsol_treasury::accounts::InsertTokenToTreasuryVault {
                        authority: tadmin,
                        store: d.store,
                        config,
                        treasury_vault_config: tvc,
                        token: t.mint,
                        store_program: gmsol_store::ID,
                    },
                    gmsol_treasury::instruction::InsertTokenToTreasuryVault {},
                )),
            );
            for flag in ["allow_deposit", "allow_withdrawal"] {
                expect_ok(
                    "toggle_token_flag",
                    w.process(any_ix(
                        TREASURY,
                        gmsol_treasury::accounts::ToggleTokenFlag {
                            authority: tadmin,
                            store: d.store,
                            config,
                            treasury_vault_config: tvc,
                            token: t.mint,
                            store_program: gmsol_store::ID,
                        },
                        gmsol_treasury::instruction::ToggleTokenFlag { flag: flag.to_string(), value: true },
                    )),
                );
            }
            expect_ok("receiver vault", w.process(create_ata_ix(&d.admin, &receiver, &t.mint)));
            expect_ok("treasury vault", w.process(create_ata_ix(&d.admin, &tvc, &t.mint)));
            receiver_vaults.push(ata(&receiver, &t.mint));
            treasury_vaults.push(ata(&tvc, &t.mint));
        }

        // Oracle account whose authority is the treasury config PDA.
        let t_oracle = w.new_key("treasury_oracle");
        w.create_raw_account(&t_oracle, &gmsol_store::ID, 8 + std::mem::size_of::<gmsol_store::states::Oracle>());
        expect_ok(
            "initialize treasury oracle",
            w.process(store_ix(
                gmsol_store::accounts::InitializeOracle {
                    payer: d.keeper,
                    authority: config,
                    store: d.store,
                    oracle: t_oracle,
                    system_program: system_program::ID,
                },
                gmsol_store::instruction::InitializeOracle {},
            )),
        );

        // GT.
        expect_ok(
            "initialize_gt",
            w.process(store_ix(
                gmsol_store::accounts::InitializeGt { authority: d.keeper, store: d.store, system_program: system_program::ID },
                gmsol_store::instruction::InitializeGt {
                    decimals: gt.decimals,
                    initial_minting_cost: gt.initial_minting_cost,
                    grow_factor: gt.grow_factor,
                    grow_step: gt.grow_step,
                    ranks: vec![1_000_000_000, 10_000_000_000, 100_000_000_000],
                },
            )),
        );

        // Users.
        let users: Vec<Pubkey> = d.users[..n_users].to_vec();
        let stranger = d.users[n_users];
        let mut user_accounts = vec![];
        for u in users.iter().chain(std::iter::once(&stranger)) {
            expect_ok("prepare_user", w.process(prepare_user_ix(&d, u)));
            user_accounts.push(user_pda(&d, u));
        }
        Fx {
            d,
            config,
            receiver,
            tvc,
            t_oracle,
            tadmin,
            tkeeper,
            stranger,
            n_tokens,
            receiver_vaults,
            treasury_vaults,
            users,
            user_accounts,
        }
    }

    // ------------------------------------------------------------------ PDAs

    pub fn vault_pda(&self, index: i64) -> Pubkey {
        Pubkey::find_program_address(
            &[b"gt_exchange_vault", self.d.store.as_ref(), &index.to_le_bytes(), &(WINDOW as u32).to_le_bytes()],
            &gmsol_store::ID,
        )
        .0
    }

    pub fn bank_pda(&self, vault: &Pubkey) -> Pubkey {
        tpda(&[b"gt_bank", self.tvc.as_ref(), vault.as_ref()])
    }

    pub fn exchange_pda(&self, vault: &Pubkey, owner: &Pubkey) -> Pubkey {
        Pubkey::find_program_address(&[b"gt_exchange", vault.as_ref(), owner.as_ref()], &gmsol_store::ID).0
    }

    // ------------------------------------------------------------------ instructions

    pub fn set_factor_ix(&self, buyback: bool, factor: u128, signer: &Pubkey) -> Instruction {
        let accounts = gmsol_treasury::accounts::UpdateConfig {
            authority: *signer,
            store: self.d.store,
            config: self.config,
            store_program: gmsol_store::ID,
        };
        if buyback {
            any_ix(TREASURY, accounts, gmsol_treasury::instruction::SetBuybackFactor { factor })
        } else {
            any_ix(TREASURY, accounts, gmsol_treasury::instruction::SetGtFactor { factor })
        }
    }

    pub fn mint_gt_ix(&self, user_account: &Pubkey, amount: u64) -> Instruction {
        store_ix(
            gmsol_store::accounts::MintGtReward {
                authority: self.d.keeper,
                store: self.d.store,
                user: *user_account,
                event_authority: self.d.event_authority,
                program: gmsol_store::ID,
            },
            gmsol_store::instruction::MintGtReward { amount },
        )
    }

    pub fn prepare_vault_ix(&self, payer: &Pubkey, index: i64) -> Instruction {
        store_ix(
            gmsol_store::accounts::PrepareGtExchangeVault {
                payer: *payer,
                store: self.d.store,
                vault: self.vault_pda(index),
                system_program: system_program::ID,
            },
            gmsol_store::instruction::PrepareGtExchangeVault { time_window_index: index },
        )
    }

    pub fn prepare_bank_ix(&self, signer: &Pubkey, vault: &Pubkey, bank: &Pubkey) -> Instruction {
        any_ix(
            TREASURY,
            gmsol_treasury::accounts::PrepareGtBank {
                authority: *signer,
                store: self.d.store,
                config: self.config,
                treasury_vault_config: self.tvc,
                gt_exchange_vault: *vault,
                gt_bank: *bank,
                store_program: gmsol_store::ID,
                system_program: system_program::ID,
            },
            gmsol_treasury::instruction::PrepareGtBank {},
        )
    }

    pub fn request_exchange_ix(&self, owner: &Pubkey, user_account: &Pubkey, vault: &Pubkey, amount: u64) -> Instruction {
        store_ix(
            gmsol_store::accounts::RequestGtExchange {
                owner: *owner,
                store: self.d.store,
                user: *user_account,
                vault: *vault,
                exchange: self.exchange_pda(vault, owner),
                system_program: system_program::ID,
                event_authority: self.d.event_authority,
                program: gmsol_store::ID,
            },
            gmsol_store::instruction::RequestGtExchange { amount },
        )
    }

    pub fn deposit_ix(&self, signer: &Pubkey, t: usize, vault: &Pubkey, bank: &Pubkey) -> Instruction {
        let mint = self.mint(t);
        any_ix(
            TREASURY,
            gmsol_treasury::accounts::DepositToTreasuryVault {
                authority: *signer,
                store: self.d.store,
                config: self.config,
                treasury_vault_config: self.tvc,
                receiver: self.receiver,
                gt_exchange_vault: *vault,
                gt_bank: *bank,
                token: mint,
                receiver_vault: self.receiver_vaults[t],
                treasury_vault: self.treasury_vaults[t],
                gt_bank_vault: ata(bank, &mint),
                store_program: gmsol_store::ID,
                token_program: spl_token::ID,
                associated_token_program: spl_associated_token_account::ID,
            },
            gmsol_treasury::instruction::DepositToTreasuryVault {},
        )
    }

    pub fn sync_ix(&self, signer: &Pubkey, t: usize, bank: &Pubkey) -> Instruction {
        let mint = self.mint(t);
        any_ix(
            TREASURY,
            gmsol_treasury::accounts::SyncGtBank {
                authority: *signer,
                store: self.d.store,
                config: self.config,
                treasury_vault_config: self.tvc,
                gt_bank: *bank,
                token: mint,
                treasury_vault: self.treasury_vaults[t],
                gt_bank_vault: ata(bank, &mint),
                store_program: gmsol_store::ID,
                token_program: spl_token::ID,
                associated_token_program: spl_associated_token_account::ID,
            },
            gmsol_treasury::instruction::SyncGtBankV2 {},
        )
    }

    /// `confirm_gt_buyback` with the remaining accounts the program expects (feeds sorted by token over
    /// bank ∪ treasury tokens, treasury mints, treasury vaults). `None` when the accounts cannot be read.
    pub fn confirm_ix(&self, w: &World, signer: &Pubkey, vault: &Pubkey, bank: &Pubkey) -> Option<Instruction> {
        let b: GtBank = read_pod(w, bank)?;
        let tv: TreasuryVaultConfig = read_pod(w, &self.tvc)?;
        let mut set: std::collections::BTreeSet<Pubkey> = b.tokens().collect();
        set.extend(tv.tokens());
        let mut ix = any_ix(
            TREASURY,
            gmsol_treasury::accounts::ConfirmGtBuyback {
                authority: *signer,
                store: self.d.store,
                config: self.config,
                treasury_vault_config: self.tvc,
                gt_exchange_vault: *vault,
                gt_bank: *bank,
                token_map: self.d.token_map,
                oracle: self.t_oracle,
                event_authority: self.d.event_authority,
                store_program: gmsol_store::ID,
                chainlink_program: None,
            },
            gmsol_treasury::instruction::ConfirmGtBuyback {},
        );
        for t in set.iter() {
            let feed = self.d.tokens.iter().find(|x| x.mint == *t).map(|x| x.price_feed)?;
            ix.accounts.push(AccountMeta::new_readonly(feed, false));
        }
        let treasury_tokens: Vec<Pubkey> = tv.tokens().collect();
        for t in treasury_tokens.iter() {
            ix.accounts.push(AccountMeta::new_readonly(*t, false));
        }
        for t in treasury_tokens.iter() {
            ix.accounts.push(AccountMeta::new_readonly(ata(&self.tvc, t), false));
        }
        Some(ix)
    }

    /// Direct store-level confirmation by the store keeper (holder of GT_CONTROLLER, no treasury role).
    pub fn store_confirm_ix(&self, vault: &Pubkey) -> Instruction {
        store_ix(
            gmsol_store::accounts::ConfirmGtExchangeVault {
                authority: self.d.keeper,
                store: self.d.store,
                vault: *vault,
                event_authority: self.d.event_authority,
                program: gmsol_store::ID,
            },
            gmsol_store::instruction::ConfirmGtExchangeVaultV2 { buyback_value: 0, buyback_price: None },
        )
    }

    /// `complete_gt_exchange` signed by `signer` for `exchange`, paying into `target_owner`'s ATAs.
    /// Returns the instruction and the per-bank-token `(mint, bank vault, target)` triples.
    pub fn complete_ix(
        &self,
        w: &World,
        signer: &Pubkey,
        vault: &Pubkey,
        bank: &Pubkey,
        exchange: &Pubkey,
        target_owner: &Pubkey,
    ) -> Option<(Instruction, Vec<(Pubkey, Pubkey, Pubkey)>)> {
        let b: GtBank = read_pod(w, bank)?;
        let tokens: Vec<Pubkey> = b.tokens().collect();
        let mut ix = Instruction {
            program_id: TREASURY,
            accounts: gmsol_treasury::accounts::CompleteGtExchange {
                owner: *signer,
                store: self.d.store,
                config: self.config,
                treasury_vault_config: self.tvc,
                gt_exchange_vault: *vault,
                gt_bank: *bank,
                exchange: *exchange,
                store_program: gmsol_store::ID,
                token_program: spl_token::ID,
                token_2022_program: chainsim::deploy::all_program_ids()[2],
            }
            .to_account_metas(None),
            data: gmsol_treasury::instruction::CompleteGtExchange {}.data(),
        };
        let mut triples = vec![];
        for t in tokens.iter() {
            triples.push((*t, ata(bank, t), ata(target_owner, t)));
        }
        for t in triples.iter() {
            ix.accounts.push(AccountMeta::new_readonly(t.0, false));
        }
        for t in triples.iter() {
            ix.accounts.push(AccountMeta::new(t.1, false));
        }
        for t in triples.iter() {
            ix.accounts.push(AccountMeta::new(t.2, false));
        }
        Some((ix, triples))
    }

    pub fn tvc_pda(&self, index: u16) -> Pubkey {
        tpda(&[b"treasury_vault_config", self.config.as_ref(), &index.to_le_bytes()])
    }

    pub fn init_tvc_ix(&self, signer: &Pubkey, index: u16) -> Instruction {
        any_ix(
            TREASURY,
            gmsol_treasury::accounts::InitializeTreasuryVaultConfig {
                authority: *signer,
                store: self.d.store,
                config: self.config,
                treasury_vault_config: self.tvc_pda(index),
                store_program: gmsol_store::ID,
                system_program: system_program::ID,
            },
            gmsol_treasury::instruction::InitializeTreasuryVaultConfig { index },
        )
    }

    pub fn set_tvc_ix(&self, signer: &Pubkey, tvc: &Pubkey) -> Instruction {
        any_ix(
            TREASURY,
            gmsol_treasury::accounts::SetTreasuryVaultConfig {
                authority: *signer,
                store: self.d.store,
                config: self.config,
                treasury_vault_config: *tvc,
                store_program: gmsol_store::ID,
            },
            gmsol_treasury::instruction::SetTreasuryVaultConfig {},
        )
    }

    pub fn insert_token_ix(&self, signer: &Pubkey, t: usize) -> Instruction {
        any_ix(
            TREASURY,
            gmsol_treasury::accounts::InsertTokenToTreasuryVault {
                authority: *signer,
                store: self.d.store,
                config: self.config,
                treasury_vault_config: self.tvc,
                token: self.mint(t),
                store_program: gmsol_store::ID,
            },
            gmsol_treasury::instruction::InsertTokenToTreasuryVault {},
        )
    }

    pub fn remove_token_ix(&self, signer: &Pubkey, t: usize) -> Instruction {
        any_ix(
            TREASURY,
            gmsol_treasury::accounts::RemoveTokenFromTreasuryVault {
                authority: *signer,
                store: self.d.store,
                config: self.config,
                treasury_vault_config: self.tvc,
                token: self.mint(t),
                store_program: gmsol_store::ID,
            },
            gmsol_treasury::instruction::RemoveTokenFromTreasuryVault {},
        )
    }

    pub fn toggle_flag_ix(&self, signer: &Pubkey, t: usize, flag: &str, value: bool) -> Instruction {
        any_ix(
            TREASURY,
            gmsol_treasury::accounts::ToggleTokenFlag {
                authority: *signer,
                store: self.d.store,
                config: self.config,
                treasury_vault_config: self.tvc,
                token: self.mint(t),
                store_program: gmsol_store::ID,
            },
            gmsol_treasury::instruction::ToggleTokenFlag { flag: flag.to_string(), value },
        )
    }

    pub fn set_referral_reward_ix(&self, signer: &Pubkey, factors: Vec<u128>) -> Instruction {
        any_ix(
            TREASURY,
            gmsol_treasury::accounts::SetReferralReward {
                authority: *signer,
                store: self.d.store,
                config: self.config,
                store_program: gmsol_store::ID,
            },
            gmsol_treasury::instruction::SetReferralReward { factors },
        )
    }

    pub fn transfer_receiver_ix(&self, signer: &Pubkey, next_receiver: &Pubkey) -> Instruction {
        any_ix(
            TREASURY,
            gmsol_treasury::accounts::TransferReceiver {
                authority: *signer,
                store: self.d.store,
                config: self.config,
                receiver: self.receiver,
                next_receiver: *next_receiver,
                store_program: gmsol_store::ID,
                system_program: system_program::ID,
            },
            gmsol_treasury::instruction::TransferReceiver {},
        )
    }

    pub fn withdraw_ix(&self, signer: &Pubkey, t: usize, target: &Pubkey, amount: u64) -> Instruction {
        any_ix(
            TREASURY,
            gmsol_treasury::accounts::WithdrawFromTreasuryVault {
                authority: *signer,
                store: self.d.store,
                config: self.config,
                treasury_vault_config: self.tvc,
                token: self.mint(t),
                treasury_vault: self.treasury_vaults[t],
                target: *target,
                store_program: gmsol_store::ID,
                token_program: spl_token::ID,
            },
            gmsol_treasury::instruction::WithdrawFromTreasuryVault { amount, decimals: self.d.tokens[t].decimals },
        )
    }

    /// `claim_fees` from market 0 (a pure market on token 0) into the receiver vault.
    pub fn claim_fees_ix(&self, signer: &Pubkey) -> Option<Instruction> {
        let m = self.d.markets.first()?;
        let t = m.long;
        Some(any_ix(
            TREASURY,
            gmsol_treasury::accounts::ClaimFees {
                authority: *signer,
                store: self.d.store,
                config: self.config,
                receiver: self.receiver,
                market: m.market,
                token: self.mint(t),
                vault: chainsim::deploy::vault_of(&self.d.store, &self.mint(t)),
                receiver_vault: self.receiver_vaults[t],
                event_authority: self.d.event_authority,
                store_program: gmsol_store::ID,
                token_program: spl_token::ID,
                associated_token_program: spl_associated_token_account::ID,
                system_program: system_program::ID,
            },
            gmsol_treasury::instruction::ClaimFees { min_amount: 0 },
        ))
    }

    pub fn grant_role_ix(&self, user: &Pubkey, role: &str) -> Instruction {
        store_ix(
            gmsol_store::accounts::GrantRole { authority: self.d.admin, store: self.d.store },
            gmsol_store::instruction::GrantRole { user: *user, role: role.to_string() },
        )
    }

    pub fn mint_to_ix(&self, t: usize, dest: &Pubkey, amount: u64) -> Instruction {
        spl_token::instruction::mint_to(&spl_token::ID, &self.mint(t), dest, &self.d.admin, &[], amount).unwrap()
    }

    pub fn update_restart_ix(&self) -> Instruction {
        store_ix(
            gmsol_store::accounts::UpdateLastRestartedSlot { authority: self.d.admin, store: self.d.store },
            gmsol_store::instruction::UpdateLastRestartedSlot {},
        )
    }
}

// ---------------------------------------------------------------------- views

#[derive(Clone, Debug, Default, PartialEq, Eq)]
pub struct BankView {
    pub confirmed: bool,
    pub remaining: u64,
    /// (token, recorded balance) in the bank's own order.
    pub balances: Vec<(Pubkey, u64)>,
}

/// Offset of `remaining_confirmed_gt_amount` inside the account data (8 discriminator + 16 header + 2 keys);
/// the field has no public getter. `confirm_total` cross-checks it against the model on every confirmation.
const REMAINING_OFFSET: usize = 8 + 16 + 64;

pub fn bank_view(w: &World, bank: &Pubkey) -> Option<BankView> {
    let b: GtBank = read_pod(w, bank)?;
    let d = w.data(bank)?;
    let remaining = u64::from_le_bytes(d[REMAINING_OFFSET..REMAINING_OFFSET + 8].try_into().ok()?);
    let balances = b.tokens().map(|t| (t, b.get_balance(&t).unwrap_or(0))).collect();
    Some(BankView { confirmed: b.is_confirmed(), remaining, balances })
}

pub fn factors(w: &World, config: &Pubkey) -> Option<(u128, u128)> {
    let c: Config = read_pod(w, config)?;
    Some((c.gt_factor(), c.buyback_factor()))
}

pub fn vault_view(w: &World, vault: &Pubkey) -> Option<(u64, bool)> {
    let v: GtExchangeVault = read_pod(w, vault)?;
    Some((v.amount(), v.is_confirmed()))
}

pub fn exchange_amount(w: &World, exchange: &Pubkey) -> Option<u64> {
    if w.get(exchange).map_or(true, |a| a.owner != gmsol_store::ID) {
        return None;
    }
    let e: GtExchange = read_pod(w, exchange)?;
    Some(e.amount())
}

pub fn user_gt(w: &World, user_account: &Pubkey) -> u64 {
    read_pod::<gmsol_store::states::user::UserHeader>(w, user_account).map(|u| u.gt().amount()).unwrap_or(0)
}
