//! Development helper: run a few plans with history on stderr.
use simcore::{Obs, Scenario, Tier};
use std::sync::Arc;

fn main() {
    let _out = chainsim::rt::silence_stdout();
    let args: Vec<String> = std::env::args().collect();
    let from: u64 = args.get(1).and_then(|s| s.parse().ok()).unwrap_or(0);
    let to: u64 = args.get(2).and_then(|s| s.parse().ok()).unwrap_or(from + 1);
    let verbose = args.get(3).is_some();
    let s = scn_treasury::scn::Buyback;
    let mut agg: std::collections::BTreeMap<String, u64> = Default::default();
    let t0 = std::time::Instant::now();
    for run in from..to {
        let focus = std::env::var("FOCUS").unwrap_or_else(|_| "C37".into());
        let (cfg, steps) = s.generate(1, run, Tier::Quick, &focus);
        let mut obs = Obs::new(&focus, Arc::new(Default::default()), true);
        s.execute(&cfg, &steps, &mut obs);
        if verbose {
            eprintln!("cfg {:?}", cfg);
            for h in &obs.history {
                eprintln!("{h}");
            }
        }
        for v in &obs.violations {
            eprintln!("run {run} VIOLATION {} {} {} :: {}", v.property, v.oracle, v.key, v.detail);
        }
        for (k, v) in obs.probes.iter().chain(obs.faults.iter()) {
            *agg.entry(k.clone()).or_insert(0) += v;
        }
        *agg.entry("~ops_ok".into()).or_insert(0) += obs.ops_ok;
        *agg.entry("~ops_failed".into()).or_insert(0) += obs.ops_failed;
        *agg.entry("~steps".into()).or_insert(0) += obs.steps;
        *agg.entry("~evals".into()).or_insert(0) += obs.oracle_evals;
    }
    eprintln!("{:?} for {} runs", t0.elapsed(), to - from);
    for (k, v) in agg {
        eprintln!("{k:40} {v}");
    }
}
