//! Scenario crate `scn-treasury` (chain-level simulation on the chainsim runtime).

pub mod fixture;
pub mod scn;

use simcore::{CheckSpec, Part};

pub const PROPERTIES: &[&str] = &["C37", "C19"];

pub fn registry(property: &str) -> Option<CheckSpec> {
    match property {
        "C37" => Some(CheckSpec {
            property: "C37",
            level: "exploration",
            parts: vec![Part::new(scn::Buyback, 20_000, 400_000)],
            assumptions: vec![
                "the bank balances a claim is measured against are the balances the GT bank records (reserved at confirmation); tokens in the bank vault above the record belong to the treasury (sync_gt_bank_v2)".into(),
                "fees reach the receiver vault by a direct mint instead of claim_fees; GT is handed out by mint_gt_reward".into(),
                "GT exchange window is the default 24 h (gt_set_exchange_time_window is test-only and not compiled in)".into(),
            ],
        }),
        "C19" => Some(CheckSpec {
            property: "C19",
            level: "fault_enumeration",
            parts: vec![Part::new(scn::Buyback, 5_000, 100_000)],
            assumptions: vec![
                "treasury program only; every landed privileged treasury transaction of the buyback scenario is re-signed on a fork of its pre-state by an address without roles, by an address holding every other store/treasury role, and (complete_gt_exchange) by another user".into(),
                "create_swap_v2 and cancel_swap are not exercised (no swap order flow in this scenario); claim_fees runs against a market without accrued fees".into(),
            ],
        }),
        _ => None,
    }
}
