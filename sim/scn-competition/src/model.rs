//! Reference model of the competition and the C39 oracles.
//!
//! The model is a map trader -> total counted volume (big-integer sum clamped to `u128::MAX`, the documented
//! saturating behaviour) plus the few fields needed to mirror the *documented* counting rules (window, merge
//! window, threshold). It never keeps a leaderboard of its own: the oracles compare the on-chain board with the
//! totals.

use std::collections::BTreeMap;

use anchor_lang::AccountDeserialize;
use chainsim::rt::World;
use gmsol_competition::states::{Competition, Participant};
use simcore::big::{bi, bu, BigInt, BigUint};
use simcore::Obs;
use solana_program::pubkey::Pubkey;

pub const P: &str = "C39";
pub const BOARD: usize = 5;

#[derive(Clone, Debug)]
pub struct MPart {
    /// Total counted volume of the live participant account (resets when the account is closed and re-created).
    pub volume: u128,
    pub last_updated_at: i64,
    pub merged: u128,
    /// Number of counted trades of this incarnation.
    pub counted: u64,
}

#[derive(Clone, Debug)]
pub struct Model {
    pub competition: Pubkey,
    pub start: i64,
    pub end: i64,
    pub threshold: u128,
    pub ext_duration: i64,
    pub ext_cap: i64,
    pub only_increase: bool,
    pub merge_window: i64,
    /// Trader keys by index.
    pub traders: Vec<Pubkey>,
    /// Live participant accounts.
    pub parts: BTreeMap<usize, MPart>,
    /// Total volume of the trader as of its latest counted trade (what the board must show).
    pub shown: BTreeMap<usize, u128>,
    /// Context flags for violation keys.
    pub faults: bool,
    pub reopened: bool,
    pub extensions: u64,
}

pub fn read_competition(w: &World, k: &Pubkey) -> Option<Competition> {
    let a = w.get(k)?;
    if a.owner != gmsol_competition::ID {
        return None;
    }
    Competition::try_deserialize(&mut &a.data[..]).ok()
}

pub fn read_participant(w: &World, k: &Pubkey) -> Option<Participant> {
    let a = w.get(k)?;
    if a.owner != gmsol_competition::ID {
        return None;
    }
    Participant::try_deserialize(&mut &a.data[..]).ok()
}

/// Volume of a trade under the documented rule: the absolute change of the position size, or only the increase.
pub fn trade_volume(only_increase: bool, before: u128, after: u128) -> u128 {
    let d: BigInt = BigInt::from(after) - BigInt::from(before);
    if d.sign() == simcore::big::Sign::Minus && only_increase {
        return 0;
    }
    simcore::big::to_u128(d.magnitude()).expect("difference of two u128 fits u128")
}

fn sat_add(a: u128, b: u128) -> u128 {
    let s: BigUint = bu(a) + bu(b);
    simcore::big::to_u128(&s).unwrap_or(u128::MAX)
}

/// What the model expects of a counted trade (mirror of the documented rules; used for probes only, the
/// violation-grade oracles are in `check_*`).
#[derive(Clone, Debug, Default)]
pub struct CountedInfo {
    pub volume: u128,
    pub total: u128,
    pub extension_expected: bool,
    /// Exact end time the documented formula gives.
    pub end_expected: i64,
    pub saturated: bool,
    pub merged_path: bool,
}

impl Model {
    pub fn ongoing(&self, now: i64) -> bool {
        now >= self.start && now <= self.end
    }

    pub fn key(&self, full: bool) -> String {
        format!(
            "full={},faults={},reopened={}",
            full, self.faults, self.reopened
        )
    }

    /// Apply a counted trade of `tr` at `now` (the participant must be live).
    pub fn apply_counted(&mut self, tr: usize, volume: u128, now: i64) -> CountedInfo {
        let threshold = self.threshold;
        let window = self.merge_window;
        let p = self.parts.get_mut(&tr).expect("counted trade of a missing participant");
        let mut info = CountedInfo {
            volume,
            ..Default::default()
        };
        let exact: BigUint = bu(p.volume) + bu(volume);
        info.saturated = exact > bu(u128::MAX);
        p.volume = sat_add(p.volume, volume);
        p.counted += 1;
        info.total = p.volume;
        let diff = now as i128 - p.last_updated_at as i128;
        p.last_updated_at = now;
        let mut extend = false;
        if diff <= window as i128 {
            info.merged_path = true;
            p.merged = sat_add(p.merged, volume);
            if p.merged >= threshold {
                extend = true;
                p.merged = 0;
            }
        } else if volume >= threshold {
            extend = true;
            p.merged = 0;
        } else {
            p.merged = volume;
        }
        info.extension_expected = extend;
        info.end_expected = self.end;
        if extend {
            let proposed = self.end as i128 + self.ext_duration as i128;
            let cap = now as i128 + self.ext_cap as i128;
            let e = proposed.min(cap).max(self.end as i128);
            info.end_expected = e.min(i64::MAX as i128) as i64;
            self.extensions += 1;
        }
        self.shown.insert(tr, p.volume);
        info
    }
}

/// C39 end-time clause, evaluated on every landed transaction: `end' >= end` and
/// `end' <= max(end, trigger_time + cap)`.
pub fn check_end(obs: &mut Obs, m: &Model, now: i64, end_before: i64, end_after: i64, vacuous: bool) -> bool {
    if !vacuous {
        obs.checked("end_not_earlier");
        obs.checked("end_within_cap");
    }
    let mut ok = true;
    if end_after < end_before {
        obs.violation(
            P,
            "end_not_earlier",
            m.key(false),
            format!("end time moved earlier: {end_before} -> {end_after} at now={now}"),
        );
        ok = false;
    }
    let limit: BigInt = std::cmp::max(bi(end_before as i128), bi(now as i128) + bi(m.ext_cap as i128));
    if bi(end_after as i128) > limit {
        obs.violation(
            P,
            "end_within_cap",
            m.key(false),
            format!(
                "end time {end_before} -> {end_after} exceeds max(old end, now {now} + cap {}) = {limit}",
                m.ext_cap
            ),
        );
        ok = false;
    }
    ok
}

/// C39 leaderboard clauses against the model totals. Returns false if a violation was recorded.
pub fn check_board(obs: &mut Obs, m: &Model, comp: &Competition) -> bool {
    let board = &comp.leaderboard;
    let full = board.len() >= BOARD;
    let key = m.key(full);
    let mut ok = true;
    // at most five entries
    ok &= obs.require(
        board.len() <= BOARD,
        P,
        "board_len",
        || key.clone(),
        || format!("leaderboard has {} entries", board.len()),
    );
    if board.is_empty() && m.shown.is_empty() {
        return ok;
    }
    // distinct traders
    let mut seen: Vec<Pubkey> = Vec::with_capacity(board.len());
    let mut distinct = true;
    for e in board.iter() {
        if seen.contains(&e.address) {
            distinct = false;
        }
        seen.push(e.address);
    }
    ok &= obs.require(distinct, P, "board_distinct", || key.clone(), || format!("duplicate trader on the board: {}", fmt_board(m, comp)));
    // non-increasing volumes
    let sorted = board.windows(2).all(|w| w[0].volume >= w[1].volume);
    ok &= obs.require(sorted, P, "board_sorted", || key.clone(), || format!("board not in non-increasing order: {}", fmt_board(m, comp)));
    // each entry shows the trader's latest total
    let mut on_board: Vec<usize> = Vec::with_capacity(board.len());
    for e in board.iter() {
        let idx = m.traders.iter().position(|t| *t == e.address);
        let expected = idx.and_then(|i| m.shown.get(&i).copied());
        if let Some(i) = idx {
            on_board.push(i);
        }
        ok &= obs.require(
            expected == Some(e.volume),
            P,
            "board_volume_current",
            || key.clone(),
            || {
                format!(
                    "entry of trader #{idx:?} shows {} but its latest total counted volume is {expected:?}; board: {}",
                    e.volume,
                    fmt_board(m, comp)
                )
            },
        );
    }
    if full {
        // every participant off a full board has no more volume than the last entry
        let last = board[BOARD.min(board.len()) - 1].volume;
        for (i, p) in m.parts.iter() {
            if on_board.contains(i) {
                continue;
            }
            ok &= obs.require(
                p.volume <= last,
                P,
                "off_board_le_last",
                || key.clone(),
                || {
                    format!(
                        "participant #{i} is off the full board with volume {} > last entry {last}; board: {}",
                        p.volume,
                        fmt_board(m, comp)
                    )
                },
            );
        }
    } else {
        // title clause ("the leaderboard is the top traders by volume"): while the board is not full every
        // trader that has a counted trade is on it
        for (i, v) in m.shown.iter() {
            ok &= obs.require(
                on_board.contains(i),
                P,
                "top_k_complete",
                || key.clone(),
                || {
                    format!(
                        "trader #{i} has counted volume {v} but is missing from a board of {} entries: {}",
                        board.len(),
                        fmt_board(m, comp)
                    )
                },
            );
        }
    }
    ok
}

pub fn fmt_board(m: &Model, comp: &Competition) -> String {
    let mut s = String::from("[");
    for (k, e) in comp.leaderboard.iter().enumerate() {
        if k > 0 {
            s.push_str(", ");
        }
        match m.traders.iter().position(|t| *t == e.address) {
            Some(i) => s.push_str(&format!("#{i}:{}", e.volume)),
            None => s.push_str(&format!("{}:{}", e.address, e.volume)),
        }
    }
    s.push(']');
    s
}
