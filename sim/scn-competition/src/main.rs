fn main() {
    let out = chainsim::rt::silence_stdout();
    simcore::out::set_output(out);
    simcore::cli_main(&scn_competition::registry, scn_competition::PROPERTIES)
}
