//! Instruction builders for the competition program and the forged store-side inputs (callback authority flagged
//! as signer, trade-event account written straight into the accounts database).
//!
//! What is forged (see `components()`):
//! * the signature of the store's callback-authority PDA (`[b"callback"]` of the store program): chainsim does not
//!   verify signatures, a signer is a flag on the `AccountMeta`, so the callback is delivered as a TOP-LEVEL
//!   instruction instead of a CPI from the store;
//! * the trade-event account: an account owned by the store program id whose data is the real
//!   `gmsol_store::events::TradeData` discriminator + `bytemuck::bytes_of` of the store's own public struct.
//! `scn-competition::real` validates both against what the real store sends.

use std::sync::OnceLock;

use anchor_lang::{Discriminator, InstructionData, ToAccountMetas};
use bytemuck::Zeroable;
use chainsim::rt::{Acc, World};
use solana_program::{hash::hashv, instruction::Instruction, pubkey::Pubkey, rent::Rent, system_program};

pub const ACTION_KIND_ORDER: u8 = 3;

pub fn fixed_key(tag: &str, i: u64) -> Pubkey {
    Pubkey::new_from_array(hashv(&[b"scn-competition", tag.as_bytes(), &i.to_le_bytes()]).to_bytes())
}

pub fn trader_key(i: usize) -> Pubkey {
    fixed_key("trader", i as u64)
}

/// `(callback authority PDA of the store, bump)`.
pub fn callback_authority() -> (Pubkey, u8) {
    static C: OnceLock<(Pubkey, u8)> = OnceLock::new();
    *C.get_or_init(|| Pubkey::find_program_address(&[gmsol_callback::CALLBACK_AUTHORITY_SEED], &gmsol_store::ID))
}

pub fn competition_pda(payer: &Pubkey, start_time: i64) -> (Pubkey, u8) {
    Pubkey::find_program_address(
        &[gmsol_competition::states::COMPETITION_SEED, payer.as_ref(), &start_time.to_le_bytes()],
        &gmsol_competition::ID,
    )
}

pub fn participant_pda(competition: &Pubkey, trader: &Pubkey) -> (Pubkey, u8) {
    Pubkey::find_program_address(
        &[gmsol_competition::states::PARTICIPANT_SEED, competition.as_ref(), trader.as_ref()],
        &gmsol_competition::ID,
    )
}

pub fn comp_ix(accounts: impl ToAccountMetas, args: impl InstructionData) -> Instruction {
    Instruction {
        program_id: gmsol_competition::ID,
        accounts: accounts.to_account_metas(None),
        data: args.data(),
    }
}

#[derive(Clone, Debug)]
pub struct InitParams {
    pub start_time: i64,
    pub end_time: i64,
    pub volume_threshold: u128,
    pub extension_duration: i64,
    pub extension_cap: i64,
    pub only_count_increase: bool,
    pub volume_merge_window: i64,
}

pub fn initialize_ix(payer: &Pubkey, competition: &Pubkey, p: &InitParams) -> Instruction {
    comp_ix(
        gmsol_competition::accounts::InitializeCompetition {
            payer: *payer,
            competition: *competition,
            system_program: system_program::ID,
        },
        gmsol_competition::instruction::InitializeCompetition {
            start_time: p.start_time,
            end_time: p.end_time,
            volume_threshold: p.volume_threshold,
            extension_duration: p.extension_duration,
            extension_cap: p.extension_cap,
            only_count_increase: p.only_count_increase,
            volume_merge_window: p.volume_merge_window,
        },
    )
}

pub fn create_participant_ix(payer: &Pubkey, competition: &Pubkey, participant: &Pubkey, trader: &Pubkey) -> Instruction {
    comp_ix(
        gmsol_competition::accounts::CreateParticipantIdempotent {
            payer: *payer,
            competition: *competition,
            participant: *participant,
            trader: *trader,
            system_program: system_program::ID,
        },
        gmsol_competition::instruction::CreateParticipantIdempotent {},
    )
}

pub fn close_participant_ix(competition: &Pubkey, participant: &Pubkey, trader: &Pubkey) -> Instruction {
    comp_ix(
        gmsol_competition::accounts::CloseParticipant {
            trader: *trader,
            competition: *competition,
            participant: *participant,
        },
        gmsol_competition::instruction::CloseParticipant {},
    )
}

/// Everything that identifies one `on_executed` delivery.
#[derive(Clone, Debug)]
pub struct ExecutedCall {
    pub authority: Pubkey,
    pub authority_bump: u8,
    pub authority_is_signer: bool,
    pub competition: Pubkey,
    pub participant: Pubkey,
    pub trader: Pubkey,
    pub action: Pubkey,
    /// The store passes the callback program id when there is no position.
    pub position: Pubkey,
    /// `None`: the store passes the callback program id (Anchor's encoding of an absent optional account).
    pub trade_event: Option<Pubkey>,
    pub action_kind: u8,
    pub callback_version: u8,
    pub success: bool,
    pub extra_account_count: u8,
}

/// The `on_executed` instruction exactly as `ActionHeader::invoke_general_callback` builds it for the CPI
/// (interface account order: authority, shared data, partitioned data, owner, action, then the remaining accounts
/// position and trade event).
pub fn on_executed_ix(c: &ExecutedCall) -> Instruction {
    let mut ix = comp_ix(
        gmsol_competition::accounts::OnExecuted {
            authority: c.authority,
            competition: c.competition,
            participant: c.participant,
            trader: c.trader,
            action: c.action,
            position: c.position,
            trade_event: c.trade_event,
        },
        gmsol_competition::instruction::OnExecuted {
            authority_bump: c.authority_bump,
            action_kind: c.action_kind,
            callback_version: c.callback_version,
            success: c.success,
            extra_account_count: c.extra_account_count,
        },
    );
    ix.accounts[0].is_signer = c.authority_is_signer;
    ix
}

#[derive(Clone, Copy, Debug, PartialEq, Eq)]
pub enum OtherCallback {
    Created,
    Updated,
    Closed,
}

pub fn other_callback_ix(
    which: OtherCallback,
    competition: &Pubkey,
    participant: &Pubkey,
    trader: &Pubkey,
    action: &Pubkey,
    position: &Pubkey,
) -> Instruction {
    let (authority, authority_bump) = callback_authority();
    let mut ix = match which {
        OtherCallback::Created => comp_ix(
            gmsol_competition::accounts::OnCreated {
                authority,
                competition: *competition,
                participant: *participant,
                trader: *trader,
                action: *action,
            },
            gmsol_competition::instruction::OnCreated {
                authority_bump,
                action_kind: ACTION_KIND_ORDER,
                callback_version: 0,
                extra_account_count: 1,
            },
        ),
        OtherCallback::Updated => comp_ix(
            gmsol_competition::accounts::OnCallback {
                authority,
                competition: *competition,
                participant: *participant,
                trader: *trader,
                action: *action,
            },
            gmsol_competition::instruction::OnUpdated {
                _authority_bump: authority_bump,
                _action_kind: ACTION_KIND_ORDER,
                _callback_version: 0,
                _extra_account_count: 0,
            },
        ),
        OtherCallback::Closed => comp_ix(
            gmsol_competition::accounts::OnCallback {
                authority,
                competition: *competition,
                participant: *participant,
                trader: *trader,
                action: *action,
            },
            gmsol_competition::instruction::OnClosed {
                _authority_bump: authority_bump,
                _action_kind: ACTION_KIND_ORDER,
                _callback_version: 0,
                _extra_account_count: 0,
            },
        ),
    };
    if which == OtherCallback::Created {
        // remaining account passed by the store on creation: the position (or the program id)
        ix.accounts.push(solana_program::instruction::AccountMeta::new_readonly(*position, false));
    }
    ix
}

/// Bytes of a trade-event account as the store lays it out (discriminator + zero-copy body), built with the
/// store's own struct.
pub fn trade_event_bytes(user: &Pubkey, before_size_in_usd: u128, after_size_in_usd: u128, ts: i64, slot: u64, trade_id: u64) -> Vec<u8> {
    let mut t = gmsol_store::events::TradeData::zeroed();
    t.user = *user;
    t.trade_id = trade_id;
    t.ts = ts;
    t.slot = slot;
    t.before.size_in_usd = before_size_in_usd;
    t.before.trade_id = trade_id.saturating_sub(1);
    t.after.size_in_usd = after_size_in_usd;
    t.after.trade_id = trade_id;
    let mut d = Vec::with_capacity(8 + std::mem::size_of::<gmsol_store::events::TradeData>());
    d.extend_from_slice(gmsol_store::events::TradeData::DISCRIMINATOR);
    d.extend_from_slice(bytemuck::bytes_of(&t));
    d
}

pub fn put_trade_event(w: &mut World, key: &Pubkey, owner: &Pubkey, data: Vec<u8>) {
    let lamports = Rent::default().minimum_balance(data.len());
    w.accounts.insert(
        *key,
        Acc {
            lamports,
            data,
            owner: *owner,
            executable: false,
        },
    );
}

/// One-time sanity check of the forged layout against the struct the competition program actually reads
/// (`gmsol_programs::gmsol_store::accounts::TradeData`, generated from the IDL).
pub fn layout_sanity() {
    static ONCE: OnceLock<()> = OnceLock::new();
    ONCE.get_or_init(|| {
        use gmsol_programs::gmsol_store::accounts::TradeData as Idl;
        assert_eq!(
            std::mem::size_of::<Idl>(),
            std::mem::size_of::<gmsol_store::events::TradeData>(),
            "TradeData size differs between the store and the IDL-generated struct"
        );
        assert_eq!(Idl::DISCRIMINATOR, gmsol_store::events::TradeData::DISCRIMINATOR);
        let user = fixed_key("layout-user", 1);
        let b = trade_event_bytes(&user, 0x1111_2222_3333_4444_5555_6666_7777_8888, 0x9999_aaaa_bbbb_cccc_dddd_eeee_ffff_0001, 5, 6, 7);
        let idl: Idl = bytemuck::pod_read_unaligned(&b[8..]);
        assert_eq!(idl.user, user);
        assert_eq!(idl.before.size_in_usd, 0x1111_2222_3333_4444_5555_6666_7777_8888);
        assert_eq!(idl.after.size_in_usd, 0x9999_aaaa_bbbb_cccc_dddd_eeee_ffff_0001);
        assert_eq!(gmsol_competition::states::CALLER_PROGRAM_ID, gmsol_store::ID);
    });
}

/// Minimal cluster for the competition program: system program + competition program.
pub fn mini_world(t0: i64) -> World {
    chainsim::deploy::init_thread();
    let mut w = World::new(t0, 1000);
    w.add_program(system_program::ID);
    w.add_program(gmsol_competition::ID);
    w
}
