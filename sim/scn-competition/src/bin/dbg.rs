use simcore::{Scenario, Tier};
fn main() {
    let mode = std::env::args().nth(1).unwrap_or_default();
    let n: u64 = std::env::args().nth(2).and_then(|s| s.parse().ok()).unwrap_or(2000);
    for run in 0..n {
        let mut obs = simcore::Obs::new("C39", Default::default(), true);
        if mode == "real" {
            let (cfg, steps) = scn_competition::real::CompetitionReal.generate(20260921, run, Tier::Quick, "C39");
            println!("=== run {run} {cfg:?}");
            for s in &steps { println!("   {s:?}"); }
            scn_competition::real::CompetitionReal.execute(&cfg, &steps, &mut obs);
        } else {
            let (cfg, steps) = scn_competition::sim::CompetitionSim.generate(20260921, run, Tier::Quick, "C39");
            scn_competition::sim::CompetitionSim.execute(&cfg, &steps, &mut obs);
        }
        if mode == "real" { for h in &obs.history { println!("      {h}"); } println!("      {:?}", obs.probes); }
        if !obs.violations.is_empty() { eprintln!("{:?}", obs.violations[0]); break; }
    }
}
