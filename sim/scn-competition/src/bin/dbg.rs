use simcore::{Scenario, Tier};
fn main() {
    let n: u64 = std::env::args().nth(1).and_then(|s| s.parse().ok()).unwrap_or(2000);
    for run in 0..n {
        let (cfg, steps) = scn_competition::sim::CompetitionSim.generate(20260921, run, Tier::Quick, "C39");
        let mut obs = simcore::Obs::new("C39", Default::default(), false);
        eprintln!("run {run} steps {}", steps.len());
        scn_competition::sim::CompetitionSim.execute(&cfg, &steps, &mut obs);
        if !obs.violations.is_empty() { eprintln!("{:?}", obs.violations[0]); eprintln!("{cfg:?}"); break; }
    }
}
