//! C39 main scenario: the competition program driven with forged store callbacks.
//!
//! Every step is one transaction (plus, for trades, an optional lazy `create_participant_idempotent`) against the
//! real `gmsol_competition` entrypoint; after every step the on-chain `Competition` account is decoded and compared
//! with the reference model (`model.rs`).

use serde::{Deserialize, Serialize};
use simcore::rng::{hash_bytes, mix};
use simcore::{Components, Obs, Rng, Scenario, Tier};
use solana_program::instruction::Instruction;
use solana_program::pubkey::Pubkey;

use chainsim::rt::{TxOpts, TxOutcome, World};

use crate::forge::*;
use crate::model::*;

pub struct CompetitionSim;

/// `serde_json::Value` cannot hold integers above `u64::MAX`: u128 plan fields travel as decimal strings.
pub mod u128_str {
    use serde::{Deserialize, Deserializer, Serializer};
    pub fn serialize<S: Serializer>(v: &u128, s: S) -> Result<S::Ok, S::Error> {
        s.serialize_str(&v.to_string())
    }
    pub fn deserialize<'de, D: Deserializer<'de>>(d: D) -> Result<u128, D::Error> {
        let s = String::deserialize(d)?;
        s.parse::<u128>().map_err(serde::de::Error::custom)
    }
}

#[derive(Clone, Debug, Serialize, Deserialize)]
pub struct Cfg {
    /// Cluster time at deployment.
    pub t0: i64,
    pub n_traders: usize,
    /// `start_time = t0 + start_delay` (>= 1).
    pub start_delay: i64,
    /// `end_time = start_time + duration` (>= 1).
    pub duration: i64,
    #[serde(with = "u128_str")]
    pub threshold: u128,
    pub ext_duration: i64,
    pub ext_cap: i64,
    pub only_increase: bool,
    pub merge_window: i64,
    /// Fault-injecting sub-batch (duplication, byzantine twins, extreme clock jumps, injected CPI failure). Execution does not depend on this flag; it only labels violation keys.
    pub faults: bool,
    /// Generation profile (recorded for the evidence samples).
    pub profile: String,
    /// C19 byzantine twins: every landed callback / close_participant is re-tried on a fork of the pre-state by
    /// callers without the required authority.
    #[serde(default)]
    pub c19_twins: bool,
}

/// Deviation of one `on_executed` delivery from the ordinary successful order with a trade event.
#[derive(Clone, Debug, PartialEq, Eq, Serialize, Deserialize)]
pub enum Twist {
    None,
    /// The store reports a failed order (`success = false`).
    NotSuccess,
    /// The store passes no trade event (swap orders, failed orders).
    NoEvent,
    // --- byzantine twins (fault sub-batch) ---
    /// The trade event belongs to another trader.
    WrongUser(u8),
    /// The trade-event account is not owned by the store.
    WrongEventOwner,
    BadKind(u8),
    BadVersion(u8),
    FewExtra(u8),
    /// The callback authority is not a signer.
    AuthorityNotSigner,
    /// A stranger signs in place of the callback authority.
    StrangerAuthority,
    /// The participant account of another trader.
    WrongParticipant(u8),
    BadBump,
}

impl Twist {
    fn byzantine(&self) -> bool {
        !matches!(self, Twist::None | Twist::NotSuccess | Twist::NoEvent)
    }
    fn tag(&self) -> &'static str {
        match self {
            Twist::None => "trade",
            Twist::NotSuccess => "trade_failed_order",
            Twist::NoEvent => "trade_no_event",
            Twist::WrongUser(_) => "byz_wrong_user",
            Twist::WrongEventOwner => "byz_event_owner",
            Twist::BadKind(_) => "byz_kind",
            Twist::BadVersion(_) => "byz_version",
            Twist::FewExtra(_) => "byz_extra",
            Twist::AuthorityNotSigner => "byz_unsigned",
            Twist::StrangerAuthority => "byz_stranger",
            Twist::WrongParticipant(_) => "byz_participant",
            Twist::BadBump => "byz_bump",
        }
    }
}

#[derive(Clone, Debug, PartialEq, Eq, Serialize, Deserialize)]
pub struct TradeStep {
    pub trader: u8,
    /// Position size before / after the trade.
    #[serde(with = "u128_str")]
    pub before: u128,
    #[serde(with = "u128_str")]
    pub after: u128,
    /// Seconds the clock advances before the delivery.
    pub dt: i64,
    /// Create the participant account first if it does not exist.
    pub create_first: bool,
    pub twist: Twist,
}

#[derive(Clone, Debug, PartialEq, Eq, Serialize, Deserialize)]
pub enum ClockStep {
    /// Relative move forward (negative values are treated as 0: the cluster clock is monotone).
    Rel(i64),
    /// Move forward to `start_time + offset` (no-op if that is in the past).
    ToStart(i64),
    /// Move forward to the *current* `end_time + offset` (no-op if that is in the past).
    ToEnd(i64),
}

#[derive(Clone, Debug, PartialEq, Eq, Serialize, Deserialize)]
pub enum Step {
    Trade(TradeStep),
    Clock(ClockStep),
    Create { trader: u8, fail_cpi: bool },
    Close { trader: u8 },
    /// Deliver the k-th most recent trade callback again (same instruction, same trade-event bytes).
    Dup { back: u8 },
    /// `on_created` (0) / `on_updated` (1) / `on_closed` (2).
    Other { trader: u8, which: u8 },
}

// ------------------------------------------------------------------------------------------------ generation

fn draw_volume_pair(r: &mut Rng, profile: u8, threshold: u128) -> (u128, u128) {
    // returns (before, after)
    let v: u128 = match profile {
        // tiny integers: many ties
        0 => r.range(0, 6) as u128,
        // around the threshold
        1 => {
            let t = threshold;
            match r.below(6) {
                0 => t,
                1 => t.saturating_sub(1),
                2 => t.saturating_add(1),
                3 => t / 2,
                4 => t / 2 + 1,
                _ => r.range128(0, t.saturating_mul(2).max(4)),
            }
        }
        // log-uniform
        2 => r.log_u128(u128::MAX >> 1),
        // huge: saturation
        3 => match r.below(4) {
            0 => u128::MAX,
            1 => u128::MAX - r.range(0, 3) as u128,
            2 => u128::MAX / 2 + r.range(0, 2) as u128,
            _ => u128::MAX / 3,
        },
        // mixed
        _ => match r.below(5) {
            0 => r.range(0, 4) as u128,
            1 => r.log_u128(u128::MAX),
            2 => threshold,
            3 => r.range(1, 1000) as u128 * 1_000_000_000_000_000_000_000u128,
            _ => r.range(1, 50) as u128,
        },
    };
    // shape: pure increase from zero, increase on top of a base, decrease, no change
    match r.below(10) {
        0..=4 => (0, v),
        5 | 6 => {
            let base = r.log_u128(u128::MAX >> 2);
            (base, base.saturating_add(v))
        }
        7 | 8 => {
            // decrease
            let base = r.log_u128(u128::MAX >> 2);
            (base.saturating_add(v), base)
        }
        _ => (v, v),
    }
}

fn pick_i64(r: &mut Rng, xs: &[i64]) -> i64 {
    *r.pick(xs)
}

impl CompetitionSim {
    fn gen(&self, seed: u64, run: u64, tier: Tier) -> (Cfg, Vec<Step>) {
        let mut rc = Rng::derive(seed, run, "cfg");
        let faults = run % 2 == 1;
        let n_traders = *rc.weighted(&[(2, 2usize), (2, 3), (2, 5), (4, 6), (4, 7), (3, 8), (2, 10), (2, 12), (1, 4), (1, 9), (1, 11)]);
        let t0 = *rc.weighted(&[(6, 1_700_000_000i64), (2, 0), (1, 1), (1, 1 << 40), (1, i64::MAX / 4)]);
        let start_delay = pick_i64(&mut rc, &[1, 1, 2, 10, 100, 3600]);
        let duration = *rc.weighted(&[(1, 1i64), (1, 5), (3, 60), (4, 600), (3, 86_400), (1, 30 * 86_400), (1, i64::MAX / 4)]);
        let ext_duration = match rc.below(8) {
            0 => 1,
            1 => 10,
            2 => 60,
            3 => 3600,
            4 => duration,
            5 => duration.saturating_mul(2),
            6 => rc.range_i64(1, 100_000),
            _ => {
                if rc.chance(1, 4) {
                    i64::MAX
                } else {
                    300
                }
            }
        };
        let ext_cap = match rc.below(6) {
            0 => ext_duration,
            1 => ext_duration.saturating_add(1),
            2 => ext_duration.saturating_mul(2),
            3 => ext_duration.max(duration / 2),
            4 => ext_duration.max(86_400),
            _ => {
                if rc.chance(1, 3) {
                    i64::MAX
                } else {
                    ext_duration.saturating_add(rc.range_i64(0, 1000))
                }
            }
        };
        let merge_window = *rc.weighted(&[(2, 1i64), (2, 5), (3, 60), (2, 3600), (1, 86_400), (1, i64::MAX)]);
        let vol_profile = *rc.weighted(&[(4, 0u8), (3, 1), (2, 2), (2, 3), (3, 4)]);
        let threshold: u128 = match vol_profile {
            0 => rc.range(1, 12) as u128,
            3 => *rc.pick(&[u128::MAX, u128::MAX / 2, 1u128 << 100, 1]),
            _ => match rc.below(6) {
                0 => 1,
                1 => rc.range(2, 100) as u128,
                2 => rc.log_u128(u128::MAX >> 1),
                3 => 1_000u128 * 100_000_000_000_000_000_000u128,
                4 => u128::MAX,
                _ => rc.range(1, 10_000) as u128,
            },
        };
        let only_increase = rc.chance(2, 5);
        let clock_mode = *rc.weighted(&[(2, 0u8), (4, 1), (3, 2), (2, 3)]);
        let cfg = Cfg {
            t0,
            n_traders,
            start_delay,
            duration,
            threshold,
            ext_duration,
            ext_cap,
            only_increase,
            merge_window,
            faults,
            profile: format!("vol={vol_profile},clock={clock_mode}"),
            c19_twins: false,
        };

        // ---- plan
        let mut rp = Rng::derive(seed, run, "plan");
        let max_long = match tier {
            Tier::Quick => 400,
            Tier::Thorough => 2500,
        };
        let len = match rp.below(20) {
            0..=11 => rp.usize(5, 60),
            12..=16 => rp.usize(60, 150),
            17 | 18 => rp.usize(150, max_long / 2),
            _ => rp.usize(max_long / 2, max_long),
        };
        // op mix (swarm): some weights are zeroed per run
        let mut w_trade = 20u32;
        let mut w_clock = rp.range(0, 6) as u32;
        let mut w_create = rp.range(0, 3) as u32;
        let mut w_close = if rp.chance(1, 2) { rp.range(1, 3) as u32 } else { 0 };
        let w_other = if rp.chance(1, 3) { 1 } else { 0 };
        let w_dup = if faults && rp.chance(2, 3) { rp.range(1, 4) as u32 } else { 0 };
        if rp.chance(1, 10) {
            w_clock = 0;
            w_create = 0;
            w_close = 0;
        }
        if rp.chance(1, 20) {
            w_trade = 4;
        }
        let p_byz = if faults && rp.chance(2, 3) { rp.range(1, 15) } else { 0 }; // percent of trades
        let p_legit_twist = rp.range(0, 10); // percent
        let p_extreme = if faults && rp.chance(1, 6) { 3 } else { 0 }; // percent of clock steps
        let p_fail_cpi = if faults && rp.chance(1, 2) { 25 } else { 0 };
        let p_lazy = *rp.pick(&[100u64, 100, 95, 80, 50]);
        // active traders: sometimes fewer than configured at first, so that latecomers meet a full board
        let mut active = if rp.chance(1, 2) { n_traders } else { rp.usize(1, n_traders) };

        let mut steps: Vec<Step> = Vec::with_capacity(len + 4);
        // prelude
        if rp.chance(1, 3) {
            for t in 0..rp.usize(0, n_traders) {
                steps.push(Step::Create { trader: t as u8, fail_cpi: false });
            }
        }
        if rp.chance(5, 6) {
            steps.push(Step::Clock(ClockStep::ToStart(pick_i64(&mut rp, &[-1, 0, 0, 0, 1, 5]))));
        }
        let unit = match clock_mode {
            0 => 0i64,
            1 => 1,
            2 => merge_window.min(duration / 32).max(1),
            _ => (duration / 64).max(1),
        };
        // a step of about one merge window ends a short competition: draw it rarely unless it fits many times
        let p_window_step = if merge_window < duration / 16 { 10 } else { 1 }; // percent of trades
        while steps.len() < len {
            if active < n_traders && rp.chance(1, 12) {
                active += 1;
            }
            let total = w_trade + w_clock + w_create + w_close + w_other + w_dup;
            let mut x = rp.below(total as u64) as u32;
            if x < w_trade {
                let trader = rp.below(active as u64) as u8;
                let (before, after) = draw_volume_pair(&mut rp, vol_profile, threshold);
                let dt = match clock_mode {
                    0 => 0,
                    _ if rp.below(100) < p_window_step => merge_window.min(1 << 40).saturating_add(rp.range_i64(-1, 1)).max(0),
                    _ => match rp.below(10) {
                        0..=5 => 0,
                        6 | 7 => rp.range_i64(0, unit.max(1)),
                        8 => unit,
                        _ => rp.range_i64(0, 2),
                    },
                };
                let twist = if p_byz > 0 && rp.below(100) < p_byz {
                    match rp.below(9) {
                        0 => Twist::WrongUser(rp.below(n_traders as u64) as u8),
                        1 => Twist::WrongEventOwner,
                        2 => Twist::BadKind(*rp.pick(&[0u8, 1, 2, 4, 6, 7, 255])),
                        3 => Twist::BadVersion(*rp.pick(&[1u8, 2, 255])),
                        4 => Twist::FewExtra(rp.below(2) as u8),
                        5 => Twist::AuthorityNotSigner,
                        6 => Twist::StrangerAuthority,
                        7 => Twist::WrongParticipant(rp.below(n_traders as u64) as u8),
                        _ => Twist::BadBump,
                    }
                } else if rp.below(100) < p_legit_twist {
                    if rp.bool() {
                        Twist::NotSuccess
                    } else {
                        Twist::NoEvent
                    }
                } else {
                    Twist::None
                };
                steps.push(Step::Trade(TradeStep {
                    trader,
                    before,
                    after,
                    dt,
                    create_first: rp.below(100) < p_lazy,
                    twist,
                }));
                continue;
            }
            x -= w_trade;
            if x < w_clock {
                let c = if p_extreme > 0 && rp.below(100) < p_extreme {
                    ClockStep::Rel(*rp.pick(&[i64::MAX / 2, i64::MAX, 1i64 << 50]))
                } else {
                    let late_in_plan = steps.len() * 3 > len * 2;
                    match rp.below(10) {
                        0..=2 if late_in_plan || rp.chance(1, 8) => ClockStep::ToEnd(pick_i64(&mut rp, &[-2, -1, 0, 0, 1, 2])),
                        0..=2 => ClockStep::ToEnd(pick_i64(&mut rp, &[-3, -2, -1, -1, 0, 0])),
                        3 => ClockStep::ToStart(pick_i64(&mut rp, &[-1, 0, 1])),
                        4 => ClockStep::ToEnd(-rp.range_i64(0, ext_cap.min(1 << 40))),
                        5 => ClockStep::ToEnd(-rp.range_i64(0, ext_duration.min(1 << 40))),
                        6 if merge_window < duration / 4 || rp.chance(1, 6) => {
                            ClockStep::Rel(merge_window.min(1 << 40).saturating_add(rp.range_i64(-1, 1)).max(0))
                        }
                        _ => ClockStep::Rel(rp.range_i64(0, unit.saturating_mul(4).max(2))),
                    }
                };
                steps.push(Step::Clock(c));
                continue;
            }
            x -= w_clock;
            if x < w_create {
                steps.push(Step::Create {
                    trader: rp.below(n_traders as u64) as u8,
                    fail_cpi: p_fail_cpi > 0 && rp.below(100) < p_fail_cpi,
                });
                continue;
            }
            x -= w_create;
            if x < w_close {
                steps.push(Step::Close { trader: rp.below(n_traders as u64) as u8 });
                continue;
            }
            x -= w_close;
            if x < w_other {
                steps.push(Step::Other {
                    trader: rp.below(n_traders as u64) as u8,
                    which: rp.below(3) as u8,
                });
                continue;
            }
            steps.push(Step::Dup { back: rp.below(4) as u8 });
        }
        (cfg, steps)
    }
}

// ------------------------------------------------------------------------------------------------- execution

pub struct Sim<'a> {
    pub w: World,
    pub m: Model,
    pub payer: Pubkey,
    pub event_key: Pubkey,
    pub parts_pda: Vec<Option<(Pubkey, u8)>>,
    pub obs: &'a mut Obs,
    pub recent: Vec<TradeStep>,
    pub twins: bool,
}

fn phase(m: &Model, now: i64) -> u64 {
    if now < m.start {
        0
    } else if now == m.start {
        1
    } else if now < m.end {
        2
    } else if now == m.end {
        3
    } else {
        4
    }
}

impl<'a> Sim<'a> {
    pub fn part_pda(&mut self, tr: usize) -> (Pubkey, u8) {
        if let Some(x) = self.parts_pda[tr] {
            return x;
        }
        let x = participant_pda(&self.m.competition, &self.m.traders[tr]);
        self.parts_pda[tr] = Some(x);
        x
    }

    fn tx(&mut self, ix: Instruction, opts: TxOpts) -> TxOutcome {
        let opts = TxOpts {
            payer: Some(opts.payer.unwrap_or(self.payer)),
            ..opts
        };
        self.w.process_tx(&[ix], &opts)
    }

    /// Invariants after every step: the end-time clause w.r.t. the end before the step and the board clauses.
    /// Returns false when the run must stop.
    fn after_step(&mut self, end_before: i64, counted: bool, ext_expected: bool) -> bool {
        let now = self.w.clock.unix_timestamp;
        let comp = match read_competition(&self.w, &self.m.competition) {
            Some(c) => c,
            None => panic!("competition account unreadable"),
        };
        let ok_end = check_end(self.obs, &self.m, now, end_before, comp.end_time, !ext_expected);
        if comp.end_time != end_before {
            self.obs.probe("end_moved");
            if !counted {
                self.obs.probe("anomaly_end_moved_without_counted_trade");
            }
        }
        self.m.end = comp.end_time;
        let ok_board = check_board(self.obs, &self.m, &comp);
        let board_fp: Vec<u64> = comp
            .leaderboard
            .iter()
            .map(|e| mix(&[hash_bytes(e.address.as_ref()), e.volume as u64, (e.volume >> 64) as u64]))
            .collect();
        self.obs.event_hash(&[mix(&board_fp), comp.end_time as u64, now as u64]);
        (ok_end && ok_board) || !self.obs.should_stop()
    }

    fn create(&mut self, tr: usize, fail_cpi: bool) {
        let (pda, _) = self.part_pda(tr);
        let trader = self.m.traders[tr];
        let existed = self.m.parts.contains_key(&tr);
        let ix = create_participant_ix(&self.payer, &self.m.competition, &pda, &trader);
        let opts = TxOpts {
            fail_cpi_at: fail_cpi.then_some(1),
            payer: None,
        };
        let before = self.w.get(&pda).cloned();
        let out = self.tx(ix, opts);
        self.obs.outcome("payer", if existed { "create_again" } else { "create" }, &out.class());
        if fail_cpi && !out.ok && !existed {
            self.obs.fault("cpi_failure");
        }
        if out.ok {
            if existed {
                if self.w.get(&pda).cloned() != before {
                    self.obs.probe("anomaly_idempotent_create_changed_account");
                }
            } else {
                let now = self.w.clock.unix_timestamp;
                if self.m.shown.contains_key(&tr) {
                    self.m.reopened = true;
                    self.obs.probe("participant_reopened");
                }
                self.m.parts.insert(
                    tr,
                    MPart {
                        volume: 0,
                        last_updated_at: now,
                        merged: 0,
                        counted: 0,
                    },
                );
            }
        }
    }

    /// C19 byzantine twin: run `ix` on a fork of `pre` (the state before a landed privileged instruction). It must
    /// fail; where the program documents that it ignores the call (`may_ignore`: outside the competition window) it
    /// may succeed provided the watched accounts keep their exact bytes.
    #[allow(clippy::too_many_arguments)]
    fn twin(&mut self, pre: &World, ix_name: &str, variant: &str, ix: Instruction, payer: Pubkey, watch: &[Pubkey], may_ignore: bool) {
        let mut f = pre.clone();
        let out = f.process_tx(&[ix], &TxOpts { fail_cpi_at: None, payer: Some(payer) });
        self.obs.fault("byzantine_twin");
        self.obs.probe(&format!("c19_twin:competition.{ix_name}"));
        self.obs.outcome("stranger", &format!("twin_{ix_name}_{variant}"), &out.class());
        self.obs.checked("stranger_accepted");
        if out.ok {
            let unchanged = watch.iter().all(|k| f.get(k) == pre.get(k));
            if may_ignore && unchanged {
                self.obs.probe("c19_twin_ignored_outside_window");
            } else {
                self.obs.violation(
                    "C19",
                    "stranger_accepted",
                    format!("ix={ix_name},variant={variant},program=competition"),
                    format!(
                        "{ix_name} landed for a caller without the required authority ({variant}); watched accounts unchanged={unchanged}, call documented as ignorable here (outside the window)={}",
                        may_ignore
                    ),
                );
            }
        } else {
            // a rejection leaves all accounts unchanged (runtime atomicity; checked on the watched accounts)
            if !watch.iter().all(|k| f.get(k) == pre.get(k)) {
                self.obs.violation(
                    "C19",
                    "rejection_changed_state",
                    format!("ix={ix_name},variant={variant},program=competition"),
                    "a rejected twin changed an account".into(),
                );
            }
        }
    }

    /// Twins (a) authority not a signer and (b) a stranger signing in place of the callback authority, for a landed
    /// callback instruction whose first account is the authority.
    fn callback_twins(&mut self, pre: &World, ix_name: &str, landed: &Instruction, participant: Pubkey) {
        let now = self.w.clock.unix_timestamp;
        let may_ignore = !self.m.ongoing(now);
        let watch = [self.m.competition, participant];
        let mut a = landed.clone();
        a.accounts[0].is_signer = false;
        self.twin(pre, ix_name, "authority_not_signer", a, self.payer, &watch, may_ignore);
        let mut b = landed.clone();
        b.accounts[0].pubkey = fixed_key("stranger", 0);
        b.accounts[0].is_signer = true;
        self.twin(pre, ix_name, "stranger_signs_as_authority", b, self.payer, &watch, may_ignore);
    }

    fn close(&mut self, tr: usize) {
        let (pda, _) = self.part_pda(tr);
        let trader = self.m.traders[tr];
        let ix = close_participant_ix(&self.m.competition, &pda, &trader);
        let pre = self.twins.then(|| self.w.clone());
        let out = self.tx(ix.clone(), TxOpts { fail_cpi_at: None, payer: Some(trader) });
        self.obs.outcome("trader", "close", &out.class());
        if let (true, Some(pre)) = (out.ok, pre.as_ref()) {
            // (c) another trader signs: the owner is not a signer / the other trader is substituted as owner
            let n = self.m.traders.len();
            let other = self.m.traders[(tr + 1) % n];
            if other != trader {
                let watch = [self.m.competition, pda];
                let mut c1 = ix.clone();
                c1.accounts[0].is_signer = false;
                self.twin(pre, "close_participant", "other_trader_signs_owner_unsigned", c1, other, &watch, false);
                let c2 = close_participant_ix(&self.m.competition, &pda, &other);
                self.twin(pre, "close_participant", "other_trader_substituted_as_owner", c2, other, &watch, false);
            }
        }
        if out.ok {
            let now = self.w.clock.unix_timestamp;
            if self.m.ongoing(now) {
                self.obs.probe("anomaly_closed_while_ongoing");
            }
            if self.m.parts.remove(&tr).is_none() {
                panic!("closed a participant the model does not know");
            }
            self.obs.probe("participant_closed");
        }
    }

    fn other(&mut self, tr: usize, which: u8) {
        let (pda, _) = self.part_pda(tr);
        let trader = self.m.traders[tr];
        let wc = match which % 3 {
            0 => OtherCallback::Created,
            1 => OtherCallback::Updated,
            _ => OtherCallback::Closed,
        };
        let action = fixed_key("action", tr as u64);
        let ix = other_callback_ix(wc, &self.m.competition, &pda, &trader, &action, &gmsol_competition::ID);
        let pre = self.twins.then(|| self.w.clone());
        let out = self.tx(ix.clone(), TxOpts::default());
        let op = match wc {
            OtherCallback::Created => "on_created",
            OtherCallback::Updated => "on_updated",
            OtherCallback::Closed => "on_closed",
        };
        self.obs.outcome("store", op, &out.class());
        if let (true, Some(pre)) = (out.ok, pre.as_ref()) {
            self.callback_twins(pre, op, &ix, pda);
        }
    }

    /// Deliver one `on_executed`. Returns (counted, extension expected).
    fn trade(&mut self, t: &TradeStep, dup: bool) -> (bool, bool) {
        let n = self.m.traders.len();
        let tr = t.trader as usize % n;
        let trader = self.m.traders[tr];
        if t.create_first && !dup && !self.m.parts.contains_key(&tr) {
            self.create(tr, false);
            self.obs.probe("lazy_create");
        }
        let now = self.w.clock.unix_timestamp;
        let (authority, bump) = callback_authority();
        let (pda, _) = self.part_pda(tr);
        let mut call = ExecutedCall {
            authority,
            authority_bump: bump,
            authority_is_signer: true,
            competition: self.m.competition,
            participant: pda,
            trader,
            action: fixed_key("action", tr as u64),
            position: fixed_key("position", tr as u64),
            trade_event: Some(self.event_key),
            action_kind: ACTION_KIND_ORDER,
            callback_version: 0,
            success: true,
            extra_account_count: 2,
        };
        let mut event_user = trader;
        let mut event_owner = gmsol_store::ID;
        let mut twist = t.twist.clone();
        match &twist {
            Twist::None => {}
            Twist::NotSuccess => call.success = false,
            Twist::NoEvent => call.trade_event = None,
            Twist::WrongUser(o) => {
                let o = *o as usize % n;
                if o == tr {
                    twist = Twist::None;
                } else {
                    event_user = self.m.traders[o];
                }
            }
            Twist::WrongEventOwner => event_owner = solana_program::system_program::ID,
            Twist::BadKind(k) => {
                if *k == ACTION_KIND_ORDER {
                    twist = Twist::None;
                } else {
                    call.action_kind = *k;
                }
            }
            Twist::BadVersion(v) => {
                if *v == 0 {
                    twist = Twist::None;
                } else {
                    call.callback_version = *v;
                }
            }
            Twist::FewExtra(c) => {
                if *c >= 2 {
                    twist = Twist::None;
                } else {
                    call.extra_account_count = *c;
                }
            }
            Twist::AuthorityNotSigner => call.authority_is_signer = false,
            Twist::StrangerAuthority => call.authority = fixed_key("stranger", 0),
            Twist::WrongParticipant(o) => {
                let o = *o as usize % n;
                if o == tr {
                    twist = Twist::None;
                } else {
                    call.participant = self.part_pda(o).0;
                }
            }
            Twist::BadBump => call.authority_bump = bump.wrapping_sub(1),
        }
        if call.trade_event.is_some() {
            // the event is a pure function of the step (so that a duplicate delivers identical bytes)
            let data = trade_event_bytes(&event_user, t.before, t.after, 0, 0, 1);
            put_trade_event(&mut self.w, &self.event_key, &event_owner, data);
        }
        let ix = on_executed_ix(&call);
        let pre = self.twins.then(|| self.w.clone());
        let out = self.tx(ix.clone(), TxOpts::default());
        let op = if dup { "dup" } else { twist.tag() };
        self.obs.outcome("store", op, &out.class());
        if let (true, Some(pre), false) = (out.ok, pre.as_ref(), twist.byzantine()) {
            self.callback_twins(pre, "on_executed", &ix, call.participant);
            if self.obs.should_stop() {
                return (false, false);
            }
        }
        if dup && out.ok {
            self.obs.fault("duplicate_delivery");
        }
        if twist.byzantine() {
            if out.ok {
                if !self.m.ongoing(now) {
                    // outside the window the program returns before it looks at the event: nothing is credited
                    // (the invariants after the step check that nothing changed)
                    self.obs.probe("byz_ignored_outside_window");
                    return (false, false);
                }
                // Not a C39 clause; the model cannot tell whom the program credited, so the run ends here.
                self.obs.probe("anomaly_byzantine_accepted");
                self.obs.probe(&format!("anomaly_byzantine_accepted_{}", twist.tag()));
                return (false, false);
            }
            self.obs.fault(twist.tag());
            return (false, false);
        }
        let volume = trade_volume(self.m.only_increase, t.before, t.after);
        let would_count = call.success && self.m.ongoing(now) && call.trade_event.is_some() && volume != 0;
        let live = self.m.parts.contains_key(&tr);
        if !out.ok {
            if would_count && !live {
                self.obs.probe("rejected_missing_participant");
            } else {
                self.obs.probe("anomaly_unexpected_reject");
                self.obs.event(|| format!("unexpected reject: {} {:?}", out.class(), out.error));
            }
            return (false, false);
        }
        if !would_count {
            if !call.success {
                self.obs.probe("ignored_failed_order");
            } else if !self.m.ongoing(now) {
                self.obs.probe(if now < self.m.start { "ignored_before_start" } else { "ignored_after_end" });
            } else if call.trade_event.is_none() {
                self.obs.probe("ignored_no_event");
            } else {
                self.obs.probe("ignored_zero_volume");
            }
            return (false, false);
        }
        if !live {
            panic!("a counted trade landed without a participant account");
        }
        // counted
        let info = self.m.apply_counted(tr, volume, now);
        self.obs.probe("counted_trade");
        if now == self.m.start {
            self.obs.probe("counted_at_start");
        }
        if now == self.m.end {
            self.obs.probe("counted_at_end");
        }
        if info.saturated {
            self.obs.probe("volume_saturated");
        }
        if info.extension_expected {
            self.obs.probe(if info.merged_path { "extension_by_merged_volume" } else { "extension_by_single_trade" });
        }
        // diagnostics (not violations): the exact documented formula and the participant record
        if let Some(c) = read_competition(&self.w, &self.m.competition) {
            if c.end_time != info.end_expected {
                self.obs.probe("anomaly_end_differs_from_formula");
            }
            if info.extension_expected {
                let uncapped = (self.m.end as i128 + self.m.ext_duration as i128).min(i64::MAX as i128) as i64;
                if c.end_time == self.m.end {
                    self.obs.probe("extension_zero");
                } else if c.end_time < uncapped {
                    self.obs.probe("extension_capped");
                } else {
                    self.obs.probe("extension_full");
                }
            }
            // board movement classes
            let pos = c.leaderboard.iter().position(|e| e.address == trader);
            let ties = c.leaderboard.windows(2).filter(|w| w[0].volume == w[1].volume).count();
            if ties > 0 {
                self.obs.probe("board_has_ties");
            }
            if c.leaderboard.len() >= BOARD {
                self.obs.probe("board_full");
                if pos.is_none() {
                    self.obs.probe("counted_but_off_full_board");
                }
            }
            self.obs.fingerprint(&[
                0xb0a2d,
                c.leaderboard.len() as u64,
                pos.map(|p| p as u64 + 1).unwrap_or(0),
                ties as u64,
                info.extension_expected as u64,
                info.merged_path as u64,
                phase(&self.m, now),
            ]);
        }
        if let Some(p) = read_participant(&self.w, &pda) {
            let mp = &self.m.parts[&tr];
            if p.volume != mp.volume || p.merged_volume != mp.merged || p.last_updated_at != mp.last_updated_at {
                self.obs.probe("anomaly_participant_differs_from_model");
            }
        }
        (true, info.extension_expected)
    }

    pub fn clock(&mut self, c: &ClockStep) {
        let now = self.w.clock.unix_timestamp;
        let target: i64 = match c {
            // the cluster clock is monotone (Solana clamps `unix_timestamp` to be non-decreasing)
            ClockStep::Rel(d) => now.saturating_add((*d).max(0)),
            ClockStep::ToStart(o) => self.m.start.saturating_add(*o).max(now),
            ClockStep::ToEnd(o) => self.m.end.saturating_add(*o).max(now),
        };
        let d = target as i128 - now as i128;
        assert!(d >= 0, "clock must be monotone");
        if d > (1i128 << 45) {
            self.obs.fault("clock_extreme_jump");
        } else {
            self.obs.sim_seconds = self.obs.sim_seconds.saturating_add(d as u64);
        }
        if d == 0 {
            self.obs.probe("clock_stall");
        }
        self.w.clock.unix_timestamp = target;
        self.w.clock.slot = self.w.clock.slot.saturating_add(1);
        if now < self.m.start && target >= self.m.start {
            self.obs.probe("crossed_start");
        }
        if now <= self.m.end && target > self.m.end {
            self.obs.probe("crossed_end");
        }
    }
}

/// Rare branches the scenario is expected to reach (registered at zero so that a stuck one shows up in the evidence).
pub const REACH_PROBES: &[&str] = &[
    "counted_trade",
    "counted_at_start",
    "counted_at_end",
    "board_full",
    "board_has_ties",
    "counted_but_off_full_board",
    "volume_saturated",
    "extension_by_single_trade",
    "extension_by_merged_volume",
    "extension_full",
    "extension_capped",
    "extension_zero",
    "multiple_extensions_in_run",
    "crossed_start",
    "crossed_end",
    "ignored_before_start",
    "ignored_after_end",
    "ignored_failed_order",
    "ignored_no_event",
    "ignored_zero_volume",
    "rejected_missing_participant",
    "participant_closed",
    "participant_reopened",
    "lazy_create",
];

pub fn init_params(cfg: &Cfg) -> InitParams {
    let start = cfg.t0.saturating_add(cfg.start_delay);
    InitParams {
        start_time: start,
        end_time: start.saturating_add(cfg.duration),
        volume_threshold: cfg.threshold,
        extension_duration: cfg.ext_duration,
        extension_cap: cfg.ext_cap,
        only_count_increase: cfg.only_increase,
        volume_merge_window: cfg.merge_window,
    }
}

/// Deploy the competition in `w` and return the model, or `None` if the program rejected the parameters.
pub fn deploy_competition(w: &mut World, payer: &Pubkey, cfg: &Cfg, obs: &mut Obs) -> Option<Model> {
    let p = init_params(cfg);
    let (competition, _) = competition_pda(payer, p.start_time);
    let out = w.process_tx(&[initialize_ix(payer, &competition, &p)], &TxOpts::default());
    obs.outcome("keeper", "initialize_competition", &out.class());
    if !out.ok {
        return None;
    }
    let n = cfg.n_traders.clamp(1, 64);
    Some(Model {
        competition,
        start: p.start_time,
        end: p.end_time,
        threshold: p.volume_threshold,
        ext_duration: p.extension_duration,
        ext_cap: p.extension_cap,
        only_increase: p.only_count_increase,
        merge_window: p.volume_merge_window,
        traders: (0..n).map(trader_key).collect(),
        parts: Default::default(),
        shown: Default::default(),
        faults: cfg.faults,
        reopened: false,
        extensions: 0,
    })
}

impl Scenario for CompetitionSim {
    type Cfg = Cfg;
    type Step = Step;

    fn name(&self) -> &'static str {
        "competition_forged_callbacks"
    }

    fn generate(&self, seed: u64, run: u64, tier: Tier, focus: &str) -> (Cfg, Vec<Step>) {
        let (mut cfg, steps) = self.gen(seed, run, tier);
        // C19 twins: always when C19 is the focus, in 1/16 of the runs otherwise
        cfg.c19_twins = focus == "C19" || run % 16 == 5;
        (cfg, steps)
    }

    fn execute(&self, cfg: &Cfg, steps: &[Step], obs: &mut Obs) {
        layout_sanity();
        let mut w = mini_world(cfg.t0);
        let payer = fixed_key("payer", 0);
        w.fund(&payer, 1_000_000_000_000);
        let m = match deploy_competition(&mut w, &payer, cfg, obs) {
            Some(m) => m,
            None => return,
        };
        for t in &m.traders {
            w.fund(t, 10_000_000_000);
        }
        let n = m.traders.len();
        let mut s = Sim {
            w,
            m,
            payer,
            event_key: fixed_key("trade-event", 0),
            parts_pda: vec![None; n],
            obs,
            recent: Vec::new(),
            twins: cfg.c19_twins,
        };
        for p in REACH_PROBES {
            s.obs.probe_n(p, 0);
        }
        // initial state
        if !s.after_step(s.m.end, false, false) {
            return;
        }
        for (i, st) in steps.iter().enumerate() {
            s.obs.set_step(i);
            let end_before = s.m.end;
            let mut counted = false;
            let mut ext = false;
            match st {
                Step::Trade(t) => {
                    if t.dt != 0 {
                        s.clock(&ClockStep::Rel(t.dt));
                    }
                    let r = s.trade(t, false);
                    counted = r.0;
                    ext = r.1;
                    s.recent.push(t.clone());
                    if s.recent.len() > 8 {
                        s.recent.remove(0);
                    }
                }
                Step::Clock(c) => s.clock(c),
                Step::Create { trader, fail_cpi } => s.create(*trader as usize % n, *fail_cpi),
                Step::Close { trader } => s.close(*trader as usize % n),
                Step::Dup { back } => {
                    if s.recent.is_empty() {
                        s.obs.probe("noop_step");
                    } else {
                        let k = s.recent.len() - 1 - (*back as usize % s.recent.len());
                        let t = s.recent[k].clone();
                        let r = s.trade(&t, true);
                        counted = r.0;
                        ext = r.1;
                    }
                }
                Step::Other { trader, which } => s.other(*trader as usize % n, *which),
            }
            let (now_, end_) = (s.w.clock.unix_timestamp, s.m.end);
            s.obs.event(|| format!("{st:?} now={now_} end_before={end_} counted={counted}"));
            if s.obs.probes.contains_key("anomaly_byzantine_accepted") {
                return;
            }
            if !s.after_step(end_before, counted, ext) {
                return;
            }
        }
        if s.m.extensions > 1 {
            s.obs.probe("multiple_extensions_in_run");
        }
    }

    fn simplify_step(&self, step: &Step) -> Vec<Step> {
        let mut v = vec![];
        match step {
            Step::Trade(t) => {
                if t.twist != Twist::None {
                    v.push(Step::Trade(TradeStep { twist: Twist::None, ..t.clone() }));
                }
                if t.dt != 0 {
                    v.push(Step::Trade(TradeStep { dt: 0, ..t.clone() }));
                    v.push(Step::Trade(TradeStep { dt: t.dt / 2, ..t.clone() }));
                }
                if t.before != 0 && t.after >= t.before {
                    v.push(Step::Trade(TradeStep { before: 0, after: t.after - t.before, ..t.clone() }));
                }
                if t.after > 1 && t.before == 0 {
                    v.push(Step::Trade(TradeStep { after: 1, ..t.clone() }));
                    v.push(Step::Trade(TradeStep { after: t.after / 2, ..t.clone() }));
                    v.push(Step::Trade(TradeStep { after: t.after - 1, ..t.clone() }));
                }
                if !t.create_first {
                    v.push(Step::Trade(TradeStep { create_first: true, ..t.clone() }));
                }
            }
            Step::Clock(ClockStep::Rel(d)) if *d != 0 => {
                v.push(Step::Clock(ClockStep::Rel(0)));
                v.push(Step::Clock(ClockStep::Rel(d / 2)));
            }
            Step::Clock(ClockStep::ToEnd(o)) if *o != 0 => {
                v.push(Step::Clock(ClockStep::ToEnd(0)));
                v.push(Step::Clock(ClockStep::ToEnd(o / 2)));
            }
            Step::Clock(ClockStep::ToStart(o)) if *o != 0 => v.push(Step::Clock(ClockStep::ToStart(0))),
            Step::Create { trader, fail_cpi: true } => v.push(Step::Create { trader: *trader, fail_cpi: false }),
            Step::Dup { back } if *back != 0 => v.push(Step::Dup { back: 0 }),
            _ => {}
        }
        v
    }

    fn simplify_cfg(&self, cfg: &Cfg) -> Vec<Cfg> {
        let mut v = vec![];
        if cfg.t0 != 1_700_000_000 {
            v.push(Cfg { t0: 1_700_000_000, ..cfg.clone() });
        }
        if cfg.threshold != 1 {
            v.push(Cfg { threshold: 1, ..cfg.clone() });
        }
        if cfg.merge_window != 1 {
            v.push(Cfg { merge_window: 1, ..cfg.clone() });
        }
        if cfg.only_increase {
            v.push(Cfg { only_increase: false, ..cfg.clone() });
        }
        if cfg.start_delay != 1 {
            v.push(Cfg { start_delay: 1, ..cfg.clone() });
        }
        v
    }

    fn components(&self) -> Components {
        Components {
            real: vec![
                "gmsol_competition program entrypoint (initialize_competition, create_participant_idempotent, on_created, on_updated, on_executed, on_closed, close_participant)".into(),
                "gmsol_store::events::TradeData layout (the store's own zero-copy struct) and gmsol_programs IDL struct the competition reads".into(),
                "Anchor account validation / (de)serialisation".into(),
            ],
            stub: vec![
                "chainsim runtime (accounts db, loader, CPI, sysvars, system program)".into(),
                "option A 'forged callback signer': on_* callbacks are delivered as top-level instructions with the store's callback-authority PDA flagged as signer instead of a CPI from gmsol_store".into(),
                "forged trade-event account: written directly into the accounts db with owner = store program id, real discriminator + bytemuck image of gmsol_store::events::TradeData (only user / before.size_in_usd / after.size_in_usd / ids set)".into(),
            ],
        }
    }

    fn rule(&self) -> String {
        "Per run: swarm-drawn competition parameters (t0, start delay, duration 1s..i64::MAX/4, threshold 1..u128::MAX, extension duration/cap incl. i64::MAX, only_count_increase, merge window 1s..i64::MAX), 2-12 traders, one of 5 volume profiles (tiny integers with many ties / around the threshold / log-uniform / saturating / mixed) and 4 clock modes (stall / 1s / merge-window sized / duration sized). Plan = 5-60 steps mostly, tail to 400 (quick) / 2500 (thorough): on_executed deliveries (position size before/after, dt, lazy participant creation, failed-order and no-event variants), clock moves (relative, to start+-k, to the current end+-k), create / close participant, on_created/on_updated/on_closed. Odd runs are the fault sub-batch: duplicate delivery of an earlier callback, byzantine twins (wrong event user, event not owned by the store, wrong action kind / version / extra count, unsigned or stranger authority, other trader's participant, wrong bump), extreme forward clock jumps (2^50 s .. i64::MAX), injected CPI failure in participant creation. The clock is monotone as on Solana (stalls, coarse steps, jumps; never backwards). A run is distinct by its parameter set + plan; non-trivial when at least one trade is counted (probe counted_trade).".into()
    }
}
