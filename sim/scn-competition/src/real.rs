//! C39 secondary scenario (option B, small): real orders through the real store with the competition program as
//! the order callback, and a *forged twin* world that receives the same callbacks through `forge.rs`.
//!
//! Purpose: (1) the C39 oracles also hold on the real path; (2) validate the forged inputs of the main scenario: the
//! CPI instruction `gmsol_store` really sends equals the instruction `forge::on_executed_ix` builds, and delivering the
//! forged instruction with the real trade-event bytes to a twin competition produces byte-identical competition and
//! participant accounts. A disagreement there is a harness defect (panic = exit 2), not a property violation.

use std::sync::OnceLock;

use serde::{Deserialize, Serialize};
use simcore::{Components, Obs, Rng, Scenario, Tier};
use solana_program::instruction::{AccountMeta, Instruction};
use solana_program::pubkey::Pubkey;
use solana_program::system_program;

use chainsim::deploy::{deploy_full, read_pod, store_ix, Dep, DeployOpts};
use chainsim::ex::{self, OrderArgs, OrderKind};
use chainsim::rt::{TxOpts, TxOutcome, World};
use chainsim::smoke::price_report;

use crate::forge::*;
use crate::model::*;
use crate::sim::{deploy_competition, Cfg};

pub struct CompetitionReal;

#[derive(Clone, Debug, PartialEq, Eq, Serialize, Deserialize)]
pub enum RStep {
    /// A market order of user `user` on the long side of market 0 with callback = competition.
    Order {
        user: u8,
        increase: bool,
        /// Size delta in whole USD.
        size_usd: u32,
        /// Seconds before the order is created.
        dt: i64,
        /// Seconds between creation and execution (in-flight clock fault: may carry the execution past the end).
        exec_delay: i64,
        /// Jump past the current end time between creation and execution.
        late: bool,
    },
    Clock(i64),
    Close { user: u8 },
}

const USD: u128 = 100_000_000_000_000_000_000; // 10^20

struct Base {
    w: World,
    d: Dep,
}

fn post_prices(w: &mut World, d: &Dep) {
    let e18 = 10i128.pow(18);
    let now = w.clock.unix_timestamp;
    for (i, p) in [(0usize, 150 * e18), (1, e18)] {
        let r = price_report(d, i, now, p, 0);
        let out = w.process(ex::update_feed_ix(d, i, &r, true));
        assert!(out.ok, "price update failed: {}", out.class());
    }
}

fn base() -> &'static Base {
    static B: OnceLock<Base> = OnceLock::new();
    B.get_or_init(|| {
        let mut w = World::new(1_700_000_000, 1000);
        let opts = DeployOpts::default();
        let d = deploy_full(&mut w, &opts);
        post_prices(&mut w, &d);
        // liquidity
        let mut nonce = [0u8; 32];
        nonce[0] = 1;
        let (ixs, dep) = ex::create_deposit_tx(
            &d,
            &ex::DepositArgs {
                owner: d.users[2],
                market: 0,
                nonce,
                long_amount: 500_000_000_000,
                short_amount: 75_000_000_000,
                min_market_token: 0,
                execution_lamports: 5_000_000,
                initial_long_token: None,
                initial_short_token: None,
                long_path: vec![],
                short_path: vec![],
            },
        );
        assert!(w.process_tx(&ixs, &TxOpts::default()).ok, "create deposit");
        let ix = ex::execute_deposit_ix(&w, &d, &dep, true, 5000).unwrap();
        let out = w.process(ix);
        assert!(out.ok, "execute deposit: {}", out.class());
        let ix = ex::close_deposit_ix(&w, &d, &dep, &d.users[2]).unwrap();
        assert!(w.process(ix).ok, "close deposit");
        // the store's callback authority
        let (authority, _) = callback_authority();
        let out = w.process(store_ix(
            gmsol_store::accounts::InitializeCallbackAuthority {
                payer: d.keeper,
                callback_authority: authority,
                system_program: system_program::ID,
            },
            gmsol_store::instruction::InitializeCallbackAuthority {},
        ));
        assert!(out.ok, "initialize_callback_authority: {}", out.class());
        Base { w, d }
    })
}

/// Fill the four optional callback accounts (encoded as the store program id when absent) that precede
/// `event_authority` in the store's order instructions.
fn patch_callback(ix: &mut Instruction, event_authority: &Pubkey, competition: &Pubkey, participant: &Pubkey) {
    let i = ix
        .accounts
        .iter()
        .position(|m| m.pubkey == *event_authority)
        .expect("event_authority in the instruction");
    assert!(i >= 4);
    for k in i - 4..i {
        assert_eq!(ix.accounts[k].pubkey, gmsol_store::ID, "callback slot {k} is not an absent optional account");
    }
    let (authority, _) = callback_authority();
    ix.accounts[i - 4] = AccountMeta::new_readonly(authority, false);
    ix.accounts[i - 3] = AccountMeta::new_readonly(gmsol_competition::ID, false);
    ix.accounts[i - 2] = AccountMeta::new(*competition, false);
    ix.accounts[i - 1] = AccountMeta::new(*participant, false);
}

/// `callback_version: None` (last borsh byte 0) -> `Some(0)`.
fn patch_callback_version(ix: &mut Instruction) {
    assert_eq!(ix.data.last(), Some(&0u8));
    ix.data.pop();
    ix.data.extend_from_slice(&[1, 0]);
}

impl CompetitionReal {
    fn gen(&self, seed: u64, run: u64, _tier: Tier) -> (Cfg, Vec<RStep>) {
        let mut rc = Rng::derive(seed, run, "cfg");
        let duration = *rc.pick(&[20i64, 60, 120, 600]);
        let ext_duration = *rc.pick(&[5i64, 30, 60, 600]);
        let ext_cap = ext_duration + *rc.pick(&[0i64, 1, 30, 600]);
        let threshold = match rc.below(4) {
            0 => 1,
            1 => rc.range(50, 500) as u128 * USD,
            2 => rc.range(500, 3000) as u128 * USD,
            _ => rc.range(1, 200) as u128 * USD + rc.range(0, 1000) as u128,
        };
        let cfg = Cfg {
            t0: 0, // set from the base world at execution
            n_traders: 3,
            start_delay: 1,
            duration,
            threshold,
            ext_duration,
            ext_cap,
            only_increase: rc.bool(),
            merge_window: *rc.pick(&[1i64, 5, 30, 3600]),
            faults: run % 2 == 1,
            profile: "real".into(),
            c19_twins: false,
        };
        let mut rp = Rng::derive(seed, run, "plan");
        let n = rp.usize(2, 9);
        let mut steps = Vec::new();
        let mut pos = [0u32; 3];
        for _ in 0..n {
            match rp.below(10) {
                0 => steps.push(RStep::Clock(rp.range_i64(0, duration / 2 + 5))),
                1 if cfg.faults => steps.push(RStep::Close { user: rp.below(3) as u8 }),
                _ => {
                    let user = rp.below(3) as u8;
                    let u = user as usize;
                    // mostly decrease only what was (probably) opened before, by at most its size
                    let increase = if pos[u] > 0 { rp.chance(1, 2) } else { rp.chance(19, 20) };
                    let size_usd = if increase {
                        *rp.pick(&[1u32, 10, 100, 100, 250, 500, 1000, 2000]) + rp.below(3) as u32
                    } else if pos[u] == 0 {
                        10
                    } else {
                        match rp.below(4) {
                            0 => pos[u],
                            1 => (pos[u] / 2).max(1),
                            2 => rp.range(1, pos[u] as u64) as u32,
                            _ => pos[u] + 1,
                        }
                    };
                    if increase {
                        pos[u] += size_usd;
                    } else {
                        pos[u] = pos[u].saturating_sub(size_usd);
                    }
                    steps.push(RStep::Order {
                        user,
                        increase,
                        size_usd,
                        dt: *rp.pick(&[0i64, 0, 1, 3, 10, duration / 3]),
                        exec_delay: *rp.pick(&[0i64, 0, 1, 5]),
                        late: cfg.faults && rp.chance(1, 8),
                    })
                }
            }
        }
        (cfg, steps)
    }
}

struct Real<'a> {
    w: World,
    d: &'static Dep,
    /// Forged twin: competition program only.
    w2: World,
    m: Model,
    payer: Pubkey,
    obs: &'a mut Obs,
    nonce: u64,
    parts: Vec<(Pubkey, u8)>,
    event_key2: Pubkey,
}

impl<'a> Real<'a> {
    fn advance(&mut self, dt: i64) {
        if dt == 0 {
            return;
        }
        self.w.advance(dt as u64, dt);
        self.w2.clock = self.w.clock.clone();
        self.obs.sim_seconds += dt as u64;
        post_prices(&mut self.w, self.d);
    }

    fn both(&mut self, ix: Instruction, payer: Pubkey) -> TxOutcome {
        let o = TxOpts { fail_cpi_at: None, payer: Some(payer) };
        let a = self.w.process_tx(&[ix.clone()], &o);
        let b = self.w2.process_tx(&[ix], &o);
        assert_eq!(a.ok, b.ok, "real and twin world disagree on a competition instruction: {} vs {}", a.class(), b.class());
        a
    }

    fn ensure_participant(&mut self, u: usize) {
        if self.m.parts.contains_key(&u) {
            return;
        }
        let ix = create_participant_ix(&self.payer, &self.m.competition, &self.parts[u].0, &self.m.traders[u]);
        let out = self.both(ix, self.payer);
        self.obs.outcome("payer", "create", &out.class());
        if out.ok {
            if self.m.shown.contains_key(&u) {
                self.m.reopened = true;
            }
            self.m.parts.insert(
                u,
                MPart {
                    volume: 0,
                    last_updated_at: self.w.clock.unix_timestamp,
                    merged: 0,
                    counted: 0,
                },
            );
        }
    }

    fn compare_worlds(&self, what: &str) {
        let keys: Vec<Pubkey> = std::iter::once(self.m.competition).chain(self.parts.iter().map(|p| p.0)).collect();
        for k in keys {
            let a = self.w.get(&k).map(|a| (&a.data, a.owner));
            let b = self.w2.get(&k).map(|a| (&a.data, a.owner));
            assert!(a == b, "forged twin diverged from the real path after {what} at account {k}");
        }
    }

    /// Returns false when the run must stop.
    fn check(&mut self, end_before: i64, ext: bool) -> bool {
        let now = self.w.clock.unix_timestamp;
        let comp = read_competition(&self.w, &self.m.competition).expect("competition");
        let a = check_end(self.obs, &self.m, now, end_before, comp.end_time, !ext);
        self.m.end = comp.end_time;
        let b = check_board(self.obs, &self.m, &comp);
        self.obs.event_hash(&[comp.end_time as u64, comp.leaderboard.len() as u64, comp.leaderboard.first().map(|e| e.volume as u64).unwrap_or(0)]);
        (a && b) || !self.obs.should_stop()
    }

    fn order(&mut self, u: usize, increase: bool, size_usd: u32, exec_delay: i64, late: bool) -> bool {
        let d = self.d;
        let owner = self.m.traders[u];
        self.ensure_participant(u);
        let (participant, _) = self.parts[u];
        let competition = self.m.competition;
        self.nonce += 1;
        let mut nonce = [0u8; 32];
        nonce[..8].copy_from_slice(&self.nonce.to_le_bytes());
        nonce[31] = 0xc3;
        let kind = if increase { OrderKind::MarketIncrease } else { OrderKind::MarketDecrease };
        let (mut ixs, order, position) = ex::create_order_tx(
            d,
            &OrderArgs {
                owner,
                market: 0,
                nonce,
                kind,
                is_long: true,
                is_collateral_long: true,
                collateral_delta: if increase { 2_000_000_000 } else { 0 },
                size_delta: size_usd as u128 * USD,
                execution_lamports: 5_000_000,
                min_output: None,
                trigger_price: None,
                acceptable_price: None,
                valid_from_ts: None,
                initial_collateral_token: None,
                final_output_token: None,
                swap_path: vec![],
                swap_type: None,
            },
        );
        let position = position.expect("position order");
        {
            let last = ixs.last_mut().unwrap();
            patch_callback(last, &d.event_authority, &competition, &participant);
            patch_callback_version(last);
        }
        let out = self.w.process_tx(&ixs, &TxOpts::default());
        self.obs.outcome("trader", if increase { "create_increase" } else { "create_decrease" }, &out.class());
        if !out.ok {
            // e.g. the competition is over (on_created rejects) or there is no position to decrease
            self.obs.probe("real_create_rejected");
            return true;
        }
        let created_cb = out.cpis.iter().filter(|c| c.ix.program_id == gmsol_competition::ID).count();
        assert_eq!(created_cb, 1, "expected exactly one on_created CPI");
        // in-flight clock movement
        if late {
            let now = self.w.clock.unix_timestamp;
            let dt = (self.m.end - now + 1).max(0);
            self.advance(dt);
            self.obs.fault("execution_after_end");
        } else {
            self.advance(exec_delay);
        }
        let end_before = self.m.end;
        let now = self.w.clock.unix_timestamp;
        let mut ixs = ex::execute_order_tx(&self.w, d, &order, false, 5000, 0).expect("execute tx");
        patch_callback(ixs.last_mut().unwrap(), &d.event_authority, &competition, &participant);
        let pre = self.w.clone();
        let out = self.w.process_tx(&ixs, &TxOpts::default());
        self.obs.outcome("keeper", "execute_order", &out.class());
        let mut counted = false;
        let mut ext = false;
        if out.ok {
            let cbs: Vec<_> = out.cpis.iter().filter(|c| c.ix.program_id == gmsol_competition::ID).collect();
            assert_eq!(cbs.len(), 1, "expected exactly one on_executed CPI");
            let cb = cbs[0];
            assert_eq!(cb.caller, gmsol_store::ID);
            let (authority, bump) = callback_authority();
            assert!(cb.pda_signers.contains(&authority), "the store did not sign with the callback authority");
            // what did the store send?
            let event_key = ex::trade_event_pda(d, &d.keeper, 0);
            let sent_event = cb.ix.accounts.get(6).map(|m| m.pubkey).expect("7 accounts");
            let has_event = sent_event != gmsol_competition::ID;
            let sent_position = cb.ix.accounts[5].pubkey;
            // success flag as sent (data: 8 disc + bump + kind + version + success + extra)
            let success = cb.ix.data[8 + 3] != 0;
            let call = ExecutedCall {
                authority,
                authority_bump: bump,
                authority_is_signer: true,
                competition,
                participant,
                trader: owner,
                action: order,
                position: sent_position,
                trade_event: has_event.then_some(event_key),
                action_kind: ACTION_KIND_ORDER,
                callback_version: 0,
                success,
                extra_account_count: 2,
            };
            let forged = on_executed_ix(&call);
            assert_eq!(forged.program_id, cb.ix.program_id);
            assert_eq!(forged.data, cb.ix.data, "forged on_executed data differs from what the store sends");
            assert_eq!(forged.accounts.len(), cb.ix.accounts.len());
            for (f, r) in forged.accounts.iter().zip(cb.ix.accounts.iter()) {
                assert_eq!(f.pubkey, r.pubkey, "forged account list differs from the store's");
                assert_eq!(f.is_signer, r.is_signer, "forged signer flags differ from the store's");
                assert!(!f.is_writable || r.is_writable, "forged instruction asks for more write access than the store grants");
            }
            if success && sent_position != gmsol_competition::ID {
                assert_eq!(sent_position, position);
            }
            self.obs.probe("real_callback_matches_forged");
            // deliver the forged twin with the real event bytes
            let mut volume = 0u128;
            if has_event {
                let acc = self.w.get(&event_key).cloned().expect("trade event account");
                assert_eq!(acc.owner, gmsol_store::ID);
                let t: gmsol_store::events::TradeData = read_pod(&self.w, &event_key).expect("trade data");
                assert_eq!(t.user, owner);
                volume = trade_volume(self.m.only_increase, t.before.size_in_usd, t.after.size_in_usd);
                // the forged layout for the same sizes agrees with the store's bytes on the fields the program reads
                let f = trade_event_bytes(&owner, t.before.size_in_usd, t.after.size_in_usd, 0, 0, 0);
                let ft: gmsol_store::events::TradeData = bytemuck::pod_read_unaligned(&f[8..]);
                assert_eq!(f[..8], acc.data[..8]);
                assert_eq!(f.len(), acc.data.len().min(f.len()));
                assert_eq!((ft.user, ft.before.size_in_usd, ft.after.size_in_usd), (t.user, t.before.size_in_usd, t.after.size_in_usd));
                put_trade_event(&mut self.w2, &self.event_key2, &gmsol_store::ID, acc.data[..f.len()].to_vec());
            }
            let mut call2 = call.clone();
            call2.trade_event = has_event.then_some(self.event_key2);
            let out2 = self.w2.process_tx(&[on_executed_ix(&call2)], &TxOpts { fail_cpi_at: None, payer: Some(self.payer) });
            assert!(out2.ok, "forged twin rejected a callback the real path accepted: {}", out2.class());
            // model
            let would_count = success && self.m.ongoing(now) && has_event && volume != 0;
            if would_count {
                let info = self.m.apply_counted(u, volume, now);
                counted = true;
                ext = info.extension_expected;
                self.obs.probe("counted_trade");
                self.obs.probe(if increase { "real_counted_increase" } else { "real_counted_decrease" });
                if ext {
                    self.obs.probe("real_extension");
                }
            } else if !success {
                self.obs.probe("real_failed_order_callback");
                // what-if fork: why did the order fail? (diagnostic only)
                let mut f = pre;
                if let Some(mut ixs) = ex::execute_order_tx(&f, d, &order, true, 5000, 0) {
                    patch_callback(ixs.last_mut().unwrap(), &d.event_authority, &competition, &participant);
                    let o = f.process_tx(&ixs, &TxOpts::default());
                    self.obs.probe(&format!("real_order_failure_{}_{}", if increase { "inc" } else { "dec" }, o.class()));
                }
            } else if !self.m.ongoing(now) {
                self.obs.probe("ignored_after_end");
            } else if volume == 0 {
                self.obs.probe("ignored_zero_volume");
            }
        } else {
            self.obs.probe("real_execute_rejected");
        }
        let _ = counted;
        self.compare_worlds("execute_order");
        if !self.check(end_before, ext) {
            return false;
        }
        // close the order (on_closed callback; must not change anything)
        if let Some(mut ix) = ex::close_order_ix(&self.w, d, &order, &owner) {
            patch_callback(&mut ix, &d.event_authority, &competition, &participant);
            let out = self.w.process(ix);
            self.obs.outcome("trader", "close_order", &out.class());
            if out.ok {
                let n = out.cpis.iter().filter(|c| c.ix.program_id == gmsol_competition::ID).count();
                assert_eq!(n, 1, "expected one on_closed CPI");
            }
        }
        self.compare_worlds("close_order");
        let e = self.m.end;
        self.check(e, false)
    }
}

impl Scenario for CompetitionReal {
    type Cfg = Cfg;
    type Step = RStep;

    fn name(&self) -> &'static str {
        "competition_real_store"
    }

    fn generate(&self, seed: u64, run: u64, tier: Tier, _focus: &str) -> (Cfg, Vec<RStep>) {
        self.gen(seed, run, tier)
    }

    fn execute(&self, cfg: &Cfg, steps: &[RStep], obs: &mut Obs) {
        layout_sanity();
        chainsim::deploy::init_thread();
        let b = base();
        let mut w = b.w.clone();
        let d: &'static Dep = &b.d;
        let mut cfg = cfg.clone();
        cfg.t0 = w.clock.unix_timestamp;
        cfg.n_traders = 3;
        let payer = fixed_key("payer", 0);
        w.fund(&payer, 1_000_000_000_000);
        let mut w2 = mini_world(cfg.t0);
        w2.clock = w.clock.clone();
        w2.fund(&payer, 1_000_000_000_000);
        let mut m = match deploy_competition(&mut w, &payer, &cfg, obs) {
            Some(m) => m,
            None => return,
        };
        let mut scratch = Obs::default();
        let m2 = deploy_competition(&mut w2, &payer, &cfg, &mut scratch).expect("twin competition");
        assert_eq!(m.competition, m2.competition);
        m.traders = d.users.iter().take(3).copied().collect();
        for t in &m.traders {
            w2.fund(t, 10_000_000_000);
        }
        let parts: Vec<(Pubkey, u8)> = m.traders.iter().map(|t| participant_pda(&m.competition, t)).collect();
        let mut r = Real {
            w,
            d,
            w2,
            m,
            payer,
            obs,
            nonce: 0,
            parts,
            event_key2: fixed_key("trade-event", 0),
        };
        // enter the window
        r.advance(cfg.start_delay);
        for (i, st) in steps.iter().enumerate() {
            r.obs.set_step(i);
            match st {
                RStep::Order { user, increase, size_usd, dt, exec_delay, late } => {
                    r.advance((*dt).max(0));
                    if !r.order(*user as usize % 3, *increase, *size_usd, (*exec_delay).max(0), *late) {
                        return;
                    }
                }
                RStep::Clock(dt) => {
                    r.advance((*dt).max(0));
                    let e = r.m.end;
                    if !r.check(e, false) {
                        return;
                    }
                }
                RStep::Close { user } => {
                    let u = *user as usize % 3;
                    let ix = close_participant_ix(&r.m.competition, &r.parts[u].0, &r.m.traders[u]);
                    let trader = r.m.traders[u];
                    let out = r.both(ix, trader);
                    r.obs.outcome("trader", "close", &out.class());
                    if out.ok {
                        r.m.parts.remove(&u);
                        r.obs.probe("participant_closed");
                    }
                    r.compare_worlds("close_participant");
                    let e = r.m.end;
                    if !r.check(e, false) {
                        return;
                    }
                }
            }
        }
    }

    fn simplify_step(&self, step: &RStep) -> Vec<RStep> {
        match step {
            RStep::Order { user, increase, size_usd, dt, exec_delay, late } => {
                let mut v = vec![];
                if *late {
                    v.push(RStep::Order { user: *user, increase: *increase, size_usd: *size_usd, dt: *dt, exec_delay: *exec_delay, late: false });
                }
                if *dt != 0 || *exec_delay != 0 {
                    v.push(RStep::Order { user: *user, increase: *increase, size_usd: *size_usd, dt: 0, exec_delay: 0, late: *late });
                }
                v
            }
            RStep::Clock(d) if *d != 0 => vec![RStep::Clock(d / 2)],
            _ => vec![],
        }
    }

    fn components(&self) -> Components {
        Components {
            real: vec![
                "gmsol_store program entrypoint (create_order_v2 / execute_increase_or_swap_order_v2 / execute_decrease_order_v2 / close_order_v2 with callback accounts, initialize_callback_authority, price feeds through the mock Chainlink verifier)".into(),
                "gmsol_competition program entrypoint invoked by CPI from the store (on_created, on_executed, on_closed) and directly (initialize_competition, create_participant_idempotent, close_participant)".into(),
                "SPL Token / Associated Token Account".into(),
            ],
            stub: vec![
                "chainsim runtime (accounts db, loader, CPI, sysvars, system program)".into(),
                "forged twin world: the same callbacks re-delivered through the forged top-level path of the main scenario, compared byte-for-byte".into(),
            ],
        }
    }

    fn rule(&self) -> String {
        "Per run: the cached exchange fixture (SOL/USDC market with liquidity, callback authority initialised) is cloned, a competition with swarm-drawn threshold ($0..$3000), duration 20-600 s, extension, merge window and counting mode is initialised in it and in a twin world that only holds the competition program. Plan = 2-9 steps: market increase / decrease orders of 3 users ($1-$2000) created with the competition as callback, executed by the keeper after 0-5 s (fault runs: sometimes after the end time) and closed; clock advances; participant closes. After each execute the store's CPI is compared with the forged instruction, the forged instruction + real trade-event bytes are delivered to the twin, both worlds' competition/participant accounts must be byte-identical, and the C39 oracles run on the real world. Non-trivial when at least one trade is counted.".into()
    }
}
