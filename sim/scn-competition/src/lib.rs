//! Scenario crate `scn-competition` (chain-level simulation on the chainsim runtime).
//!
//! C39 "The competition leaderboard is the top traders by volume".

pub mod forge;
pub mod model;
pub mod real;
pub mod sim;

use simcore::{CheckSpec, Part};

pub const PROPERTIES: &[&str] = &["C39", "C19"];

pub fn registry(property: &str) -> Option<CheckSpec> {
    match property {
        "C39" => Some(CheckSpec {
            property: "C39",
            level: "exploration",
            parts: vec![
                // wall caps are a safety net only (a loaded 16-thread machine needs ~140 s for the quick batch, an idle one ~20 s)
                Part::with_cap(sim::CompetitionSim, 150_000, 1_500_000, (300, 2400)),
                Part::new(real::CompetitionReal, 2_000, 40_000),
            ],
            assumptions: vec![
                "the cluster clock is monotone as on Solana (Bank::update_clock never lets unix_timestamp fall below the parent's): stalls, 1 s steps, coarse steps, jumps and extreme forward jumps are generated, backward steps are not".into(),
                "a trade is 'counted' when the documented rules say so: the order succeeded, the cluster time is inside [start_time, end_time], a trade event of that trader is attached and the (absolute / increase-only) change of size_in_usd is non-zero".into(),
                "totals saturate at u128::MAX (big-integer sum clamped), as the program documents with saturating_add".into(),
                "the store side of the callback is forged (callback-authority PDA flagged as signer, trade-event account written directly); the `competition_real_store` part checks on real orders that the forged instruction and event equal what gmsol_store sends".into(),
            ],
        }),
        "C19" => Some(CheckSpec {
            property: "C19",
            level: "fault_enumeration",
            parts: vec![Part::with_cap(sim::CompetitionSim, 50_000, 600_000, (300, 2400))],
            assumptions: vec![
                "competition program only: callbacks (on_created / on_updated / on_executed / on_closed) require the store's callback-authority PDA as signer, close_participant requires the trader as signer; initialize_competition and create_participant_idempotent need no privilege by design and get no twin".into(),
                "every landed callback delivery / close_participant of the forged-callback scenario is re-tried on a fork of its pre-state by (a) the same accounts with the authority not flagged as signer, (b) a stranger key signing in place of the authority, (c) another trader signing close_participant (owner unsigned / substituted as owner); a twin may only succeed outside the competition window and then must leave the competition and participant accounts byte-identical".into(),
                "signatures are flags on the account metas (chainsim does not verify ed25519 signatures); the fee payer of a twin is an unrelated funded key".into(),
            ],
        }),
        _ => None,
    }
}
