//! Scenario `roles`: admin / keepers / strangers operate the store's role table under cluster restarts,
//! authority hand-over, capacity exhaustion and byzantine twins. Serves C18, C19 (role and store-level
//! instructions), C35 (role names).

use std::collections::{BTreeMap, BTreeSet};

use anchor_lang::AnchorDeserialize;
use serde::{Deserialize, Serialize};
use simcore::{Components, Obs, Rng, Scenario, Tier};
use solana_program::{instruction::Instruction, pubkey::Pubkey};

use chainsim::deploy::{deploy_store, read_pod, store_ix, Dep, ALL_ROLES};
use chainsim::rt::{TxOpts, TxOutcome, World};

pub const RESTART_ADMIN: &str = "RESTART_ADMIN";
pub const MAX_ROLES: usize = 32;
pub const MAX_MEMBERS: usize = 64;

#[derive(Clone, Debug, Serialize, Deserialize)]
pub struct Cfg {
    pub n_addrs: usize,
    /// Enable byzantine twins of every landed privileged instruction (C19).
    pub twins: bool,
    /// Allow cluster restarts in this run.
    pub restarts: bool,
    /// Names outside the "sane" universe may appear (C35 focus).
    pub weird_names: bool,
}

/// Who signs.
#[derive(Clone, Copy, Debug, Serialize, Deserialize, PartialEq, Eq)]
pub enum Who {
    /// The address that deployed the store (initial authority).
    Admin,
    Keeper,
    /// `addrs[i]`
    Addr(usize),
    /// Whoever is the current store authority at execution time.
    Authority,
}

#[derive(Clone, Debug, Serialize, Deserialize)]
pub enum Step {
    Enable { by: Who, role: String },
    Disable { by: Who, role: String },
    Grant { by: Who, user: usize, role: String },
    Revoke { by: Who, user: usize, role: String },
    TransferAuthority { by: Who, next: usize },
    AcceptAuthority { by: usize },
    /// Fault: the cluster restarts (LastRestartSlot sysvar changes; all accounts survive).
    Restart,
    UpdateRestartSlot { by: Who },
    Query { user: usize, role: String },
    Advance { slots: u64 },
}

pub struct Roles;

fn sane(name: &str) -> bool {
    !name.is_empty() && name.len() < 32 && !name.as_bytes().contains(&0)
}

pub fn weird_name(rng: &mut Rng) -> String {
    let kind = rng.below(9);
    match kind {
        0 => String::new(),
        1 => "x".repeat(31),
        2 => "y".repeat(32),
        3 => "z".repeat(33),
        4 => format!("AB\0CD{}", rng.below(10)),
        5 => format!("TRAIL{}\0", rng.below(10)),
        // multi-byte straddling the limit: 30 ascii + 'é' (2 bytes) = 32 bytes
        6 => format!("{}é", "m".repeat(30)),
        // 31 ascii + 'é' = 33 bytes
        7 => format!("{}é", "n".repeat(31)),
        _ => format!("{}", "w".repeat(rng.usize(28, 34))),
    }
}

impl Scenario for Roles {
    type Cfg = Cfg;
    type Step = Step;

    fn name(&self) -> &'static str {
        "roles"
    }

    fn generate(&self, seed: u64, run: u64, tier: Tier, focus: &str) -> (Cfg, Vec<Step>) {
        let mut c = Rng::derive(seed, run, "roles.cfg");
        let mut p = Rng::derive(seed, run, "roles.plan");
        let big = c.chance(1, 5);
        let n_addrs = if big { c.usize(60, 72) } else { c.usize(3, 8) };
        let cfg = Cfg {
            n_addrs,
            twins: focus == "C19" || c.chance(1, 6),
            restarts: c.chance(1, 2),
            weird_names: focus == "C35" || c.chance(1, 10),
        };
        let len = {
            let base = if big { p.usize(80, 200) } else if p.chance(4, 5) { p.usize(5, 60) } else { p.usize(60, 300) };
            if tier == Tier::Thorough { base + base / 2 } else { base }
        };
        // role universe
        let n_custom = if big || p.chance(1, 4) { p.usize(20, 26) } else { p.usize(0, 4) };
        let mut roles: Vec<String> = ALL_ROLES.iter().map(|s| s.to_string()).collect();
        roles.push(RESTART_ADMIN.to_string());
        for i in 0..n_custom {
            roles.push(format!("CUSTOM_{i:02}"));
        }
        let mut steps = Vec::with_capacity(len);
        let pick_who = |p: &mut Rng| -> Who {
            match p.below(20) {
                0 => Who::Keeper,
                1 | 2 => Who::Addr(p.usize(0, n_addrs - 1)),
                3 => Who::Admin,
                _ => Who::Authority,
            }
        };
        let mut filled = false;
        for i in 0..len {
            // When the run is "big", the first part systematically fills roles and members to capacity.
            if big && !filled && i < roles.len() + n_addrs {
                if i < roles.len() {
                    steps.push(Step::Enable { by: Who::Authority, role: roles[i].clone() });
                } else {
                    let u = i - roles.len();
                    steps.push(Step::Grant { by: Who::Authority, user: u, role: roles[p.usize(0, roles.len() - 1)].clone() });
                    if u + 1 == n_addrs {
                        filled = true;
                    }
                }
                continue;
            }
            let role = if cfg.weird_names && p.chance(1, 3) { weird_name(&mut p) } else { p.pick(&roles).clone() };
            let user = p.usize(0, n_addrs - 1);
            let by = pick_who(&mut p);
            let s = match p.below(100) {
                0..=17 => Step::Enable { by, role },
                18..=27 => Step::Disable { by, role },
                28..=52 => Step::Grant { by, user, role },
                53..=69 => Step::Revoke { by, user, role },
                70..=73 => Step::TransferAuthority { by, next: user },
                74..=77 => Step::AcceptAuthority { by: user },
                78..=81 if cfg.restarts => Step::Restart,
                82..=85 if cfg.restarts => Step::UpdateRestartSlot { by },
                86..=95 => Step::Query { user, role },
                _ => Step::Advance { slots: p.range(1, 1000) },
            };
            steps.push(s);
        }
        (cfg, steps)
    }

    fn execute(&self, cfg: &Cfg, steps: &[Step], obs: &mut Obs) {
        let mut sim = Sim::new(cfg);
        for (i, s) in steps.iter().enumerate() {
            obs.set_step(i);
            sim.step(s, obs);
            if obs.should_stop() {
                return;
            }
        }
        sim.final_sweep(obs);
    }

    fn simplify_step(&self, s: &Step) -> Vec<Step> {
        match s {
            Step::Advance { slots } if *slots > 1 => vec![Step::Advance { slots: 1 }],
            Step::Enable { by, role } if *by != Who::Authority => vec![Step::Enable { by: Who::Authority, role: role.clone() }],
            Step::Grant { by, user, role } if *by != Who::Authority => vec![Step::Grant { by: Who::Authority, user: *user, role: role.clone() }],
            _ => vec![],
        }
    }

    fn simplify_cfg(&self, c: &Cfg) -> Vec<Cfg> {
        let mut v = vec![];
        if c.twins {
            v.push(Cfg { twins: false, ..c.clone() });
        }
        if c.restarts {
            v.push(Cfg { restarts: false, ..c.clone() });
        }
        v
    }

    fn components(&self) -> Components {
        Components {
            real: vec![
                "gmsol_store::entry (initialize, enable/disable/grant/revoke_role, has_role, check_role, check_admin, has_admin, transfer/accept_store_authority, update_last_restarted_slot)".into(),
                "anchor-lang account validation and (de)serialisation".into(),
            ],
            stub: vec![
                "chainsim runtime (accounts db, loader, CPI, sysvars incl. LastRestartSlot, system program)".into(),
                "signatures (a signer is a flag)".into(),
            ],
        }
    }

    fn rule(&self) -> String {
        "plans of 5–300 role-table operations over 3–72 addresses and up to 36 role names (two capacities are exhausted in 'big' runs), signed by authority / ex-admin / keeper / arbitrary addresses, with cluster restarts, authority hand-over and (C19) byzantine twins; distinct = distinct (actor, op, outcome) trigrams + abstract state fingerprints (roles count, members count, restart pending, authority changed)".into()
    }
}

pub struct Model {
    /// role -> enabled
    pub roles: BTreeMap<String, bool>,
    pub granted: BTreeSet<(Pubkey, String)>,
    pub authority: Pubkey,
    pub next_authority: Pubkey,
    pub store_restart_slot: u64,
}

impl Model {
    pub fn members(&self) -> BTreeSet<Pubkey> {
        self.granted.iter().map(|(a, _)| *a).collect()
    }
    pub fn raw_holds(&self, a: &Pubkey, role: &str) -> bool {
        self.roles.get(role).copied().unwrap_or(false) && self.granted.contains(&(*a, role.to_string()))
    }
}

pub struct Sim {
    pub w: World,
    pub d: Dep,
    pub addrs: Vec<Pubkey>,
    pub m: Model,
    pub twins: bool,
    pub stranger: Pubkey,
}

impl Sim {
    pub fn new(cfg: &Cfg) -> Self {
        let mut w = World::new(1_700_000_000, 1000);
        let d = deploy_store(&mut w);
        let mut addrs = vec![];
        for _ in 0..cfg.n_addrs {
            let k = w.new_key("addr");
            w.fund(&k, 10_000_000_000);
            addrs.push(k);
        }
        let stranger = w.new_key("stranger");
        w.fund(&stranger, 10_000_000_000);
        let mut m = Model {
            roles: BTreeMap::new(),
            granted: BTreeSet::new(),
            authority: d.admin,
            next_authority: d.admin,
            store_restart_slot: 0,
        };
        for r in ALL_ROLES {
            m.roles.insert(r.to_string(), true);
            m.granted.insert((d.keeper, r.to_string()));
        }
        Sim { w, d, addrs, m, twins: cfg.twins, stranger }
    }

    fn key(&self, who: Who) -> Pubkey {
        match who {
            Who::Admin => self.d.admin,
            Who::Keeper => self.d.keeper,
            Who::Addr(i) => self.addrs[i % self.addrs.len()],
            Who::Authority => self.m.authority,
        }
    }

    fn role_of(&self, who: Who) -> &'static str {
        match who {
            Who::Admin => "deployer",
            Who::Keeper => "keeper",
            Who::Addr(_) => "address",
            Who::Authority => "authority",
        }
    }

    fn restarted(&self) -> bool {
        self.m.store_restart_slot != self.w.last_restart_slot
    }

    fn is_restart_admin(&self, a: &Pubkey) -> bool {
        self.m.raw_holds(a, RESTART_ADMIN)
    }

    /// Reference: does `a` pass the admin check?
    pub fn model_is_admin(&self, a: &Pubkey) -> bool {
        *a == self.m.authority || (self.restarted() && self.is_restart_admin(a))
    }

    /// Reference: does `a` hold `role` (as the program's role check must see it)?
    pub fn model_holds(&self, a: &Pubkey, role: &str) -> bool {
        if self.restarted() {
            self.is_restart_admin(a)
        } else {
            self.m.raw_holds(a, role)
        }
    }

    fn ix_enable(&self, by: &Pubkey, role: &str) -> Instruction {
        store_ix(
            gmsol_store::accounts::EnableRole { authority: *by, store: self.d.store },
            gmsol_store::instruction::EnableRole { role: role.to_string() },
        )
    }
    fn ix_disable(&self, by: &Pubkey, role: &str) -> Instruction {
        store_ix(
            gmsol_store::accounts::DisableRole { authority: *by, store: self.d.store },
            gmsol_store::instruction::DisableRole { role: role.to_string() },
        )
    }
    fn ix_grant(&self, by: &Pubkey, user: &Pubkey, role: &str) -> Instruction {
        store_ix(
            gmsol_store::accounts::GrantRole { authority: *by, store: self.d.store },
            gmsol_store::instruction::GrantRole { user: *user, role: role.to_string() },
        )
    }
    fn ix_revoke(&self, by: &Pubkey, user: &Pubkey, role: &str) -> Instruction {
        store_ix(
            gmsol_store::accounts::RevokeRole { authority: *by, store: self.d.store },
            gmsol_store::instruction::RevokeRole { user: *user, role: role.to_string() },
        )
    }

    /// On-chain `has_role` query (instruction return data). `None` = the instruction failed.
    pub fn query_has_role(&mut self, a: &Pubkey, role: &str) -> Option<bool> {
        let out = self.w.process(store_ix(
            gmsol_store::accounts::HasRole { store: self.d.store },
            gmsol_store::instruction::HasRole { authority: *a, role: role.to_string() },
        ));
        if !out.ok {
            return None;
        }
        let (_, data) = out.return_data?;
        bool::try_from_slice(&data).ok()
    }

    pub fn query_check_role(&mut self, a: &Pubkey, role: &str) -> Option<bool> {
        let out = self.w.process(store_ix(
            gmsol_store::accounts::CheckRole { authority: *a, store: self.d.store },
            gmsol_store::instruction::CheckRole { role: role.to_string() },
        ));
        if !out.ok {
            return None;
        }
        let (_, data) = out.return_data?;
        bool::try_from_slice(&data).ok()
    }

    pub fn query_has_admin(&mut self, a: &Pubkey) -> Option<bool> {
        let out = self.w.process(store_ix(
            gmsol_store::accounts::HasRole { store: self.d.store },
            gmsol_store::instruction::HasAdmin { authority: *a },
        ));
        if !out.ok {
            return None;
        }
        let (_, data) = out.return_data?;
        bool::try_from_slice(&data).ok()
    }

    /// C18 (a): the program's view of `(a, role)` equals the reference.
    fn check_pair(&mut self, a: &Pubkey, role: &str, obs: &mut Obs) {
        if !sane(role) {
            return;
        }
        let want = self.model_holds(a, role);
        let got = self.query_has_role(a, role).unwrap_or(false);
        let got2 = self.query_check_role(a, role).unwrap_or(false);
        let restarted = self.restarted();
        obs.require(
            got == want && got2 == want,
            "C18",
            "has_role_mismatch",
            || format!("restart_pending={restarted},want={want}"),
            || format!("addr={a} role={role} model={want} has_role={got} check_role={got2} restart_pending={restarted}"),
        );
        let want_admin = self.model_is_admin(a);
        let got_admin = self.query_has_admin(a).unwrap_or(false);
        obs.require(
            got_admin == want_admin,
            "C18",
            "admin_mismatch",
            || format!("restart_pending={restarted},want={want_admin}"),
            || format!("addr={a} model_admin={want_admin} has_admin={got_admin} authority={}", self.m.authority),
        );
    }

    fn check_counts(&mut self, obs: &mut Obs) {
        let store: gmsol_store::states::Store = match read_pod(&self.w, &self.d.store) {
            Some(s) => s,
            None => return,
        };
        let members = store.role().num_members();
        let want = self.m.members().len();
        obs.require(
            members == want,
            "C18",
            "member_count",
            || "count".to_string(),
            || format!("program members={members} model members={want}"),
        );
        let roles = store.role().num_roles();
        obs.require(
            roles == self.m.roles.len(),
            "C18",
            "role_count",
            || "count".to_string(),
            || format!("program roles={roles} model roles={}", self.m.roles.len()),
        );
        obs.fingerprint(&[1, roles as u64, (members as u64).min(64) / 8, self.restarted() as u64, (self.m.authority != self.d.admin) as u64]);
    }

    /// C19: byzantine twins of a privileged instruction that just landed. `pre` is the world before it.
    fn twins_of(&mut self, pre: &World, ix: &Instruction, signer: &Pubkey, admin_only: bool, name: &str, obs: &mut Obs) {
        if !self.twins {
            return;
        }
        // (a) a signer with no role at all
        let mut forged = ix.clone();
        for m in forged.accounts.iter_mut() {
            if m.pubkey == *signer {
                m.pubkey = self.stranger;
            }
        }
        let mut f = pre.clone();
        let out = f.process(forged.clone());
        obs.fault("byzantine_twin_no_role");
        obs.probe(&format!("c19_twin:{name}"));
        obs.require(
            !out.ok,
            "C19",
            "stranger_accepted",
            || format!("ix={name},variant=no_role"),
            || format!("{name} signed by an address with no role succeeded"),
        );
        // (b) a signer holding every enabled role (but not admin) for admin-only instructions
        if admin_only && !self.restarted() {
            let mut f = pre.clone();
            let x = self.stranger;
            let roles: Vec<String> = self.m.roles.iter().filter(|(_, e)| **e).map(|(r, _)| r.clone()).filter(|r| r != RESTART_ADMIN).collect();
            let mut ok_setup = true;
            for r in roles {
                if !sane(&r) {
                    continue;
                }
                let o = f.process(self.ix_grant(&self.m.authority, &x, &r));
                if !o.ok {
                    ok_setup = false;
                    break;
                }
            }
            if ok_setup {
                let out = f.process(forged);
                obs.fault("byzantine_twin_every_other_role");
                obs.require(
                    !out.ok,
                    "C19",
                    "stranger_accepted",
                    || format!("ix={name},variant=every_other_role"),
                    || format!("{name} signed by a holder of every role except admin succeeded"),
                );
            }
        }
    }

    fn run_priv(&mut self, ix: Instruction, by: Who, op: &str, obs: &mut Obs) -> (TxOutcome, World) {
        let pre = self.w.clone();
        let out = self.w.process_tx(&[ix], &TxOpts::default());
        obs.outcome(self.role_of(by), op, &out.class());
        obs.event(|| format!("{op} by={:?} -> {}", by, out.class()));
        (out, pre)
    }

    fn unexpected(&self, obs: &mut Obs, op: &str, want_ok: bool, out: &TxOutcome, detail: String) {
        obs.require(
            out.ok == want_ok,
            "C18",
            if want_ok { "legal_op_rejected" } else { "illegal_op_accepted" },
            || format!("op={op}"),
            || format!("{op}: model expects ok={want_ok}, program {} — {detail}", out.class()),
        );
    }

    pub fn step(&mut self, s: &Step, obs: &mut Obs) {
        match s {
            Step::Advance { slots } => {
                self.w.advance(*slots, (*slots / 2) as i64);
                obs.sim_seconds += *slots / 2;
            }
            Step::Restart => {
                // A new restart slot that differs from the current one.
                self.w.last_restart_slot = self.w.clock.slot.max(self.w.last_restart_slot + 1);
                self.w.advance(1, 1);
                obs.fault("cluster_restart");
                obs.event(|| "cluster restart".to_string());
            }
            Step::UpdateRestartSlot { by } => {
                let k = self.key(*by);
                let ix = store_ix(
                    gmsol_store::accounts::UpdateLastRestartedSlot { authority: k, store: self.d.store },
                    gmsol_store::instruction::UpdateLastRestartedSlot {},
                );
                let want = self.model_is_admin(&k) && self.restarted();
                let (out, pre) = self.run_priv(ix.clone(), *by, "update_restart_slot", obs);
                self.unexpected(obs, "update_last_restarted_slot", want, &out, format!("by={k}"));
                if out.ok {
                    self.m.store_restart_slot = self.w.last_restart_slot;
                    obs.probe("restart_acknowledged");
                    self.twins_of(&pre, &ix, &k, true, "update_last_restarted_slot", obs);
                }
            }
            Step::TransferAuthority { by, next } => {
                let k = self.key(*by);
                let n = self.addrs[*next % self.addrs.len()];
                let ix = store_ix(
                    gmsol_store::accounts::TransferStoreAuthority { authority: k, store: self.d.store, next_authority: n },
                    gmsol_store::instruction::TransferStoreAuthority {},
                );
                let want = self.model_is_admin(&k) && self.m.next_authority != n;
                let (out, pre) = self.run_priv(ix.clone(), *by, "transfer_authority", obs);
                self.unexpected(obs, "transfer_store_authority", want, &out, format!("by={k} next={n}"));
                if out.ok {
                    self.m.next_authority = n;
                    self.twins_of(&pre, &ix, &k, true, "transfer_store_authority", obs);
                }
            }
            Step::AcceptAuthority { by } => {
                let k = self.addrs[*by % self.addrs.len()];
                let ix = store_ix(
                    gmsol_store::accounts::AcceptStoreAuthority { next_authority: k, store: self.d.store },
                    gmsol_store::instruction::AcceptStoreAuthority {},
                );
                let want = self.m.next_authority == k && self.m.authority != k && !self.restarted();
                let (out, _pre) = self.run_priv(ix, Who::Addr(*by), "accept_authority", obs);
                self.unexpected(obs, "accept_store_authority", want, &out, format!("by={k}"));
                if out.ok {
                    self.m.authority = k;
                    obs.probe("authority_changed");
                }
                let a = self.m.authority;
                self.check_pair(&a, "MARKET_KEEPER", obs);
                let dep = self.d.admin;
                self.check_pair(&dep, "MARKET_KEEPER", obs);
            }
            Step::Enable { by, role } => {
                let k = self.key(*by);
                let ix = self.ix_enable(&k, role);
                let exists = self.m.roles.contains_key(role);
                let legal = self.model_is_admin(&k)
                    && if exists { !self.m.roles[role] } else { self.m.roles.len() < MAX_ROLES };
                let (out, pre) = self.run_priv(ix.clone(), *by, "enable_role", obs);
                if sane(role) {
                    self.unexpected(obs, "enable_role", legal, &out, format!("by={k} role={role} exists={exists}"));
                    if !legal && exists && self.model_is_admin(&k) {
                        obs.probe("enable_enabled_rejected");
                    }
                    if !exists && self.m.roles.len() >= MAX_ROLES && self.model_is_admin(&k) {
                        obs.probe("role_capacity_exhausted");
                        obs.fault("capacity_exhaustion_roles");
                    }
                } else if role.len() > 32 {
                    obs.require(!out.ok, "C35", "overlong_name_accepted", || "kind=role".into(), || format!("role name of {} bytes accepted", role.len()));
                }
                if out.ok {
                    if !exists {
                        self.m.roles.insert(role.clone(), true);
                        self.name_read_back(role, obs);
                    } else {
                        self.m.roles.insert(role.clone(), true);
                    }
                    self.twins_of(&pre, &ix, &k, true, "enable_role", obs);
                }
            }
            Step::Disable { by, role } => {
                let k = self.key(*by);
                let ix = self.ix_disable(&k, role);
                let exists = self.m.roles.contains_key(role);
                // disabling an unknown role is a documented no-op
                let legal = self.model_is_admin(&k) && (!exists || self.m.roles[role]);
                let (out, pre) = self.run_priv(ix.clone(), *by, "disable_role", obs);
                if sane(role) {
                    self.unexpected(obs, "disable_role", legal, &out, format!("by={k} role={role} exists={exists}"));
                }
                if out.ok {
                    if exists {
                        self.m.roles.insert(role.clone(), false);
                    }
                    self.twins_of(&pre, &ix, &k, true, "disable_role", obs);
                }
            }
            Step::Grant { by, user, role } => {
                let k = self.key(*by);
                let u = self.addrs[*user % self.addrs.len()];
                let ix = self.ix_grant(&k, &u, role);
                let enabled = self.m.roles.get(role).copied().unwrap_or(false);
                let held = self.m.granted.contains(&(u, role.clone()));
                let is_member = self.m.members().contains(&u);
                let members_full = self.m.members().len() >= MAX_MEMBERS;
                let legal = self.model_is_admin(&k) && enabled && !held && (is_member || !members_full);
                let (out, pre) = self.run_priv(ix.clone(), *by, "grant_role", obs);
                if sane(role) {
                    self.unexpected(obs, "grant_role", legal, &out, format!("by={k} user={u} role={role} enabled={enabled} held={held}"));
                    if held && self.model_is_admin(&k) && enabled {
                        obs.probe("double_grant_rejected");
                    }
                    if !is_member && members_full && self.model_is_admin(&k) && enabled {
                        obs.probe("member_capacity_exhausted");
                        obs.fault("capacity_exhaustion_members");
                    }
                }
                if out.ok {
                    self.m.granted.insert((u, role.clone()));
                    self.twins_of(&pre, &ix, &k, true, "grant_role", obs);
                }
                self.check_pair(&u, role, obs);
            }
            Step::Revoke { by, user, role } => {
                let k = self.key(*by);
                let u = self.addrs[*user % self.addrs.len()];
                let ix = self.ix_revoke(&k, &u, role);
                let exists = self.m.roles.contains_key(role);
                let held = self.m.granted.contains(&(u, role.clone()));
                let legal = self.model_is_admin(&k) && exists && held;
                let (out, pre) = self.run_priv(ix.clone(), *by, "revoke_role", obs);
                if sane(role) {
                    self.unexpected(obs, "revoke_role", legal, &out, format!("by={k} user={u} role={role} held={held}"));
                    if !held && self.model_is_admin(&k) {
                        obs.probe("revoke_absent_rejected");
                    }
                }
                if out.ok {
                    self.m.granted.remove(&(u, role.clone()));
                    if !self.m.members().contains(&u) {
                        obs.probe("last_role_revoked");
                    }
                    self.twins_of(&pre, &ix, &k, true, "revoke_role", obs);
                }
                self.check_pair(&u, role, obs);
            }
            Step::Query { user, role } => {
                let u = self.addrs[*user % self.addrs.len()];
                self.check_pair(&u, role, obs);
                let kp = self.d.keeper;
                self.check_pair(&kp, role, obs);
            }
        }
        self.check_counts(obs);
    }

    /// C35: a freshly accepted role name must read back and be usable (checked on a fork).
    fn name_read_back(&mut self, role: &str, obs: &mut Obs) {
        let store: gmsol_store::states::Store = match read_pod(&self.w, &self.d.store) {
            Some(s) => s,
            None => return,
        };
        let listed: Vec<Option<String>> = store.role().roles().map(|r| r.ok().map(|s| s.to_string())).collect();
        let readable = listed.iter().any(|r| r.as_deref() == Some(role));
        let key = format!("kind=role,len={},nul={}", role.len(), role.as_bytes().contains(&0));
        obs.require(
            readable,
            "C35",
            "unreadable_name",
            || key.clone(),
            || format!("role name {:?} was accepted by enable_role but the role table lists {:?}", role, listed),
        );
        // usable: grant, has_role, disable on a fork
        let mut f = Sim { w: self.w.clone(), d: self.d.clone(), addrs: self.addrs.clone(), m: Model { roles: self.m.roles.clone(), granted: self.m.granted.clone(), authority: self.m.authority, next_authority: self.m.next_authority, store_restart_slot: self.m.store_restart_slot }, twins: false, stranger: self.stranger };
        if f.m.members().len() >= MAX_MEMBERS {
            return;
        }
        let auth = f.m.authority;
        let x = f.stranger;
        let g = f.w.process(f.ix_grant(&auth, &x, role));
        let h = if g.ok { f.query_has_role(&x, role) } else { None };
        let dis = f.w.process(f.ix_disable(&auth, role));
        let usable = g.ok && h == Some(true) && dis.ok;
        obs.require(
            usable || self.restarted(),
            "C35",
            "unusable_name",
            || key.clone(),
            || format!("role {:?} accepted but grant -> {}, has_role -> {:?}, disable -> {}", role, g.class(), h, dis.class()),
        );
        if role.len() == 32 {
            obs.probe("name_exactly_capacity_accepted");
        }
    }

    pub fn final_sweep(&mut self, obs: &mut Obs) {
        // full comparison of the raw role table with the model (no restart logic involved)
        let store: gmsol_store::states::Store = match read_pod(&self.w, &self.d.store) {
            Some(s) => s,
            None => return,
        };
        let mut all: Vec<Pubkey> = self.addrs.clone();
        all.push(self.d.keeper);
        all.push(self.d.admin);
        let roles: Vec<String> = self.m.roles.keys().filter(|r| sane(r)).cloned().collect();
        for a in &all {
            for r in &roles {
                let got = store.role().has_role(a, r).unwrap_or(false);
                let want = self.m.raw_holds(a, r);
                obs.require(
                    got == want,
                    "C18",
                    "table_mismatch",
                    || format!("want={want}"),
                    || format!("final sweep: addr={a} role={r} model={want} table={got}"),
                );
                if obs.should_stop() {
                    return;
                }
            }
        }
    }
}
