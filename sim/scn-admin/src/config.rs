//! Scenario `config`: keepers with different role sets update market configuration (single keys, flags,
//! buffers with expiry) and store amounts/factors/addresses, create markets and tokens with boundary names,
//! under clock jumps, delayed buffer application and byzantine twins.
//! Serves C16, C17, C20, C35 (market / token names), C19 (configuration instructions).

use std::collections::{BTreeMap, BTreeSet};

use gmsol_model::{
    BaseMarket, BorrowingFeeMarket, PerpMarket, PnlFactorKind, PositionImpactMarket, SwapMarket,
};
use gmsol_store::states::market::config::{MarketConfigFlag, MarketConfigKey};
use gmsol_store::states::{AddressKey, AmountKey, FactorKey, Market, Store};
use serde::{Deserialize, Serialize};
use simcore::{Components, Obs, Rng, Scenario, Tier};
use solana_program::{instruction::Instruction, pubkey::Pubkey, system_program};
use strum::IntoEnumIterator;

use chainsim::deploy::{deploy_full, init_market_ix, push_token_ix, read_pod, store_ix, Dep, DeployOpts, TokenInfo, TokenSpec};
use chainsim::rt::{TxOutcome, World};

const UNIT: u128 = 100_000_000_000_000_000_000;

#[derive(Clone, Copy, Debug, Serialize, Deserialize, PartialEq, Eq, PartialOrd, Ord)]
pub enum Who {
    /// Holds every keeper role (deployment keeper).
    Keeper,
    /// Only MARKET_KEEPER.
    MarketKeeper,
    /// Only MARKET_CONFIG_KEEPER.
    MarketConfigKeeper,
    /// Only CONFIG_KEEPER.
    ConfigKeeper,
    /// Store authority, no keeper role.
    Admin,
    Stranger,
}

const WHOS: &[Who] = &[Who::Keeper, Who::MarketKeeper, Who::MarketConfigKeeper, Who::ConfigKeeper, Who::Admin, Who::Stranger];

#[derive(Clone, Debug, Serialize, Deserialize)]
pub struct Cfg {
    pub twins: bool,
    pub weird_names: bool,
    pub pure_market: bool,
}

#[derive(Clone, Debug, Serialize, Deserialize)]
pub enum Step {
    SetConfig { by: Who, market: usize, key: String, value: u128 },
    SetFlag { by: Who, market: usize, flag: String, value: bool },
    SetUpdatable { by: Who, is_flag: bool, key: String, updatable: bool },
    BufInit { by: Who, slot: usize, expire_secs: u32 },
    BufPush { by: Who, slot: usize, entries: Vec<(String, u128)> },
    BufApply { by: Who, slot: usize, market: usize },
    BufSetAuthority { by: Who, slot: usize, to: Who },
    BufClose { by: Who, slot: usize },
    InsertAmount { by: Who, key: String, value: u64 },
    InsertFactor { by: Who, key: String, value: u128 },
    InsertAddress { by: Who, key: String, value: u8 },
    CreateMarket { by: Who, name: String, pure: bool },
    PushToken { by: Who, name: String },
    Advance { secs: i64 },
}

pub struct Config;

fn market_keys() -> Vec<String> {
    MarketConfigKey::iter().map(|k| k.to_string()).collect()
}
fn flag_keys() -> Vec<String> {
    MarketConfigFlag::iter().map(|k| k.to_string()).collect()
}

fn value_for(p: &mut Rng) -> u128 {
    match p.below(8) {
        0 => 0,
        1 => 1,
        2 => UNIT,
        3 => UNIT - 1,
        4 => u128::MAX,
        5 => p.log_u128(UNIT * 1000),
        _ => p.u128(),
    }
}

pub fn weird_market_name(rng: &mut Rng, cap: usize) -> String {
    match rng.below(8) {
        0 => String::new(),
        1 => "a".repeat(cap - 1),
        2 => "b".repeat(cap),
        3 => "c".repeat(cap + 1),
        4 => format!("N\0M{}", rng.below(10)),
        5 => format!("{}é", "d".repeat(cap - 2)),
        6 => format!("{}é", "e".repeat(cap - 1)),
        _ => format!("T{}\0", rng.below(10)),
    }
}

impl Scenario for Config {
    type Cfg = Cfg;
    type Step = Step;

    fn name(&self) -> &'static str {
        "config"
    }

    fn generate(&self, seed: u64, run: u64, tier: Tier, focus: &str) -> (Cfg, Vec<Step>) {
        let mut c = Rng::derive(seed, run, "config.cfg");
        let mut p = Rng::derive(seed, run, "config.plan");
        let cfg = Cfg {
            twins: focus == "C19" || c.chance(1, 8),
            weird_names: focus == "C35" || c.chance(1, 6),
            pure_market: c.chance(1, 2),
        };
        let mk = market_keys();
        let fk = flag_keys();
        let ak: Vec<String> = AmountKey::iter().map(|k| k.to_string()).collect();
        let fak: Vec<String> = FactorKey::iter().map(|k| k.to_string()).collect();
        let adk: Vec<String> = AddressKey::iter().map(|k| k.to_string()).collect();
        let mut len = if p.chance(4, 5) { p.usize(5, 50) } else { p.usize(50, 200) };
        if tier == Tier::Thorough {
            len += len / 2;
        }
        let sweep = focus == "C16" && p.chance(1, 4);
        let mut steps = vec![];
        if sweep {
            // systematic sweep: every key once, by a market keeper, with a unique value
            for (i, k) in mk.iter().enumerate() {
                steps.push(Step::SetConfig { by: Who::MarketKeeper, market: p.usize(0, 1), key: k.clone(), value: 1_000_003 + i as u128 * 7919 });
            }
            for k in fk.iter() {
                steps.push(Step::SetFlag { by: Who::MarketKeeper, market: p.usize(0, 1), flag: k.clone(), value: p.bool() });
            }
        }
        let pick_by = |p: &mut Rng, legit: Who| -> Who {
            if p.chance(2, 3) {
                legit
            } else {
                *p.pick(WHOS)
            }
        };
        for _ in 0..len {
            let w = match focus {
                "C17" | "C35" => p.below(100) % 40 + 60,
                "C20" => p.below(75),
                _ => p.below(100),
            };
            let s = match w {
                0..=19 => {
                    let key = if p.chance(1, 20) { "not_a_key".to_string() } else { p.pick(&mk).clone() };
                    let legit = if p.bool() { Who::MarketKeeper } else { Who::MarketConfigKeeper };
                    Step::SetConfig { by: pick_by(&mut p, legit), market: p.usize(0, 2), key, value: value_for(&mut p) }
                }
                20..=27 => {
                    let legit = if p.bool() { Who::MarketKeeper } else { Who::MarketConfigKeeper };
                    Step::SetFlag { by: pick_by(&mut p, legit), market: p.usize(0, 2), flag: p.pick(&fk).clone(), value: p.bool() }
                }
                28..=39 => {
                    let is_flag = p.chance(1, 4);
                    let key = if is_flag { p.pick(&fk).clone() } else { p.pick(&mk).clone() };
                    Step::SetUpdatable { by: pick_by(&mut p, Who::MarketKeeper), is_flag, key, updatable: p.chance(2, 3) }
                }
                40..=45 => Step::BufInit { by: pick_by(&mut p, Who::MarketConfigKeeper), slot: p.usize(0, 2), expire_secs: *p.pick(&[0u32, 1, 10, 60, 3600, u32::MAX]) },
                46..=55 => {
                    let n = p.usize(1, 5);
                    let entries = (0..n).map(|_| (p.pick(&mk).clone(), value_for(&mut p))).collect();
                    Step::BufPush { by: pick_by(&mut p, Who::MarketConfigKeeper), slot: p.usize(0, 2), entries }
                }
                56..=65 => Step::BufApply { by: pick_by(&mut p, Who::MarketConfigKeeper), slot: p.usize(0, 2), market: p.usize(0, 2) },
                66..=68 => Step::BufSetAuthority { by: pick_by(&mut p, Who::MarketConfigKeeper), slot: p.usize(0, 2), to: *p.pick(WHOS) },
                69..=70 => Step::BufClose { by: pick_by(&mut p, Who::MarketConfigKeeper), slot: p.usize(0, 2) },
                71..=74 => Step::Advance { secs: *p.pick(&[0i64, 1, 9, 10, 11, 59, 60, 61, 3599, 3600, 3601, 86_400, 1 << 33]) },
                75..=79 => Step::InsertAmount { by: pick_by(&mut p, Who::ConfigKeeper), key: p.pick(&ak).clone(), value: p.log_u64(u64::MAX) },
                80..=83 => Step::InsertFactor { by: pick_by(&mut p, Who::ConfigKeeper), key: p.pick(&fak).clone(), value: value_for(&mut p) },
                84..=85 => Step::InsertAddress { by: pick_by(&mut p, Who::ConfigKeeper), key: p.pick(&adk).clone(), value: p.below(5) as u8 },
                86..=93 => {
                    let name = if cfg.weird_names && p.chance(1, 2) { weird_market_name(&mut p, 64) } else { format!("MKT-{}", p.below(1000)) };
                    Step::CreateMarket { by: pick_by(&mut p, Who::MarketKeeper), name, pure: p.chance(1, 3) }
                }
                _ => {
                    let name = if cfg.weird_names && p.chance(1, 2) { weird_market_name(&mut p, 32) } else { format!("TK{}", p.below(1000)) };
                    Step::PushToken { by: pick_by(&mut p, Who::MarketKeeper), name }
                }
            };
            steps.push(s);
        }
        (cfg, steps)
    }

    fn execute(&self, cfg: &Cfg, steps: &[Step], obs: &mut Obs) {
        let mut sim = Sim::new(cfg, obs);
        for (i, s) in steps.iter().enumerate() {
            obs.set_step(i);
            sim.step(s, obs);
            if obs.should_stop() {
                return;
            }
        }
    }

    fn simplify_step(&self, s: &Step) -> Vec<Step> {
        match s {
            Step::Advance { secs } if *secs > 1 => vec![Step::Advance { secs: 1 }],
            Step::BufPush { by, slot, entries } if entries.len() > 1 => vec![Step::BufPush { by: *by, slot: *slot, entries: entries[..1].to_vec() }],
            _ => vec![],
        }
    }

    fn simplify_cfg(&self, c: &Cfg) -> Vec<Cfg> {
        let mut v = vec![];
        if c.twins {
            v.push(Cfg { twins: false, ..c.clone() });
        }
        v
    }

    fn components(&self) -> Components {
        Components {
            real: vec![
                "gmsol_store::entry (initialize_market, push_to_token_map(_synthetic), update_market_config, update_market_config_flag, set_market_config_updatable, market config buffer instructions, insert_amount/factor/address, token_name)".into(),
                "gmsol_store::states::Market model-trait accessors (BaseMarket, SwapMarket, PositionImpactMarket, BorrowingFeeMarket, PerpMarket) evaluated on the decoded account".into(),
                "SPL Token, Associated Token Account processors; mock Chainlink verifier".into(),
            ],
            stub: vec!["chainsim runtime (accounts db, loader, CPI, sysvars, system program)".into(), "signatures (a signer is a flag)".into()],
        }
    }

    fn rule(&self) -> String {
        "plans of 5–200 configuration operations by six kinds of signer (all roles / MARKET_KEEPER only / MARKET_CONFIG_KEEPER only / CONFIG_KEEPER only / admin / stranger) over every key of every configuration enum (enumerated with strum), with buffers mixing updatable and non-updatable entries, expiry under clock jumps, market and token creation with boundary names; distinct = (actor, op, outcome) trigrams + (key, signer kind, outcome) fingerprints".into()
    }
}

/// Documented default of every market config key (transcribed from the doc comments and names in
/// `constants/market.rs`, deliberately not from `MarketConfig::init`).
pub fn documented_default(key: &str) -> Option<u128> {
    use gmsol_store::constants::*;
    Some(match key {
        "swap_impact_exponent" => DEFAULT_SWAP_IMPACT_EXPONENT,
        "swap_impact_positive_factor" => DEFAULT_SWAP_IMPACT_POSITIVE_FACTOR,
        "swap_impact_negative_factor" => DEFAULT_SWAP_IMPACT_NEGATIVE_FACTOR,
        "swap_fee_receiver_factor" => DEFAULT_RECEIVER_FACTOR,
        "swap_fee_factor_for_positive_impact" => DEFAULT_SWAP_FEE_FACTOR_FOR_POSITIVE_IMPACT,
        "swap_fee_factor_for_negative_impact" => DEFAULT_SWAP_FEE_FACTOR_FOR_NEGATIVE_IMPACT,
        "min_position_size_usd" => DEFAULT_MIN_POSITION_SIZE_USD,
        "min_collateral_value" => DEFAULT_MIN_COLLATERAL_VALUE,
        "min_collateral_factor" => DEFAULT_MIN_COLLATERAL_FACTOR,
        "min_collateral_factor_for_open_interest_multiplier_for_long" => DEFAULT_MIN_COLLATERAL_FACTOR_FOR_OPEN_INTEREST_FOR_LONG,
        "min_collateral_factor_for_open_interest_multiplier_for_short" => DEFAULT_MIN_COLLATERAL_FACTOR_FOR_OPEN_INTEREST_FOR_SHORT,
        "max_positive_position_impact_factor" => DEFAULT_MAX_POSITIVE_POSITION_IMPACT_FACTOR,
        "max_negative_position_impact_factor" => DEFAULT_MAX_NEGATIVE_POSITION_IMPACT_FACTOR,
        "max_position_impact_factor_for_liquidations" => DEFAULT_MAX_POSITION_IMPACT_FACTOR_FOR_LIQUIDATIONS,
        "position_impact_exponent" => DEFAULT_POSITION_IMPACT_EXPONENT,
        "position_impact_positive_factor" => DEFAULT_POSITION_IMPACT_POSITIVE_FACTOR,
        "position_impact_negative_factor" => DEFAULT_POSITION_IMPACT_NEGATIVE_FACTOR,
        "order_fee_receiver_factor" => DEFAULT_RECEIVER_FACTOR,
        "order_fee_factor_for_positive_impact" => DEFAULT_ORDER_FEE_FACTOR_FOR_POSITIVE_IMPACT,
        "order_fee_factor_for_negative_impact" => DEFAULT_ORDER_FEE_FACTOR_FOR_NEGATIVE_IMPACT,
        "liquidation_fee_receiver_factor" => DEFAULT_RECEIVER_FACTOR,
        "liquidation_fee_factor" => DEFAULT_LIQUIDATION_FEE_FACTOR,
        "position_impact_distribute_factor" => DEFAULT_POSITION_IMPACT_DISTRIBUTE_FACTOR,
        "min_position_impact_pool_amount" => DEFAULT_MIN_POSITION_IMPACT_POOL_AMOUNT,
        "borrowing_fee_receiver_factor" => DEFAULT_RECEIVER_FACTOR,
        "borrowing_fee_factor_for_long" => DEFAULT_BORROWING_FEE_FACTOR_FOR_LONG,
        "borrowing_fee_factor_for_short" => DEFAULT_BORROWING_FEE_FACTOR_FOR_SHORT,
        "borrowing_fee_exponent_for_long" => DEFAULT_BORROWING_FEE_EXPONENT_FOR_LONG,
        "borrowing_fee_exponent_for_short" => DEFAULT_BORROWING_FEE_EXPONENT_FOR_SHORT,
        "borrowing_fee_optimal_usage_factor_for_long" => DEFAULT_BORROWING_FEE_OPTIMAL_USAGE_FACTOR_FOR_LONG,
        "borrowing_fee_optimal_usage_factor_for_short" => DEFAULT_BORROWING_FEE_OPTIMAL_USAGE_FACTOR_FOR_SHORT,
        "borrowing_fee_base_factor_for_long" => DEFAULT_BORROWING_FEE_BASE_FACTOR_FOR_LONG,
        "borrowing_fee_base_factor_for_short" => DEFAULT_BORROWING_FEE_BASE_FACTOR_FOR_SHORT,
        "borrowing_fee_above_optimal_usage_factor_for_long" => DEFAULT_BORROWING_FEE_ABOVE_OPTIMAL_USAGE_FACTOR_FOR_LONG,
        "borrowing_fee_above_optimal_usage_factor_for_short" => DEFAULT_BORROWING_FEE_ABOVE_OPTIMAL_USAGE_FACTOR_FOR_SHORT,
        "funding_fee_exponent" => DEFAULT_FUNDING_FEE_EXPONENT,
        "funding_fee_factor" => DEFAULT_FUNDING_FEE_FACTOR,
        "funding_fee_max_factor_per_second" => DEFAULT_FUNDING_FEE_MAX_FACTOR_PER_SECOND,
        "funding_fee_min_factor_per_second" => DEFAULT_FUNDING_FEE_MIN_FACTOR_PER_SECOND,
        "funding_fee_increase_factor_per_second" => DEFAULT_FUNDING_FEE_INCREASE_FACTOR_PER_SECOND,
        "funding_fee_decrease_factor_per_second" => DEFAULT_FUNDING_FEE_DECREASE_FACTOR_PER_SECOND,
        "funding_fee_threshold_for_stable_funding" => DEFAULT_FUNDING_FEE_THRESHOLD_FOR_STABLE_FUNDING,
        "funding_fee_threshold_for_decrease_funding" => DEFAULT_FUNDING_FEE_THRESHOLD_FOR_DECREASE_FUNDING,
        "reserve_factor" => DEFAULT_RESERVE_FACTOR,
        "open_interest_reserve_factor" => DEFAULT_OPEN_INTEREST_RESERVE_FACTOR,
        "max_pnl_factor_for_long_deposit" => DEFAULT_MAX_PNL_FACTOR_FOR_LONG_DEPOSIT,
        "max_pnl_factor_for_short_deposit" => DEFAULT_MAX_PNL_FACTOR_FOR_SHORT_DEPOSIT,
        "max_pnl_factor_for_long_withdrawal" => DEFAULT_MAX_PNL_FACTOR_FOR_LONG_WITHDRAWAL,
        "max_pnl_factor_for_short_withdrawal" => DEFAULT_MAX_PNL_FACTOR_FOR_SHORT_WITHDRAWAL,
        "max_pnl_factor_for_long_trader" => DEFAULT_MAX_PNL_FACTOR_FOR_LONG_TRADER,
        "max_pnl_factor_for_short_trader" => DEFAULT_MAX_PNL_FACTOR_FOR_SHORT_TRADER,
        "max_pnl_factor_for_long_adl" => DEFAULT_MAX_PNL_FACTOR_FOR_LONG_ADL,
        "max_pnl_factor_for_short_adl" => DEFAULT_MAX_PNL_FACTOR_FOR_SHORT_ADL,
        "min_pnl_factor_after_long_adl" => DEFAULT_MIN_PNL_FACTOR_AFTER_LONG_ADL,
        "min_pnl_factor_after_short_adl" => DEFAULT_MIN_PNL_FACTOR_AFTER_SHORT_ADL,
        "max_pool_amount_for_long_token" => DEFAULT_MAX_POOL_AMOUNT_FOR_LONG_TOKEN,
        "max_pool_amount_for_short_token" => DEFAULT_MAX_POOL_AMOUNT_FOR_SHORT_TOKEN,
        "max_pool_value_for_deposit_for_long_token" => DEFAULT_MAX_POOL_VALUE_FOR_DEPOSIT_LONG_TOKEN,
        "max_pool_value_for_deposit_for_short_token" => DEFAULT_MAX_POOL_VALUE_FOR_DEPOSIT_SHORT_TOKEN,
        "max_open_interest_for_long" => DEFAULT_MAX_OPEN_INTEREST_FOR_LONG,
        "max_open_interest_for_short" => DEFAULT_MAX_OPEN_INTEREST_FOR_SHORT,
        "min_tokens_for_first_deposit" => DEFAULT_MIN_TOKENS_FOR_FIRST_DEPOSIT,
        "min_collateral_factor_for_liquidation" => DEFAULT_MIN_COLLATERAL_FACTOR_FOR_LIQUIDATION,
        // market-closed variants default to the corresponding open-market constants
        "market_closed_min_collateral_factor_for_liquidation" => DEFAULT_MIN_COLLATERAL_FACTOR_FOR_LIQUIDATION,
        "market_closed_borrowing_fee_base_factor" => DEFAULT_BORROWING_FEE_BASE_FACTOR_FOR_LONG,
        "market_closed_borrowing_fee_above_optimal_usage_factor" => DEFAULT_BORROWING_FEE_ABOVE_OPTIMAL_USAGE_FACTOR_FOR_LONG,
        _ => return None,
    })
}

pub fn documented_flag_default(flag: &str) -> Option<bool> {
    use gmsol_store::constants::*;
    Some(match flag {
        "skip_borrowing_fee_for_smaller_side" => DEFAULT_SKIP_BORROWING_FEE_FOR_SMALLER_SIDE,
        "market_closed_skip_borrowing_fee_for_smaller_side" => DEFAULT_SKIP_BORROWING_FEE_FOR_SMALLER_SIDE,
        "ignore_open_interest_for_usage_factor" => DEFAULT_IGNORE_OPEN_INTEREST_FOR_USAGE_FACTOR,
        // no documented default constant: must read false
        "enable_market_closed_params" => false,
        _ => return None,
    })
}

/// The market-model parameter each key names, evaluated through the model traits on an *open* market.
/// `fee` style factors are observed by charging a fee on one unit.
pub fn model_view(m: &Market) -> BTreeMap<&'static str, u128> {
    use gmsol_model::pool::delta::BalanceChange;
    let mut v: BTreeMap<&'static str, u128> = BTreeMap::new();
    let si = m.swap_impact_params().unwrap();
    v.insert("swap_impact_exponent", *si.exponent());
    v.insert("swap_impact_positive_factor", *si.positive_factor());
    v.insert("swap_impact_negative_factor", *si.negative_factor());
    let sf = m.swap_fee_params().unwrap();
    v.insert("swap_fee_receiver_factor", *sf.receiver_factor());
    if let (Some(a), Some(b)) = (sf.fee::<20>(BalanceChange::Improved, &UNIT), sf.fee::<20>(BalanceChange::Worsened, &UNIT)) {
        v.insert("swap_fee_factor_for_positive_impact", a);
        v.insert("swap_fee_factor_for_negative_impact", b);
    }
    let pp = m.position_params().unwrap();
    v.insert("min_position_size_usd", *pp.min_position_size_usd());
    v.insert("min_collateral_value", *pp.min_collateral_value());
    v.insert("min_collateral_factor", *pp.min_collateral_factor());
    v.insert("max_positive_position_impact_factor", *pp.max_positive_position_impact_factor());
    v.insert("max_negative_position_impact_factor", *pp.max_negative_position_impact_factor());
    v.insert("max_position_impact_factor_for_liquidations", *pp.max_position_impact_factor_for_liquidations());
    v.insert("min_collateral_factor_for_open_interest_multiplier_for_long", m.min_collateral_factor_for_open_interest_multiplier(true).unwrap());
    v.insert("min_collateral_factor_for_open_interest_multiplier_for_short", m.min_collateral_factor_for_open_interest_multiplier(false).unwrap());
    let pi = m.position_impact_params().unwrap();
    v.insert("position_impact_exponent", *pi.exponent());
    v.insert("position_impact_positive_factor", *pi.positive_factor());
    v.insert("position_impact_negative_factor", *pi.negative_factor());
    let of = m.order_fee_params().unwrap();
    v.insert("order_fee_receiver_factor", *of.receiver_factor());
    if let (Some(a), Some(b)) = (of.fee::<20>(BalanceChange::Improved, &UNIT), of.fee::<20>(BalanceChange::Worsened, &UNIT)) {
        v.insert("order_fee_factor_for_positive_impact", a);
        v.insert("order_fee_factor_for_negative_impact", b);
    }
    let lf = m.liquidation_fee_params().unwrap();
    let _ = lf;
    let pd = m.position_impact_distribution_params().unwrap();
    v.insert("position_impact_distribute_factor", *pd.distribute_factor());
    v.insert("min_position_impact_pool_amount", *pd.min_position_impact_pool_amount());
    let bf = m.borrowing_fee_params().unwrap();
    v.insert("borrowing_fee_receiver_factor", *bf.receiver_factor());
    v.insert("borrowing_fee_factor_for_long", *bf.factor(true));
    v.insert("borrowing_fee_factor_for_short", *bf.factor(false));
    v.insert("borrowing_fee_exponent_for_long", *bf.exponent(true));
    v.insert("borrowing_fee_exponent_for_short", *bf.exponent(false));
    let bk = m.borrowing_fee_kink_model_params().unwrap();
    v.insert("borrowing_fee_optimal_usage_factor_for_long", *bk.optimal_usage_factor(true));
    v.insert("borrowing_fee_optimal_usage_factor_for_short", *bk.optimal_usage_factor(false));
    v.insert("borrowing_fee_base_factor_for_long", *bk.base_borrowing_factor(true));
    v.insert("borrowing_fee_base_factor_for_short", *bk.base_borrowing_factor(false));
    v.insert("borrowing_fee_above_optimal_usage_factor_for_long", *bk.above_optimal_usage_borrowing_factor(true));
    v.insert("borrowing_fee_above_optimal_usage_factor_for_short", *bk.above_optimal_usage_borrowing_factor(false));
    let ff = m.funding_fee_params().unwrap();
    v.insert("funding_fee_exponent", *ff.exponent());
    v.insert("funding_fee_factor", *ff.factor());
    v.insert("funding_fee_max_factor_per_second", *ff.max_factor_per_second());
    v.insert("funding_fee_min_factor_per_second", *ff.min_factor_per_second());
    v.insert("funding_fee_increase_factor_per_second", *ff.increase_factor_per_second());
    v.insert("funding_fee_decrease_factor_per_second", *ff.decrease_factor_per_second());
    v.insert("funding_fee_threshold_for_stable_funding", *ff.threshold_for_stable_funding());
    v.insert("funding_fee_threshold_for_decrease_funding", *ff.threshold_for_decrease_funding());
    v.insert("reserve_factor", m.reserve_factor().unwrap());
    v.insert("open_interest_reserve_factor", m.open_interest_reserve_factor().unwrap());
    v.insert("max_pnl_factor_for_long_deposit", m.pnl_factor_config(PnlFactorKind::MaxAfterDeposit, true).unwrap());
    v.insert("max_pnl_factor_for_short_deposit", m.pnl_factor_config(PnlFactorKind::MaxAfterDeposit, false).unwrap());
    v.insert("max_pnl_factor_for_long_withdrawal", m.pnl_factor_config(PnlFactorKind::MaxAfterWithdrawal, true).unwrap());
    v.insert("max_pnl_factor_for_short_withdrawal", m.pnl_factor_config(PnlFactorKind::MaxAfterWithdrawal, false).unwrap());
    v.insert("max_pnl_factor_for_long_trader", m.pnl_factor_config(PnlFactorKind::MaxForTrader, true).unwrap());
    v.insert("max_pnl_factor_for_short_trader", m.pnl_factor_config(PnlFactorKind::MaxForTrader, false).unwrap());
    v.insert("max_pnl_factor_for_long_adl", m.pnl_factor_config(PnlFactorKind::ForAdl, true).unwrap());
    v.insert("max_pnl_factor_for_short_adl", m.pnl_factor_config(PnlFactorKind::ForAdl, false).unwrap());
    v.insert("min_pnl_factor_after_long_adl", m.pnl_factor_config(PnlFactorKind::MinAfterAdl, true).unwrap());
    v.insert("min_pnl_factor_after_short_adl", m.pnl_factor_config(PnlFactorKind::MinAfterAdl, false).unwrap());
    v.insert("max_pool_amount_for_long_token", m.max_pool_amount(true).unwrap());
    v.insert("max_pool_amount_for_short_token", m.max_pool_amount(false).unwrap());
    v.insert("max_pool_value_for_deposit_for_long_token", m.max_pool_value_for_deposit(true).unwrap());
    v.insert("max_pool_value_for_deposit_for_short_token", m.max_pool_value_for_deposit(false).unwrap());
    v.insert("max_open_interest_for_long", m.max_open_interest(true).unwrap());
    v.insert("max_open_interest_for_short", m.max_open_interest(false).unwrap());
    // `min_collateral_factor_for_liquidation`: 0 is reported as "unset" by the params object.
    v.insert("min_collateral_factor_for_liquidation", *pp.min_collateral_factor_for_liquidation());
    v
}

pub struct BufModel {
    pub key: Pubkey,
    pub authority: Pubkey,
    pub expiry: i64,
    pub entries: Vec<(String, u128)>,
}

pub struct Sim {
    pub w: World,
    pub d: Dep,
    pub who: BTreeMap<Who, Pubkey>,
    pub roles: BTreeMap<Who, BTreeSet<&'static str>>,
    pub updatable: BTreeSet<String>,
    pub updatable_flags: BTreeSet<String>,
    pub bufs: BTreeMap<usize, BufModel>,
    pub twins: bool,
    pub n_created: u64,
    pub stranger2: Pubkey,
}

impl Sim {
    pub fn new(cfg: &Cfg, obs: &mut Obs) -> Self {
        let mut w = World::new(1_700_000_000, 1000);
        let mut opts = DeployOpts::default();
        opts.tokens.push(TokenSpec { name: "BTC", decimals: 8, precision: 2, synthetic: true, schema: 3, heartbeat: 120 });
        opts.markets = vec![(0, 0, 1), (2, 0, 1)];
        if cfg.pure_market {
            opts.markets.push((0, 0, 0));
        } else {
            opts.markets.push((2, 1, 0));
        }
        opts.n_users = 0;
        let d = deploy_full(&mut w, &opts);
        let mut who = BTreeMap::new();
        let mut roles: BTreeMap<Who, BTreeSet<&'static str>> = BTreeMap::new();
        who.insert(Who::Keeper, d.keeper);
        roles.insert(Who::Keeper, chainsim::deploy::ALL_ROLES.iter().copied().collect());
        who.insert(Who::Admin, d.admin);
        roles.insert(Who::Admin, BTreeSet::new());
        for (wh, role) in [(Who::MarketKeeper, Some("MARKET_KEEPER")), (Who::MarketConfigKeeper, Some("MARKET_CONFIG_KEEPER")), (Who::ConfigKeeper, Some("CONFIG_KEEPER")), (Who::Stranger, None)] {
            let k = w.new_key("who");
            w.fund(&k, 100_000_000_000);
            let mut set = BTreeSet::new();
            if let Some(r) = role {
                let out = w.process(store_ix(
                    gmsol_store::accounts::GrantRole { authority: d.admin, store: d.store },
                    gmsol_store::instruction::GrantRole { user: k, role: r.to_string() },
                ));
                assert!(out.ok, "grant {r}");
                set.insert(r);
            }
            who.insert(wh, k);
            roles.insert(wh, set);
        }
        let stranger2 = w.new_key("stranger2");
        w.fund(&stranger2, 100_000_000_000);
        let mut s = Sim { w, d, who, roles, updatable: BTreeSet::new(), updatable_flags: BTreeSet::new(), bufs: BTreeMap::new(), twins: cfg.twins, n_created: 0, stranger2 };
        // C17: the deployed markets are inspected too.
        for i in 0..s.d.markets.len() {
            let m = s.d.markets[i].clone();
            s.check_defaults(&m.market, m.long == m.short, obs);
        }
        s
    }

    fn has(&self, w: Who, role: &str) -> bool {
        self.roles[&w].contains(role)
    }

    fn market(&self, i: usize) -> Pubkey {
        self.d.markets[i % self.d.markets.len()].market
    }

    fn run(&mut self, ix: Instruction, by: Who, op: &str, obs: &mut Obs) -> (TxOutcome, World) {
        let pre = self.w.clone();
        let out = self.w.process(ix);
        obs.outcome(&format!("{by:?}"), op, &out.class());
        obs.event(|| format!("{op} by={by:?} -> {}", out.class()));
        (out, pre)
    }

    /// C19 twins for a landed privileged configuration instruction.
    fn twins_of(&mut self, pre: &World, ix: &Instruction, signer: &Pubkey, required: &[&str], name: &str, obs: &mut Obs) {
        if !self.twins {
            return;
        }
        let forged = |to: &Pubkey| {
            let mut f = ix.clone();
            for m in f.accounts.iter_mut() {
                if m.pubkey == *signer {
                    m.pubkey = *to;
                }
            }
            f
        };
        let mut f = pre.clone();
        let out = f.process(forged(&self.stranger2));
        obs.fault("byzantine_twin_no_role");
        obs.probe(&format!("c19_twin:{name}"));
        obs.require(!out.ok, "C19", "stranger_accepted", || format!("ix={name},variant=no_role"), || format!("{name} signed by an address with no role succeeded"));
        // every role except the required ones
        let mut f = pre.clone();
        let x = self.stranger2;
        for r in chainsim::deploy::ALL_ROLES {
            if required.contains(r) {
                continue;
            }
            let o = f.process(store_ix(
                gmsol_store::accounts::GrantRole { authority: self.d.admin, store: self.d.store },
                gmsol_store::instruction::GrantRole { user: x, role: r.to_string() },
            ));
            if !o.ok {
                return;
            }
        }
        let out = f.process(forged(&x));
        obs.fault("byzantine_twin_every_other_role");
        obs.require(!out.ok, "C19", "stranger_accepted", || format!("ix={name},variant=every_other_role"), || format!("{name} signed by a holder of every role except {required:?} succeeded"));
    }

    fn read_market(&self, k: &Pubkey) -> Option<Market> {
        read_pod(&self.w, k)
    }

    /// All config values and flags of a market as read through the keys.
    fn snapshot(&self, k: &Pubkey) -> Option<(BTreeMap<String, u128>, BTreeMap<String, bool>)> {
        let m = self.read_market(k)?;
        let mut vals = BTreeMap::new();
        for key in MarketConfigKey::iter() {
            if let Some(v) = m.get_config_by_key(key) {
                vals.insert(key.to_string(), *v);
            }
        }
        let mut flags = BTreeMap::new();
        for f in MarketConfigFlag::iter() {
            flags.insert(f.to_string(), m.get_config_flag_by_key(f));
        }
        Some((vals, flags))
    }

    /// C16: after a successful write of `changes`, every changed key reads the value, through the key
    /// and through the model parameter it names, and nothing else changed.
    fn check_write(&mut self, market: &Pubkey, pre: &World, changes: &BTreeMap<String, u128>, flag_changes: &BTreeMap<String, bool>, obs: &mut Obs) {
        let before = {
            let m: Option<Market> = read_pod(pre, market);
            let Some(m) = m else { return };
            let mut vals = BTreeMap::new();
            for key in MarketConfigKey::iter() {
                if let Some(v) = m.get_config_by_key(key) {
                    vals.insert(key.to_string(), *v);
                }
            }
            let mut flags = BTreeMap::new();
            for f in MarketConfigFlag::iter() {
                flags.insert(f.to_string(), m.get_config_flag_by_key(f));
            }
            (vals, flags, model_view(&m), m)
        };
        let Some((vals, flags)) = self.snapshot(market) else { return };
        let m_after = self.read_market(market).unwrap();
        let view = model_view(&m_after);
        for (k, v) in &vals {
            let want = changes.get(k).copied().unwrap_or(before.0[k]);
            obs.require(*v == want, "C16", "key_read_back", || format!("key={k},written={}", changes.contains_key(k)), || format!("key {k}: reads {v}, expected {want} after writing {changes:?}"));
        }
        for (k, v) in &flags {
            let want = flag_changes.get(k).copied().unwrap_or(before.1[k]);
            obs.require(*v == want, "C16", "flag_read_back", || format!("flag={k},written={}", flag_changes.contains_key(k)), || format!("flag {k}: reads {v}, expected {want} after writing {flag_changes:?}"));
        }
        // model parameters (open market): the parameter named by the key shows the value, others keep theirs
        let closed = m_after.is_closed();
        if !closed {
            for (name, got) in &view {
                let mut want = match changes.get(*name) {
                    Some(v) => *v,
                    None => before.2[name],
                };
                if *name == "min_collateral_factor_for_liquidation" {
                    // documented: an unset (zero) liquidation factor falls back to `min_collateral_factor`
                    let raw = vals["min_collateral_factor_for_liquidation"];
                    want = if raw == 0 { vals["min_collateral_factor"] } else { raw };
                }
                // fee factors are observed through a fee charged on one unit: exact for factors <= 100 %
                let observable = !name.contains("fee_factor_for_") || want <= UNIT;
                if observable {
                    obs.require(*got == want, "C16", "model_parameter", || format!("param={name},written={}", changes.contains_key(*name)), || format!("model parameter {name}: {got}, expected {want} after writing {changes:?}"));
                }
            }
            // flags feeding the model
            use gmsol_model::BorrowingFeeMarket;
            let skip = m_after.borrowing_fee_params().unwrap().skip_borrowing_fee_for_smaller_side();
            obs.require(skip == flags["skip_borrowing_fee_for_smaller_side"], "C16", "model_flag", || "flag=skip_borrowing_fee_for_smaller_side".into(), || format!("open market: model skip flag {skip} vs key {}", flags["skip_borrowing_fee_for_smaller_side"]));
            let ign = m_after.ignore_open_interest_for_usage_factor().unwrap();
            obs.require(ign == flags["ignore_open_interest_for_usage_factor"], "C16", "model_flag", || "flag=ignore_open_interest_for_usage_factor".into(), || format!("model ignore-OI flag {ign} vs key"));
        }
        // closed-market parameter switch: what-if on the account's own bytes with MarketFlag::Closed set.
        // The four closed-market settings replace their open-market counterparts exactly when
        // `enable_market_closed_params` is set; every other parameter is unaffected by the closed state.
        {
            use gmsol_model::BorrowingFeeMarket;
            use gmsol_utils::market::MarketFlag;
            let mut mc = m_after;
            mc.set_flag(MarketFlag::Closed, true);
            let cview = model_view(&mc);
            let open_view = {
                let mut mo = m_after;
                mo.set_flag(MarketFlag::Closed, false);
                model_view(&mo)
            };
            let use_closed = flags["enable_market_closed_params"];
            for (name, got) in &cview {
                let want = match *name {
                    "borrowing_fee_base_factor_for_long" | "borrowing_fee_base_factor_for_short" if use_closed => vals["market_closed_borrowing_fee_base_factor"],
                    "borrowing_fee_above_optimal_usage_factor_for_long" | "borrowing_fee_above_optimal_usage_factor_for_short" if use_closed => vals["market_closed_borrowing_fee_above_optimal_usage_factor"],
                    "min_collateral_factor_for_liquidation" => {
                        let raw = if use_closed { vals["market_closed_min_collateral_factor_for_liquidation"] } else { vals["min_collateral_factor_for_liquidation"] };
                        if raw == 0 {
                            vals["min_collateral_factor"]
                        } else {
                            raw
                        }
                    }
                    _ => open_view[name],
                };
                obs.require(*got == want, "C16", "closed_market_parameter", || format!("param={name},enabled={use_closed}"), || format!("closed market (enable_market_closed_params={use_closed}): model parameter {name} = {got}, expected {want}"));
            }
            let skip = mc.borrowing_fee_params().unwrap().skip_borrowing_fee_for_smaller_side();
            let want = if use_closed { flags["market_closed_skip_borrowing_fee_for_smaller_side"] } else { flags["skip_borrowing_fee_for_smaller_side"] };
            obs.require(skip == want, "C16", "closed_market_flag", || format!("flag=skip_borrowing_fee_for_smaller_side,enabled={use_closed}"), || format!("closed market (enable_market_closed_params={use_closed}): model skip flag {skip}, expected {want}"));
            obs.probe(if use_closed { "c16_closed_switch_enabled_checked" } else { "c16_closed_switch_disabled_checked" });
            if flags["market_closed_skip_borrowing_fee_for_smaller_side"] != flags["skip_borrowing_fee_for_smaller_side"] {
                obs.probe("c16_closed_skip_flags_differ");
            }
        }
        // nothing but the config region of the account changed
        let a = &pre.accounts[market].data;
        let b = &self.w.accounts[market].data;
        let ndiff = a.iter().zip(b.iter()).filter(|(x, y)| x != y).count();
        obs.require(a.len() == b.len() && ndiff <= 16 * (changes.len() + flag_changes.len()).max(1), "C16", "bytes_changed", || "bytes".into(), || format!("{ndiff} bytes of the market account changed for {} writes", changes.len() + flag_changes.len()));
        let _ = before.3;
    }

    /// C17: documented defaults right after initialisation.
    pub fn check_defaults(&mut self, market: &Pubkey, pure: bool, obs: &mut Obs) {
        let Some(m) = self.read_market(market) else { return };
        for key in MarketConfigKey::iter() {
            let name = key.to_string();
            let got = m.get_config_by_key(key).copied();
            let want = documented_default(&name);
            match (got, want) {
                (Some(g), Some(w)) => {
                    obs.require(g == w, "C17", "default_value", || format!("key={name}"), || format!("new market: {name} = {g}, documented default {w}"));
                }
                (Some(g), None) => {
                    obs.require(g == 0, "C17", "default_value", || format!("key={name},undocumented=true"), || format!("new market: {name} = {g} but no documented default exists"));
                }
                (None, _) => {
                    obs.require(false, "C17", "key_unreadable", || format!("key={name}"), || format!("new market: key {name} cannot be read"));
                }
            }
        }
        for f in MarketConfigFlag::iter() {
            let name = f.to_string();
            let got = m.get_config_flag_by_key(f);
            if let Some(w) = documented_flag_default(&name) {
                obs.require(got == w, "C17", "default_flag", || format!("flag={name}"), || format!("new market: flag {name} = {got}, documented default {w}"));
            }
        }
        obs.require(m.is_pure() == pure, "C17", "pure_flag", || format!("pure={pure}"), || format!("market purity {} expected {pure}", m.is_pure()));
        // pools: zero amounts; pure exactly when the tokens coincide, except the always-impure kinds
        use gmsol_model::{Balance, PoolKind};
        for kind in PoolKind::iter() {
            let Some(p) = m.pool(kind) else { continue };
            let (l, s) = (p.long_amount().unwrap_or(1), p.short_amount().unwrap_or(1));
            obs.require(l == 0 && s == 0, "C17", "pool_not_empty", || format!("kind={kind}"), || format!("new market pool {kind}: long={l} short={s}"));
            let always_impure = matches!(kind, PoolKind::PositionImpact | PoolKind::BorrowingFactor | PoolKind::TotalBorrowing);
            let want_pure = pure && !always_impure;
            // observe purity behaviourally: on a pure pool a delta of 2 on the long side shows up split
            let mut q = p;
            use gmsol_model::Pool as _;
            let _ = q.apply_delta_to_long_amount(&2);
            let behaves_pure = q.short_amount().unwrap_or(0) == 1 && q.long_amount().unwrap_or(0) == 1;
            obs.require(behaves_pure == want_pure, "C17", "pool_purity", || format!("kind={kind},pure_market={pure}"), || format!("pool {kind} behaves pure={behaves_pure}, expected {want_pure}"));
        }
        obs.probe(if pure { "c17_pure_market_inspected" } else { "c17_impure_market_inspected" });
    }

    pub fn step(&mut self, s: &Step, obs: &mut Obs) {
        match s {
            Step::Advance { secs } => {
                self.w.advance((*secs as u64 / 2).max(1), *secs);
                obs.sim_seconds += *secs as u64;
                if *secs > 86_400 {
                    obs.fault("clock_jump");
                }
                if *secs == 0 {
                    obs.fault("clock_stall");
                }
            }
            Step::SetConfig { by, market, key, value } => {
                let signer = self.who[by];
                let mk = self.market(*market);
                let ix = store_ix(
                    gmsol_store::accounts::UpdateMarketConfig { authority: signer, store: self.d.store, market: mk },
                    gmsol_store::instruction::UpdateMarketConfig { key: key.clone(), value: *value },
                );
                let valid_key = market_keys().contains(key);
                let allowed = self.has(*by, "MARKET_KEEPER") || (self.has(*by, "MARKET_CONFIG_KEEPER") && self.updatable.contains(key));
                let (out, pre) = self.run(ix.clone(), *by, "update_market_config", obs);
                obs.fingerprint(&[2, simcore::rng::hash_str(key), *by as u64, out.ok as u64]);
                obs.require(!out.ok || (allowed && valid_key), "C20", "config_update_not_allowed", || format!("signer={by:?},updatable={}", self.updatable.contains(key)), || format!("update_market_config({key}) by {by:?} succeeded; policy allowed={allowed} valid_key={valid_key}"));
                obs.require(out.ok || !(allowed && valid_key), "C20", "config_update_rejected", || format!("signer={by:?},updatable={}", self.updatable.contains(key)), || format!("update_market_config({key}) by {by:?} failed with {} although the policy allows it", out.class()));
                if out.ok {
                    let mut ch = BTreeMap::new();
                    ch.insert(key.clone(), *value);
                    self.check_write(&mk, &pre, &ch, &BTreeMap::new(), obs);
                    let req: Vec<&str> = if self.updatable.contains(key) { vec!["MARKET_KEEPER", "MARKET_CONFIG_KEEPER"] } else { vec!["MARKET_KEEPER"] };
                    self.twins_of(&pre, &ix, &signer, &req, "update_market_config", obs);
                    if !self.has(*by, "MARKET_KEEPER") {
                        obs.probe("config_keeper_updated_updatable_key");
                    }
                } else if self.has(*by, "MARKET_CONFIG_KEEPER") && !self.has(*by, "MARKET_KEEPER") && valid_key {
                    obs.probe("config_keeper_rejected_non_updatable_key");
                }
            }
            Step::SetFlag { by, market, flag, value } => {
                let signer = self.who[by];
                let mk = self.market(*market);
                let ix = store_ix(
                    gmsol_store::accounts::UpdateMarketConfig { authority: signer, store: self.d.store, market: mk },
                    gmsol_store::instruction::UpdateMarketConfigFlag { key: flag.clone(), value: *value },
                );
                let allowed = self.has(*by, "MARKET_KEEPER") || (self.has(*by, "MARKET_CONFIG_KEEPER") && self.updatable_flags.contains(flag));
                let (out, pre) = self.run(ix.clone(), *by, "update_market_config_flag", obs);
                obs.require(out.ok == allowed, "C20", if out.ok { "flag_update_not_allowed" } else { "flag_update_rejected" }, || format!("signer={by:?},updatable={}", self.updatable_flags.contains(flag)), || format!("update_market_config_flag({flag}) by {by:?}: {} but policy allowed={allowed}", out.class()));
                if out.ok {
                    let mut ch = BTreeMap::new();
                    ch.insert(flag.clone(), *value);
                    self.check_write(&mk, &pre, &BTreeMap::new(), &ch, obs);
                    let req: Vec<&str> = if self.updatable_flags.contains(flag) { vec!["MARKET_KEEPER", "MARKET_CONFIG_KEEPER"] } else { vec!["MARKET_KEEPER"] };
                    self.twins_of(&pre, &ix, &signer, &req, "update_market_config_flag", obs);
                }
            }
            Step::SetUpdatable { by, is_flag, key, updatable } => {
                let signer = self.who[by];
                let ix = store_ix(
                    gmsol_store::accounts::SetMarketConfigUpdatable { authority: signer, store: self.d.store },
                    gmsol_store::instruction::SetMarketConfigUpdatable { is_flag: *is_flag, key: key.clone(), updatable: *updatable },
                );
                let (out, pre) = self.run(ix.clone(), *by, "set_market_config_updatable", obs);
                obs.require(!out.ok || self.has(*by, "MARKET_KEEPER"), "C20", "updatable_set_by_non_keeper", || format!("signer={by:?}"), || format!("set_market_config_updatable by {by:?} succeeded"));
                if out.ok {
                    let set = if *is_flag { &mut self.updatable_flags } else { &mut self.updatable };
                    if *updatable {
                        set.insert(key.clone());
                    } else {
                        set.remove(key);
                    }
                    self.twins_of(&pre, &ix, &signer, &["MARKET_KEEPER"], "set_market_config_updatable", obs);
                }
            }
            Step::BufInit { by, slot, expire_secs } => {
                let signer = self.who[by];
                let key = self.w.new_key("buffer");
                let ix = store_ix(
                    gmsol_store::accounts::InitializeMarketConfigBuffer { authority: signer, store: self.d.store, buffer: key, system_program: system_program::ID },
                    gmsol_store::instruction::InitializeMarketConfigBuffer { expire_after_secs: *expire_secs },
                );
                // the new buffer account must sign its own creation
                let mut ix = ix;
                for m in ix.accounts.iter_mut() {
                    if m.pubkey == key {
                        m.is_signer = true;
                    }
                }
                let (out, _) = self.run(ix, *by, "initialize_market_config_buffer", obs);
                if out.ok {
                    let expiry = self.w.clock.unix_timestamp.saturating_add(*expire_secs as i64);
                    self.bufs.insert(*slot, BufModel { key, authority: signer, expiry, entries: vec![] });
                }
            }
            Step::BufPush { by, slot, entries } => {
                let Some(b) = self.bufs.get(slot) else { return };
                let (bkey, bauth) = (b.key, b.authority);
                let signer = self.who[by];
                let ix = store_ix(
                    gmsol_store::accounts::PushToMarketConfigBuffer { authority: signer, buffer: bkey, system_program: system_program::ID },
                    gmsol_store::instruction::PushToMarketConfigBuffer {
                        new_configs: entries.iter().map(|(k, v)| gmsol_store::states::market::config::EntryArgs { key: k.clone(), value: *v }).collect(),
                    },
                );
                let (out, _) = self.run(ix, *by, "push_to_market_config_buffer", obs);
                obs.require(!out.ok || signer == bauth, "C20", "buffer_pushed_by_non_authority", || format!("signer={by:?}"), || "push_to_market_config_buffer by a non-authority succeeded".to_string());
                if out.ok {
                    let b = self.bufs.get_mut(slot).unwrap();
                    for (k, v) in entries {
                        // the buffer is a map: a later entry for the same key replaces the earlier one
                        if let Some(e) = b.entries.iter_mut().find(|e| e.0 == *k) {
                            e.1 = *v;
                        } else {
                            b.entries.push((k.clone(), *v));
                        }
                    }
                }
            }
            Step::BufSetAuthority { by, slot, to } => {
                let Some(b) = self.bufs.get(slot) else { return };
                let (bkey, bauth) = (b.key, b.authority);
                let signer = self.who[by];
                let new_authority = self.who[to];
                let ix = store_ix(
                    gmsol_store::accounts::SetMarketConfigBufferAuthority { authority: signer, buffer: bkey },
                    gmsol_store::instruction::SetMarketConfigBufferAuthority { new_authority },
                );
                let (out, _) = self.run(ix, *by, "set_market_config_buffer_authority", obs);
                obs.require(!out.ok || signer == bauth, "C20", "buffer_authority_changed_by_non_authority", || format!("signer={by:?}"), || "set_market_config_buffer_authority by a non-authority succeeded".to_string());
                if out.ok {
                    self.bufs.get_mut(slot).unwrap().authority = new_authority;
                }
            }
            Step::BufClose { by, slot } => {
                let Some(b) = self.bufs.get(slot) else { return };
                let (bkey, bauth) = (b.key, b.authority);
                let signer = self.who[by];
                let ix = store_ix(
                    gmsol_store::accounts::CloseMarketConfigBuffer { authority: signer, buffer: bkey, receiver: signer },
                    gmsol_store::instruction::CloseMarketConfigBuffer {},
                );
                let (out, _) = self.run(ix, *by, "close_market_config_buffer", obs);
                obs.require(!out.ok || signer == bauth, "C20", "buffer_closed_by_non_authority", || format!("signer={by:?}"), || "close_market_config_buffer by a non-authority succeeded".to_string());
                if out.ok {
                    self.bufs.remove(slot);
                }
            }
            Step::BufApply { by, slot, market } => {
                let Some(b) = self.bufs.get(slot) else { return };
                let (bkey, bauth, expiry, entries) = (b.key, b.authority, b.expiry, b.entries.clone());
                let signer = self.who[by];
                let mk = self.market(*market);
                let ix = store_ix(
                    gmsol_store::accounts::UpdateMarketConfigWithBuffer { authority: signer, store: self.d.store, market: mk, buffer: bkey },
                    gmsol_store::instruction::UpdateMarketConfigWithBuffer {},
                );
                let now = self.w.clock.unix_timestamp;
                let expired = now >= expiry;
                let is_mk = self.has(*by, "MARKET_KEEPER");
                let is_mck = self.has(*by, "MARKET_CONFIG_KEEPER");
                let all_updatable = entries.iter().all(|(k, _)| self.updatable.contains(k));
                let allowed = signer == bauth && !expired && (is_mk || (is_mck && all_updatable));
                let (out, pre) = self.run(ix.clone(), *by, "update_market_config_with_buffer", obs);
                if expired {
                    obs.fault("buffer_expired_before_apply");
                }
                if is_mck && !is_mk && !all_updatable && signer == bauth && !expired {
                    obs.probe("buffer_with_non_updatable_entry_by_config_keeper");
                }
                obs.require(!out.ok || allowed, "C20", "buffer_applied_against_policy", || format!("signer={by:?},expired={expired},all_updatable={all_updatable},is_authority={}", signer == bauth), || format!("update_market_config_with_buffer by {by:?} succeeded: expired={expired} (now={now}, expiry={expiry}) all_updatable={all_updatable} authority_ok={}", signer == bauth));
                obs.require(out.ok || !allowed, "C20", "buffer_rejected_against_policy", || format!("signer={by:?}"), || format!("update_market_config_with_buffer by {by:?} failed with {} although allowed (entries {entries:?})", out.class()));
                if out.ok {
                    let ch: BTreeMap<String, u128> = entries.iter().cloned().collect();
                    self.check_write(&mk, &pre, &ch, &BTreeMap::new(), obs);
                    obs.probe("buffer_applied");
                    let req: Vec<&str> = if all_updatable { vec!["MARKET_KEEPER", "MARKET_CONFIG_KEEPER"] } else { vec!["MARKET_KEEPER"] };
                    // C19 twins: the buffer is first handed to the twin signer (on the fork) so that only the
                    // role check stands between the twin and the market
                    if self.twins {
                        let x = self.stranger2;
                        let hand_over = store_ix(
                            gmsol_store::accounts::SetMarketConfigBufferAuthority { authority: signer, buffer: bkey },
                            gmsol_store::instruction::SetMarketConfigBufferAuthority { new_authority: x },
                        );
                        let mut forged = ix.clone();
                        for m in forged.accounts.iter_mut() {
                            if m.pubkey == signer {
                                m.pubkey = x;
                            }
                        }
                        for variant in ["no_role", "every_other_role"] {
                            let mut f = pre.clone();
                            if variant == "every_other_role" {
                                let mut granted = true;
                                for r in chainsim::deploy::ALL_ROLES {
                                    if req.contains(r) {
                                        continue;
                                    }
                                    let o = f.process(store_ix(
                                        gmsol_store::accounts::GrantRole { authority: self.d.admin, store: self.d.store },
                                        gmsol_store::instruction::GrantRole { user: x, role: r.to_string() },
                                    ));
                                    granted &= o.ok;
                                }
                                if !granted {
                                    continue;
                                }
                            }
                            if !f.process(hand_over.clone()).ok {
                                continue;
                            }
                            let o = f.process(forged.clone());
                            obs.fault(if variant == "no_role" { "byzantine_twin_no_role" } else { "byzantine_twin_every_other_role" });
                            obs.probe("c19_twin:update_market_config_with_buffer");
                            obs.require(!o.ok, "C19", "stranger_accepted", || format!("ix=update_market_config_with_buffer,variant={variant}"), || format!("update_market_config_with_buffer (all_updatable={all_updatable}) signed by a new buffer authority holding {variant} (required {req:?}) succeeded"));
                        }
                    }
                }
                obs.require(!out.ok || is_mk || (is_mck && all_updatable), "C19", "stranger_accepted", || "ix=update_market_config_with_buffer,variant=scheduled".into(), || format!("update_market_config_with_buffer by {by:?} (market keeper={is_mk}, config keeper={is_mck}) succeeded with all_updatable={all_updatable}"));
            }
            Step::InsertAmount { by, key, value } => {
                let signer = self.who[by];
                let ix = store_ix(
                    gmsol_store::accounts::InsertConfig { authority: signer, store: self.d.store },
                    gmsol_store::instruction::InsertAmount { key: key.clone(), amount: *value },
                );
                let before: Option<Store> = read_pod(&self.w, &self.d.store);
                let (out, pre) = self.run(ix.clone(), *by, "insert_amount", obs);
                obs.require(!out.ok || self.has(*by, "CONFIG_KEEPER"), "C19", "stranger_accepted", || "ix=insert_amount,variant=scheduled".into(), || format!("insert_amount by {by:?} succeeded"));
                if out.ok {
                    let after: Store = read_pod(&self.w, &self.d.store).unwrap();
                    let before = before.unwrap();
                    for k in AmountKey::iter() {
                        let name = k.to_string();
                        let got = after.get_amount_by_key(k).copied();
                        let want = if name == *key { Some(*value) } else { before.get_amount_by_key(k).copied() };
                        obs.require(got == want, "C16", "store_amount_read_back", || format!("key={name},written={}", name == *key), || format!("store amount {name}: {got:?}, expected {want:?} after insert_amount({key}, {value})"));
                    }
                    for k in FactorKey::iter() {
                        obs.require(after.get_factor_by_key(k) == before.get_factor_by_key(k), "C16", "store_factor_disturbed", || format!("key={k}"), || format!("insert_amount({key}) changed factor {k}"));
                    }
                    self.twins_of(&pre, &ix, &signer, &["CONFIG_KEEPER"], "insert_amount", obs);
                }
            }
            Step::InsertFactor { by, key, value } => {
                let signer = self.who[by];
                let ix = store_ix(
                    gmsol_store::accounts::InsertConfig { authority: signer, store: self.d.store },
                    gmsol_store::instruction::InsertFactor { key: key.clone(), factor: *value },
                );
                let before: Option<Store> = read_pod(&self.w, &self.d.store);
                let (out, pre) = self.run(ix.clone(), *by, "insert_factor", obs);
                obs.require(!out.ok || self.has(*by, "CONFIG_KEEPER"), "C19", "stranger_accepted", || "ix=insert_factor,variant=scheduled".into(), || format!("insert_factor by {by:?} succeeded"));
                if out.ok {
                    let after: Store = read_pod(&self.w, &self.d.store).unwrap();
                    let before = before.unwrap();
                    for k in FactorKey::iter() {
                        let name = k.to_string();
                        let got = after.get_factor_by_key(k).copied();
                        let want = if name == *key { Some(*value) } else { before.get_factor_by_key(k).copied() };
                        obs.require(got == want, "C16", "store_factor_read_back", || format!("key={name},written={}", name == *key), || format!("store factor {name}: {got:?}, expected {want:?} after insert_factor({key}, {value})"));
                    }
                    for k in AmountKey::iter() {
                        obs.require(after.get_amount_by_key(k) == before.get_amount_by_key(k), "C16", "store_amount_disturbed", || format!("key={k}"), || format!("insert_factor({key}) changed amount {k}"));
                    }
                    self.twins_of(&pre, &ix, &signer, &["CONFIG_KEEPER"], "insert_factor", obs);
                }
            }
            Step::InsertAddress { by, key, value } => {
                let signer = self.who[by];
                let addr = Pubkey::new_from_array([*value + 1; 32]);
                let ix = store_ix(
                    gmsol_store::accounts::InsertConfig { authority: signer, store: self.d.store },
                    gmsol_store::instruction::InsertAddress { key: key.clone(), address: addr },
                );
                let (out, pre) = self.run(ix.clone(), *by, "insert_address", obs);
                obs.require(!out.ok || self.has(*by, "CONFIG_KEEPER"), "C19", "stranger_accepted", || "ix=insert_address,variant=scheduled".into(), || format!("insert_address by {by:?} succeeded"));
                if out.ok {
                    let after: Store = read_pod(&self.w, &self.d.store).unwrap();
                    for k in AddressKey::iter() {
                        if k.to_string() == *key {
                            let got = after.get_address_by_key(k).copied();
                            obs.require(got == Some(addr), "C16", "store_address_read_back", || format!("key={key}"), || format!("store address {key}: {got:?}, expected {addr}"));
                        }
                    }
                    self.twins_of(&pre, &ix, &signer, &["CONFIG_KEEPER"], "insert_address", obs);
                }
            }
            Step::CreateMarket { by, name, pure } => {
                let signer = self.who[by];
                self.n_created += 1;
                // a fresh synthetic index token so that the market PDA is new
                let index = self.w.new_key("index");
                let t = TokenInfo { mint: index, decimals: 8, precision: 2, name: "IDX".into(), feed_id: chainsim::deploy::feed_id_for(3, 200), price_feed: Pubkey::default(), synthetic: true, schema: 3, heartbeat: 120 };
                let o = self.w.process(push_token_ix(&self.d, &t, &format!("IDX{}", self.n_created), true, true));
                if !o.ok {
                    return;
                }
                let long = self.d.tokens[0].mint;
                let short = if *pure { long } else { self.d.tokens[1].mint };
                let (mut ix, market, _mt) = init_market_ix(&self.d, &index, &long, &short, name, true);
                for m in ix.accounts.iter_mut() {
                    if m.pubkey == self.d.keeper {
                        m.pubkey = signer;
                    }
                }
                let (out, pre) = self.run(ix.clone(), *by, "initialize_market", obs);
                obs.require(!out.ok || self.has(*by, "MARKET_KEEPER"), "C19", "stranger_accepted", || "ix=initialize_market,variant=scheduled".into(), || format!("initialize_market by {by:?} succeeded"));
                if name.len() > 64 {
                    obs.require(!out.ok, "C35", "overlong_name_accepted", || "kind=market".into(), || format!("market name of {} bytes accepted", name.len()));
                }
                if out.ok {
                    self.check_defaults(&market, *pure, obs);
                    // C35: the accepted market name reads back
                    let m = self.read_market(&market).unwrap();
                    let got = m.name().ok().map(|s| s.to_string());
                    let key = format!("kind=market,len={},nul={}", name.len(), name.as_bytes().contains(&0));
                    obs.require(got.as_deref() == Some(name.as_str()), "C35", "unreadable_name", || key.clone(), || format!("market name {:?} accepted, reads back {:?}", name, got));
                    if name.len() == 64 {
                        obs.probe("name_exactly_capacity_accepted");
                    }
                    self.twins_of(&pre, &ix, &signer, &["MARKET_KEEPER"], "initialize_market", obs);
                }
            }
            Step::PushToken { by, name } => {
                let signer = self.who[by];
                let mint = self.w.new_key("synthetic");
                let t = TokenInfo { mint, decimals: 8, precision: 2, name: name.clone(), feed_id: chainsim::deploy::feed_id_for(3, 201), price_feed: Pubkey::default(), synthetic: true, schema: 3, heartbeat: 120 };
                let mut ix = push_token_ix(&self.d, &t, name, true, true);
                for m in ix.accounts.iter_mut() {
                    if m.pubkey == self.d.keeper {
                        m.pubkey = signer;
                    }
                }
                let (out, pre) = self.run(ix.clone(), *by, "push_to_token_map_synthetic", obs);
                obs.require(!out.ok || self.has(*by, "MARKET_KEEPER"), "C19", "stranger_accepted", || "ix=push_to_token_map_synthetic,variant=scheduled".into(), || format!("push_to_token_map_synthetic by {by:?} succeeded"));
                if name.len() > 32 {
                    obs.require(!out.ok, "C35", "overlong_name_accepted", || "kind=token".into(), || format!("token name of {} bytes accepted", name.len()));
                }
                if out.ok {
                    // read back through the program's `token_name` instruction
                    let q = self.w.process(store_ix(
                        gmsol_store::accounts::ReadTokenMap { token_map: self.d.token_map },
                        gmsol_store::instruction::TokenName { token: mint },
                    ));
                    let got: Option<String> = if q.ok {
                        q.return_data.as_ref().and_then(|(_, d)| <String as anchor_lang::AnchorDeserialize>::try_from_slice(d).ok())
                    } else {
                        None
                    };
                    let key = format!("kind=token,len={},nul={}", name.len(), name.as_bytes().contains(&0));
                    obs.require(got.as_deref() == Some(name.as_str()), "C35", "unreadable_name", || key.clone(), || format!("token name {:?} accepted, token_name returns {:?} ({})", name, got, q.class()));
                    if name.len() == 32 {
                        obs.probe("name_exactly_capacity_accepted");
                    }
                    self.twins_of(&pre, &ix, &signer, &["MARKET_KEEPER"], "push_to_token_map_synthetic", obs);
                }
            }
        }
    }
}
