//! Scenario crate `scn-admin`: role table, privileged-instruction twins, names, configuration keys.

pub mod config;
pub mod roles;

use simcore::{CheckSpec, Part};

pub const PROPERTIES: &[&str] = &["C16", "C17", "C18", "C19", "C20", "C35"];

const CHAIN_ASSUMPTIONS: &[&str] = &[
    "programs run natively on the host, not in the SBF VM: compute budget, stack/heap limits and transaction size are not modelled",
    "signatures are not verified (a signer is a flag on the account meta); the runtime stub enforces Solana's privilege rules (message-wide signer/writable sets, PDA signing, read-only accounts, lamport conservation, rent exemption)",
    "a clean batch is evidence over the sampled plans, not a proof",
];

fn assumptions(extra: &[&str]) -> Vec<String> {
    CHAIN_ASSUMPTIONS.iter().chain(extra.iter()).map(|s| s.to_string()).collect()
}

pub fn registry(property: &str) -> Option<CheckSpec> {
    match property {
        "C18" => Some(CheckSpec {
            property: "C18",
            level: "exploration",
            parts: vec![Part::new(roles::Roles, 6_000, 200_000)],
            assumptions: assumptions(&["the reference is a set model (enabled roles, granted pairs, authority, acknowledged restart slot) transcribed from the property statement and the documented instruction semantics"]),
        }),
        "C19" => Some(CheckSpec {
            property: "C19",
            level: "fault_enumeration",
            parts: vec![Part::new(roles::Roles, 3_000, 100_000), Part::new(config::Config, 2_000, 60_000)],
            assumptions: assumptions(&["a twin proves something only for instructions whose original landed; per-instruction coverage is listed under reach_probes (c19_twin:<instruction>)"]),
        }),
        "C35" => Some(CheckSpec {
            property: "C35",
            level: "exploration",
            parts: vec![Part::new(roles::Roles, 4_000, 100_000), Part::new(config::Config, 2_000, 60_000)],
            assumptions: assumptions(&[]),
        }),
        "C16" => Some(CheckSpec {
            property: "C16",
            level: "exploration",
            parts: vec![Part::new(config::Config, 4_000, 120_000)],
            assumptions: assumptions(&["the key -> model-parameter table is transcribed from the key names and doc comments; the closed-market parameter switch is not reached at chain level (no instruction of this scenario closes a market)", "the SDK MarketModel side of this property is compared under C40"]),
        }),
        "C17" => Some(CheckSpec {
            property: "C17",
            level: "exploration",
            parts: vec![Part::new(config::Config, 2_000, 60_000)],
            assumptions: assumptions(&["documented defaults are transcribed from the names and doc comments of the DEFAULT_* constants, not from MarketConfig::init"]),
        }),
        "C20" => Some(CheckSpec {
            property: "C20",
            level: "exploration",
            parts: vec![Part::new(config::Config, 4_000, 120_000)],
            assumptions: assumptions(&["policy model: MARKET_KEEPER may set anything; MARKET_CONFIG_KEEPER only currently-updatable keys/flags; buffers all-or-nothing, authority-bound, rejected at or after expiry"]),
        }),
        _ => None,
    }
}
