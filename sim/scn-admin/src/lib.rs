//! Scenario crate `scn-admin`: role table, privileged-instruction twins, names, configuration keys.

pub mod roles;

use simcore::{CheckSpec, Part};

pub const PROPERTIES: &[&str] = &["C18", "C19", "C35"];

const CHAIN_ASSUMPTIONS: &[&str] = &[
    "programs run natively on the host, not in the SBF VM: compute budget, stack/heap limits and transaction size are not modelled",
    "signatures are not verified (a signer is a flag on the account meta); the runtime stub enforces Solana's privilege rules (message-wide signer/writable sets, PDA signing, read-only accounts, lamport conservation, rent exemption)",
    "a clean batch is evidence over the sampled plans, not a proof",
];

fn assumptions(extra: &[&str]) -> Vec<String> {
    CHAIN_ASSUMPTIONS.iter().chain(extra.iter()).map(|s| s.to_string()).collect()
}

pub fn registry(property: &str) -> Option<CheckSpec> {
    match property {
        "C18" => Some(CheckSpec {
            property: "C18",
            level: "exploration",
            parts: vec![Part::new(roles::Roles, 6_000, 200_000)],
            assumptions: assumptions(&["the reference is a set model (enabled roles, granted pairs, authority, acknowledged restart slot) transcribed from the property statement and the documented instruction semantics"]),
        }),
        "C19" => Some(CheckSpec {
            property: "C19",
            level: "fault_enumeration",
            parts: vec![Part::new(roles::Roles, 3_000, 100_000)],
            assumptions: assumptions(&["a twin proves something only for instructions whose original landed; per-instruction coverage is listed under reach_probes (c19_twin:<instruction>)"]),
        }),
        "C35" => Some(CheckSpec {
            property: "C35",
            level: "exploration",
            parts: vec![Part::new(roles::Roles, 4_000, 100_000)],
            assumptions: assumptions(&[]),
        }),
        _ => None,
    }
}
