fn main() {
    simcore::cli_main(&unitsim::registry, unitsim::PROPERTIES)
}
