//! Host-side syscall stubs: a settable clock sysvar, silent logging and a CPI sink that always
//! succeeds (event emission of the store goes through `invoke_signed`).

use std::cell::{Cell, RefCell};
use std::sync::Once;

use solana_program::account_info::AccountInfo;
use solana_program::clock::Clock;
use solana_program::entrypoint::ProgramResult;
use solana_program::instruction::Instruction;
use solana_program::program_stubs::{set_syscall_stubs, SyscallStubs};

thread_local! {
    static NOW: Cell<i64> = const { Cell::new(0) };
    static CPI_COUNT: Cell<u64> = const { Cell::new(0) };
    static LAST_CPI: RefCell<Vec<u8>> = const { RefCell::new(Vec::new()) };
}

struct Stubs;

impl SyscallStubs for Stubs {
    fn sol_log(&self, _message: &str) {}
    fn sol_log_compute_units(&self) {}
    fn sol_log_data(&self, _fields: &[&[u8]]) {}
    fn sol_get_clock_sysvar(&self, var_addr: *mut u8) -> u64 {
        let clock = Clock {
            slot: 0,
            epoch_start_timestamp: 0,
            epoch: 0,
            leader_schedule_epoch: 0,
            unix_timestamp: NOW.with(|n| n.get()),
        };
        // SAFETY: the caller passes the address of a `Clock` value (see `Sysvar::get`).
        unsafe { std::ptr::write_unaligned(var_addr as *mut Clock, clock) };
        0
    }
    fn sol_invoke_signed(
        &self,
        instruction: &Instruction,
        _account_infos: &[AccountInfo],
        _signers_seeds: &[&[&[u8]]],
    ) -> ProgramResult {
        CPI_COUNT.with(|c| c.set(c.get() + 1));
        LAST_CPI.with(|l| {
            let mut l = l.borrow_mut();
            l.clear();
            l.extend_from_slice(&instruction.data);
        });
        Ok(())
    }
}

static ONCE: Once = Once::new();

/// Install the stubs (process-wide, idempotent).
pub fn install() {
    ONCE.call_once(|| {
        let _ = set_syscall_stubs(Box::new(Stubs));
    });
}

/// Set the clock of the current thread.
pub fn set_now(ts: i64) {
    NOW.with(|n| n.set(ts));
}

/// Number of CPIs seen on this thread.
pub fn cpi_count() -> u64 {
    CPI_COUNT.with(|c| c.get())
}

/// Instruction data of the last CPI seen on this thread.
pub fn last_cpi() -> Vec<u8> {
    LAST_CPI.with(|l| l.borrow().clone())
}
