//! unitsim — unit-level deterministic simulations (maps, pools, openness, revertible buffer).

pub mod buffersim;
pub mod mapsim;
pub mod opensim;
pub mod poolsim;
pub mod ser;
pub mod stubs;

use simcore::{CheckSpec, Part};

pub const PROPERTIES: &[&str] = &["C15", "C21", "C27", "C34"];

pub fn registry(property: &str) -> Option<CheckSpec> {
    match property {
        "C34" => Some(CheckSpec {
            property: "C34",
            level: "exploration",
            parts: vec![Part::new(mapsim::MapSim, 100_000, 1_800_000)],
            assumptions: vec![
                "values are arbitrary bit patterns of the (Pod) value types; keys are drawn from a salted universe of 2x capacity".into(),
            ],
        }),
        "C15" => Some(CheckSpec {
            property: "C15",
            level: "exploration",
            parts: vec![Part::new(poolsim::PoolSim, 100_000, 2_000_000)],
            assumptions: vec![
                "the stored total of a pool is observed through its public Borsh encoding (store) / public fields (SDK)".into(),
            ],
        }),
        "C27" => Some(CheckSpec {
            property: "C27",
            level: "exploration",
            parts: vec![Part::new(opensim::OpenSim, 250_000, 5_000_000)],
            assumptions: vec![
                "unit part only: the feed price object is driven directly; the chain-level part (reports through the oracle) is checked by the chain engine".into(),
            ],
        }),
        "C21" => Some(CheckSpec {
            property: "C21",
            level: "fault_enumeration",
            parts: vec![Part::new(buffersim::BufferSim, 250_000, 5_000_000)],
            assumptions: vec![
                "unit part: the revertible buffer of an in-memory Market account reached through the cfg(gmsol_verif) hook; virtual inventories disabled; RevertibleLiquidityMarket's deferred mint/burn is covered at chain level".into(),
                "the revision words stored next to a committed item are treated as bookkeeping (they may change when that item is committed)".into(),
            ],
        }),
        _ => None,
    }
}
