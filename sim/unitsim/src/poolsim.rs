//! C15 `poolsim` — single-token ("pure") pools of the store program and of the SDK model against a
//! single `u128` total, with an impure pool as a control.

use std::panic::{catch_unwind, AssertUnwindSafe};
use std::sync::OnceLock;

use anchor_lang::prelude::Pubkey;
use anchor_lang::{AnchorDeserialize, AnchorSerialize};
use gmsol_model::{Balance, Delta, Pool as PoolTrait, PoolKind};
use gmsol_programs::gmsol_store::types::Pool as SdkPool;
use gmsol_store::states::market::pool::Pool as StorePool;
use gmsol_store::states::Market;
use num_bigint::BigInt;
use num_traits::ToPrimitive;
use serde::{Deserialize, Serialize};
use simcore::rng::hash_str;
use simcore::{Components, Obs, Rng, Scenario, Tier};

const P: &str = "C15";
/// Violations of the impure control are not C15 violations (the statement is about single-token
/// pools); they are recorded under this tag and show up in the evidence as "other property".
const PC: &str = "C15.control";

/// Offsets inside the Borsh encoding of the store's `Pool` (asserted by `self_test`).
const OFF_FLAG: usize = 0;
const OFF_LONG: usize = 16;
const OFF_SHORT: usize = 32;
const POOL_LEN: usize = 48;

#[derive(Clone, Debug, Serialize, Deserialize)]
pub struct Cfg {
    /// Initial stored total of the pure pools (and long amount of the impure control).
    #[serde(with = "crate::ser::u128_str")]
    pub init_total: u128,
    /// Initial short amount of the impure control.
    #[serde(with = "crate::ser::u128_str")]
    pub init_short: u128,
}

/// A signed amount, absolute or relative to the current amount of the addressed side.
#[derive(Clone, Copy, Debug, Serialize, Deserialize, PartialEq, Eq)]
pub enum Amt {
    Abs(#[serde(with = "crate::ser::i128_str")] i128),
    /// Minus the current amount (clamped to `i128::MIN`).
    ToZero,
    /// Up to `u128::MAX` (clamped to `i128::MAX`).
    ToMax,
    /// `-(current + k)`: below zero by `k`.
    UnderBy(u8),
    /// `(u128::MAX - current) + k`: above the maximum by `k`.
    OverBy(u8),
}

#[derive(Clone, Debug, Serialize, Deserialize)]
pub enum Step {
    /// `apply_delta_to_long_amount`
    Long(Amt),
    /// `apply_delta_to_short_amount`
    Short(Amt),
    /// `checked_apply_delta(Delta::new(long, short))`, result stored back on success.
    Checked { long: Option<Amt>, short: Option<Amt> },
    /// `checked_cancel_amounts`, result stored back when `apply`.
    Cancel { apply: bool },
}

fn clamp_i128(x: &BigInt) -> i128 {
    x.to_i128()
        .unwrap_or(if x.sign() == num_bigint::Sign::Minus { i128::MIN } else { i128::MAX })
}

fn resolve(a: Amt, cur: u128) -> i128 {
    match a {
        Amt::Abs(x) => x,
        Amt::ToZero => clamp_i128(&-BigInt::from(cur)),
        Amt::ToMax => clamp_i128(&BigInt::from(u128::MAX - cur)),
        Amt::UnderBy(k) => clamp_i128(&-(BigInt::from(cur) + BigInt::from(k))),
        Amt::OverBy(k) => clamp_i128(&(BigInt::from(u128::MAX - cur) + BigInt::from(k))),
    }
}

/// Resolved operation.
#[derive(Clone, Copy, Debug)]
enum Op {
    Long(i128),
    Short(i128),
    Checked(Option<i128>, Option<i128>),
    Cancel(bool),
}

impl Op {
    fn name(&self) -> &'static str {
        match self {
            Op::Long(_) => "long_delta",
            Op::Short(_) => "short_delta",
            Op::Checked(..) => "checked_apply_delta",
            Op::Cancel(true) => "cancel",
            Op::Cancel(false) => "cancel_probe",
        }
    }
}

/// Observation of the stored fields of a pool.
trait Raw {
    fn raw(&self) -> (u8, u128, u128);
}

impl Raw for StorePool {
    fn raw(&self) -> (u8, u128, u128) {
        let b = self.try_to_vec().expect("borsh");
        assert_eq!(b.len(), POOL_LEN);
        (
            b[OFF_FLAG],
            u128::from_le_bytes(b[OFF_LONG..OFF_LONG + 16].try_into().unwrap()),
            u128::from_le_bytes(b[OFF_SHORT..OFF_SHORT + 16].try_into().unwrap()),
        )
    }
}

impl Raw for SdkPool {
    fn raw(&self) -> (u8, u128, u128) {
        (self.is_pure, self.long_token_amount, self.short_token_amount)
    }
}

/// Run one operation on a pool. `Err` carries the error text; a panic is reported as `Err("panic…")`.
fn run_op<T>(p: &mut T, op: Op) -> Result<(), String>
where
    T: PoolTrait<Num = u128, Signed = i128> + Copy,
{
    let r = catch_unwind(AssertUnwindSafe(|| -> Result<(), String> {
        match op {
            Op::Long(d) => p.apply_delta_to_long_amount(&d).map_err(|e| e.to_string()),
            Op::Short(d) => p.apply_delta_to_short_amount(&d).map_err(|e| e.to_string()),
            Op::Checked(l, s) => {
                let n = p
                    .checked_apply_delta(Delta::new(l.as_ref(), s.as_ref()))
                    .map_err(|e| e.to_string())?;
                *p = n;
                Ok(())
            }
            Op::Cancel(apply) => {
                let n = p.checked_cancel_amounts().map_err(|e| e.to_string())?;
                if apply {
                    *p = n;
                }
                Ok(())
            }
        }
    }));
    match r {
        Ok(x) => x,
        Err(_) => {
            let (loc, msg) = simcore::panic_loc::take().unwrap_or_default();
            Err(format!("panic at {loc}: {msg}"))
        }
    }
}

/// Base pools obtained from a real `Market::init` (pure: long token == short token).
fn base_pools() -> &'static (Vec<u8>, Vec<u8>) {
    static BASE: OnceLock<(Vec<u8>, Vec<u8>)> = OnceLock::new();
    BASE.get_or_init(|| {
        crate::stubs::install();
        let mk = |pure: bool| -> Vec<u8> {
            let mut m: Box<Market> = Box::new(bytemuck::Zeroable::zeroed());
            let long = Pubkey::new_from_array([3; 32]);
            let short = if pure { long } else { Pubkey::new_from_array([4; 32]) };
            m.init(
                255,
                Pubkey::new_from_array([1; 32]),
                "poolsim",
                Pubkey::new_from_array([2; 32]),
                Pubkey::new_from_array([5; 32]),
                long,
                short,
                true,
            )
            .expect("Market::init");
            assert_eq!(m.is_pure(), pure);
            let p = m.pool(PoolKind::Primary).expect("primary pool");
            p.try_to_vec().expect("borsh")
        };
        let pure = mk(true);
        let impure = mk(false);
        // Self-test of the layout we rely on.
        assert_eq!(pure.len(), POOL_LEN);
        assert_ne!(pure[OFF_FLAG], 0, "pure flag is expected in byte 0");
        assert!(pure[1..].iter().all(|b| *b == 0));
        assert!(impure.iter().all(|b| *b == 0));
        let probe_l: u128 = 0x0102_0304_0506_0708_090a_0b0c_0d0e_0f10;
        let probe_s: u128 = 0x1112_1314_1516_1718_191a_1b1c_1d1e_1f20;
        let mut p = StorePool::try_from_slice(&impure).expect("decode");
        p.apply_delta_to_long_amount(&(probe_l as i128)).unwrap();
        p.apply_delta_to_short_amount(&(probe_s as i128)).unwrap();
        let b = p.try_to_vec().unwrap();
        assert_eq!(&b[OFF_LONG..OFF_LONG + 16], &probe_l.to_le_bytes());
        assert_eq!(&b[OFF_SHORT..OFF_SHORT + 16], &probe_s.to_le_bytes());
        assert_eq!(bytemuck::bytes_of(&p), b.as_slice(), "borsh and in-memory layouts agree");
        (pure, impure)
    })
}

fn store_pool(pure: bool, long: u128, short: u128) -> StorePool {
    let base = base_pools();
    let mut b = if pure { base.0.clone() } else { base.1.clone() };
    b[OFF_LONG..OFF_LONG + 16].copy_from_slice(&long.to_le_bytes());
    b[OFF_SHORT..OFF_SHORT + 16].copy_from_slice(&short.to_le_bytes());
    StorePool::try_from_slice(&b).expect("decode pool")
}

fn sdk_pool(pure: bool, long: u128, short: u128) -> SdkPool {
    SdkPool {
        is_pure: if pure { base_pools().0[OFF_FLAG] } else { 0 },
        padding: [0; 15],
        long_token_amount: long,
        short_token_amount: short,
    }
}

fn in_range(x: &BigInt) -> bool {
    x.sign() != num_bigint::Sign::Minus && x <= &BigInt::from(u128::MAX)
}

/// What the statement allows for an operation on a pure pool with stored total `t`.
enum Expect {
    /// Must succeed with this total.
    Total(u128),
    /// Must fail, pool unchanged.
    Fail,
    /// May fail (unchanged) or succeed with this total (only: a two-sided delta whose intermediate
    /// sum leaves the range while the final one is inside).
    Either(u128),
}

fn expect_pure(t: u128, op: Op) -> Expect {
    let bt = BigInt::from(t);
    match op {
        Op::Long(d) | Op::Short(d) => {
            let n = &bt + BigInt::from(d);
            if in_range(&n) {
                Expect::Total(n.to_u128().unwrap())
            } else {
                Expect::Fail
            }
        }
        Op::Checked(l, s) => {
            let t1 = &bt + BigInt::from(l.unwrap_or(0));
            let t2 = &t1 + BigInt::from(s.unwrap_or(0));
            if !in_range(&t2) {
                Expect::Fail
            } else if in_range(&t1) {
                Expect::Total(t2.to_u128().unwrap())
            } else {
                Expect::Either(t2.to_u128().unwrap())
            }
        }
        Op::Cancel(true) => Expect::Total(t & 1),
        Op::Cancel(false) => Expect::Total(t),
    }
}

fn bucket(t: u128) -> u64 {
    match t {
        0 => 0,
        1 => 1,
        u128::MAX => 7,
        _ if t < 1 << 32 => 2,
        _ if t < 1 << 64 => 3,
        _ if t < 1 << 126 => 4,
        _ if t <= i128::MAX as u128 => 5,
        _ => 6,
    }
}

pub struct PoolSim;

impl PoolSim {
    /// Checks of one pure implementation after an operation.
    #[allow(clippy::too_many_arguments)]
    fn check_pure<T>(
        imp: &str,
        pool: &T,
        before_raw: (u8, u128, u128),
        res: &Result<(), String>,
        op: Op,
        t_before: u128,
        exp: &Expect,
        obs: &mut Obs,
    ) -> Option<u128>
    where
        T: PoolTrait<Num = u128, Signed = i128> + Copy + Raw,
    {
        let name = op.name();
        let raw = pool.raw();
        let stored = BigInt::from(raw.1) + BigInt::from(raw.2);
        let is_cancel = matches!(op, Op::Cancel(_));
        // Which total must the pool hold now?
        let want: u128 = match (exp, res) {
            (Expect::Total(n), Ok(())) => *n,
            (Expect::Total(_), Err(e)) => {
                obs.violation(
                    P,
                    if is_cancel { "cancel_failed" } else { "unexpected_failure" },
                    format!("impl={imp},op={name}"),
                    format!("total {t_before}, {op:?} failed with `{e}` although the result is representable"),
                );
                t_before
            }
            (Expect::Fail, Err(_)) => t_before,
            (Expect::Fail, Ok(())) => {
                obs.violation(
                    P,
                    "delta",
                    format!("impl={imp},op={name},accepted_out_of_range=true"),
                    format!("total {t_before}, {op:?} succeeded although total + delta is not representable; stored total now {stored}"),
                );
                return None;
            }
            (Expect::Either(n), Ok(())) => *n,
            (Expect::Either(_), Err(_)) => t_before,
        };
        obs.checked("delta");
        if res.is_err() {
            obs.checked("failed_op_changed");
            if raw != before_raw {
                obs.violation(
                    P,
                    "failed_op_changed",
                    format!("impl={imp},op={name}"),
                    format!("total {t_before}, {op:?} failed but the pool changed from {before_raw:?} to {raw:?}"),
                );
                return None;
            }
        }
        if stored != BigInt::from(want) {
            obs.violation(
                P,
                if is_cancel { "cancel" } else { "delta" },
                format!("impl={imp},op={name},ok={}", res.is_ok()),
                format!("total {t_before}, {op:?}: stored total is {stored}, expected {want}"),
            );
            return None;
        }
        if raw.0 != before_raw.0 {
            obs.violation(
                P,
                "flag",
                format!("impl={imp},op={name}"),
                format!("pure flag byte changed from {} to {}", before_raw.0, raw.0),
            );
            return None;
        }
        // Views.
        obs.checked("sum");
        obs.checked("split");
        match (pool.long_amount(), pool.short_amount()) {
            (Ok(l), Ok(s)) => {
                let sum = BigInt::from(l) + BigInt::from(s);
                if sum != BigInt::from(want) {
                    obs.violation(
                        P,
                        "sum",
                        format!("impl={imp},after={name}"),
                        format!("long {l} + short {s} = {sum}, stored total {want}"),
                    );
                    return None;
                }
                let ceil = want / 2 + (want & 1);
                let floor = want / 2;
                if l != ceil || s != floor {
                    obs.violation(
                        P,
                        "split",
                        format!("impl={imp},after={name}"),
                        format!("total {want}: long {l} (want {ceil}), short {s} (want {floor})"),
                    );
                    return None;
                }
            }
            (l, s) => {
                obs.violation(
                    P,
                    "sum",
                    format!("impl={imp},after={name},view_error=true"),
                    format!("views failed: long {:?}, short {:?}", l.map_err(|e| e.to_string()), s.map_err(|e| e.to_string())),
                );
                return None;
            }
        }
        Some(want)
    }
}

impl Scenario for PoolSim {
    type Cfg = Cfg;
    type Step = Step;

    fn name(&self) -> &'static str {
        "poolsim"
    }

    fn generate(&self, seed: u64, run: u64, tier: Tier, _focus: &str) -> (Cfg, Vec<Step>) {
        let mut rng = Rng::derive(seed, run, "poolsim.cfg");
        let special: [u128; 12] = [
            0,
            1,
            2,
            3,
            u64::MAX as u128,
            u64::MAX as u128 + 1,
            i128::MAX as u128 - 1,
            i128::MAX as u128,
            i128::MAX as u128 + 1,
            i128::MAX as u128 + 2,
            u128::MAX - 1,
            u128::MAX,
        ];
        let mut pick_total = |rng: &mut Rng| -> u128 {
            match rng.below(10) {
                0..=3 => *rng.pick(&special),
                4..=7 => rng.log_u128(u128::MAX),
                8 => u128::MAX - rng.log_u128(1 << 70),
                _ => 0,
            }
        };
        let cfg = Cfg { init_total: pick_total(&mut rng), init_short: pick_total(&mut rng) };

        let mut rng = Rng::derive(seed, run, "poolsim.plan");
        // mostly long histories (a run costs about 1 µs per step), with a share of short ones
        let n = if rng.chance(1, 5) {
            rng.range(20, 200)
        } else {
            match tier {
                Tier::Quick => rng.range(1000, 6000),
                Tier::Thorough => rng.range(1000, 8000),
            }
        };
        let amt = |rng: &mut Rng| -> Amt {
            match rng.below(100) {
                0..=39 => {
                    let m = rng.log_u128(i128::MAX as u128) as i128;
                    Amt::Abs(if rng.bool() { m } else { -m })
                }
                40..=49 => Amt::Abs(*rng.pick(&[0i128, 1, -1, 2, -2, i128::MAX, i128::MIN, i128::MAX - 1, i128::MIN + 1])),
                50..=59 => {
                    // small amounts: parity changes
                    let m = rng.range(1, 9) as i128;
                    Amt::Abs(if rng.bool() { m } else { -m })
                }
                60..=71 => Amt::ToZero,
                72..=83 => Amt::ToMax,
                84..=91 => Amt::UnderBy(rng.range(1, 3) as u8),
                _ => Amt::OverBy(rng.range(1, 3) as u8),
            }
        };
        let mut steps = Vec::with_capacity(n as usize);
        for _ in 0..n {
            let s = match rng.below(100) {
                0..=29 => Step::Long(amt(&mut rng)),
                30..=59 => Step::Short(amt(&mut rng)),
                60..=84 => {
                    let l = if rng.chance(3, 4) { Some(amt(&mut rng)) } else { None };
                    let s = if rng.chance(3, 4) { Some(amt(&mut rng)) } else { None };
                    Step::Checked { long: l, short: s }
                }
                85..=94 => Step::Cancel { apply: true },
                _ => Step::Cancel { apply: false },
            };
            steps.push(s);
        }
        (cfg, steps)
    }

    fn execute(&self, cfg: &Cfg, steps: &[Step], obs: &mut Obs) {
        // pure pools and their reference (one total)
        let mut ps = store_pool(true, cfg.init_total, 0);
        let mut pk = sdk_pool(true, cfg.init_total, 0);
        let mut total: u128 = cfg.init_total;
        // impure control and its reference (two independent amounts)
        let mut cs = store_pool(false, cfg.init_total, cfg.init_short);
        let mut ck = sdk_pool(false, cfg.init_total, cfg.init_short);
        let (mut cl, mut csh) = (cfg.init_total, cfg.init_short);

        for (i, step) in steps.iter().enumerate() {
            obs.set_step(i);
            // ---------------- pure
            let op = match *step {
                Step::Long(a) => Op::Long(resolve(a, total)),
                Step::Short(a) => Op::Short(resolve(a, total)),
                Step::Checked { long, short } => {
                    Op::Checked(long.map(|a| resolve(a, total)), short.map(|a| resolve(a, total)))
                }
                Step::Cancel { apply } => Op::Cancel(apply),
            };
            let exp = expect_pure(total, op);
            let (b_s, b_k) = (ps.raw(), pk.raw());
            let r_s = run_op(&mut ps, op);
            let r_k = run_op(&mut pk, op);
            obs.event(|| {
                format!(
                    "pure total={total} {op:?} -> store {} sdk {}",
                    if r_s.is_ok() { "ok" } else { "err" },
                    if r_k.is_ok() { "ok" } else { "err" }
                )
            });
            let class = match (&exp, &r_s) {
                (_, Ok(())) => "ok",
                (Expect::Fail, Err(e)) if e.starts_with("panic") => "panic",
                (Expect::Fail, Err(_)) => {
                    let neg = match op {
                        Op::Long(d) | Op::Short(d) => d < 0,
                        _ => false,
                    };
                    if neg {
                        obs.probe("underflow_rejected");
                        "underflow"
                    } else {
                        obs.probe("overflow_rejected");
                        "overflow"
                    }
                }
                (Expect::Either(_), Err(_)) => {
                    obs.probe("intermediate_out_of_range_rejected");
                    "intermediate"
                }
                (_, Err(_)) => "failed",
            };
            if matches!(exp, Expect::Fail) {
                obs.fault("out_of_range_delta");
            }
            let t_s = Self::check_pure("store", &ps, b_s, &r_s, op, total, &exp, obs);
            if obs.should_stop() {
                return;
            }
            let t_k = Self::check_pure("sdk", &pk, b_k, &r_k, op, total, &exp, obs);
            if obs.should_stop() {
                return;
            }
            obs.checked("sdk_agrees");
            if r_s.is_ok() != r_k.is_ok() || ps.raw() != pk.raw() {
                obs.violation(
                    P,
                    "sdk_agrees",
                    format!("op={}", op.name()),
                    format!(
                        "total {total}, {op:?}: store -> {:?} {:?}, sdk -> {:?} {:?}",
                        r_s.as_ref().err(),
                        ps.raw(),
                        r_k.as_ref().err(),
                        pk.raw()
                    ),
                );
                if obs.should_stop() {
                    return;
                }
            }
            match (t_s, t_k) {
                (Some(a), Some(_)) => {
                    if matches!(op, Op::Cancel(true)) && total > 1 {
                        obs.probe(if total & 1 == 1 { "cancel_odd_total" } else { "cancel_even_total" });
                    }
                    total = a;
                }
                _ => return, // a (known) violation left the pools in an unknown state
            }
            if total == u128::MAX {
                obs.probe("total_at_u128_max");
            }
            if total > i128::MAX as u128 {
                obs.probe("total_above_i128_max");
            }
            obs.outcome("pure", op.name(), class);
            obs.fingerprint(&[bucket(total), total as u64 & 1, hash_str(op.name()), hash_str(class)]);

            // ---------------- impure control
            let cop = match *step {
                Step::Long(a) => Op::Long(resolve(a, cl)),
                Step::Short(a) => Op::Short(resolve(a, csh)),
                Step::Checked { long, short } => {
                    Op::Checked(long.map(|a| resolve(a, cl)), short.map(|a| resolve(a, csh)))
                }
                Step::Cancel { apply } => Op::Cancel(apply),
            };
            let (nl, ns): (BigInt, BigInt) = match cop {
                Op::Long(d) => (BigInt::from(cl) + d, BigInt::from(csh)),
                Op::Short(d) => (BigInt::from(cl), BigInt::from(csh) + d),
                Op::Checked(l, s) => (BigInt::from(cl) + l.unwrap_or(0), BigInt::from(csh) + s.unwrap_or(0)),
                Op::Cancel(true) => {
                    let m = cl.min(csh);
                    (BigInt::from(cl - m), BigInt::from(csh - m))
                }
                Op::Cancel(false) => (BigInt::from(cl), BigInt::from(csh)),
            };
            let must_ok = in_range(&nl) && in_range(&ns);
            let (cb_s, cb_k) = (cs.raw(), ck.raw());
            let cr_s = run_op(&mut cs, cop);
            let cr_k = run_op(&mut ck, cop);
            // The SDK pool uses the default `checked_cancel_amounts`, documented to fail for amounts
            // beyond the signed range.
            let sdk_cancel_limit = matches!(cop, Op::Cancel(_)) && cr_k.is_err() && cl.min(csh) > i128::MAX as u128;
            if sdk_cancel_limit {
                obs.probe("control_sdk_default_cancel_signed_range");
            }
            for (imp, pool_raw, before, res, views) in [
                ("store", cs.raw(), cb_s, &cr_s, (cs.long_amount(), cs.short_amount())),
                ("sdk", ck.raw(), cb_k, &cr_k, (ck.long_amount(), ck.short_amount())),
            ] {
                obs.checked("control");
                let ok_expected = must_ok && !(imp == "sdk" && sdk_cancel_limit);
                let want = if res.is_ok() && must_ok {
                    (0u8, nl.to_u128().unwrap(), ns.to_u128().unwrap())
                } else {
                    before
                };
                let bad = (res.is_ok() != ok_expected)
                    || pool_raw != want
                    || views.0.as_ref().ok() != Some(&want.1)
                    || views.1.as_ref().ok() != Some(&want.2);
                if bad {
                    obs.violation(
                        PC,
                        "impure_control",
                        format!("impl={imp},op={}", cop.name()),
                        format!(
                            "impure ({cl},{csh}) {cop:?}: result ok={} (expected ok={ok_expected}), stored {pool_raw:?}, expected {want:?}",
                            res.is_ok()
                        ),
                    );
                }
            }
            if cr_s.is_ok() && must_ok {
                cl = nl.to_u128().unwrap();
                csh = ns.to_u128().unwrap();
            }
            // keep the SDK control aligned with the store control after a documented SDK-only failure
            if sdk_cancel_limit && cr_s.is_ok() {
                ck = sdk_pool(false, cl, csh);
            }
            obs.outcome("impure", cop.name(), if cr_s.is_ok() { "ok" } else { "rejected" });
        }
    }

    fn simplify_step(&self, step: &Step) -> Vec<Step> {
        fn simpler(a: Amt) -> Vec<Amt> {
            match a {
                Amt::Abs(0) => vec![],
                Amt::Abs(x) => {
                    let mut v = vec![Amt::Abs(0), Amt::Abs(x / 2)];
                    if x.abs() > 1 || x == i128::MIN {
                        v.push(Amt::Abs(if x < 0 { -1 } else { 1 }));
                    }
                    v
                }
                Amt::UnderBy(k) if k > 1 => vec![Amt::UnderBy(1)],
                Amt::OverBy(k) if k > 1 => vec![Amt::OverBy(1)],
                _ => vec![],
            }
        }
        let mut out = vec![];
        match step {
            Step::Long(a) => out.extend(simpler(*a).into_iter().map(Step::Long)),
            Step::Short(a) => out.extend(simpler(*a).into_iter().map(Step::Short)),
            Step::Checked { long, short } => {
                if let Some(l) = long {
                    out.push(Step::Long(*l));
                    out.push(Step::Checked { long: None, short: *short });
                    out.extend(simpler(*l).into_iter().map(|l| Step::Checked { long: Some(l), short: *short }));
                }
                if let Some(s) = short {
                    out.push(Step::Short(*s));
                    out.push(Step::Checked { long: *long, short: None });
                    out.extend(simpler(*s).into_iter().map(|s| Step::Checked { long: *long, short: Some(s) }));
                }
            }
            Step::Cancel { apply: false } => {}
            Step::Cancel { apply: true } => out.push(Step::Cancel { apply: false }),
        }
        out
    }

    fn simplify_cfg(&self, cfg: &Cfg) -> Vec<Cfg> {
        let mut out = vec![];
        if cfg.init_short != 0 {
            out.push(Cfg { init_total: cfg.init_total, init_short: 0 });
        }
        if cfg.init_total != 0 {
            out.push(Cfg { init_total: 0, init_short: cfg.init_short });
            out.push(Cfg { init_total: cfg.init_total & 1, init_short: cfg.init_short });
            out.push(Cfg { init_total: cfg.init_total / 2, init_short: cfg.init_short });
        }
        out
    }

    fn components(&self) -> Components {
        Components {
            real: vec![
                "gmsol_store::states::market::pool::Pool (programs/store/src/states/market/pool.rs): Balance::long_amount/short_amount, Pool::apply_delta_to_long_amount/apply_delta_to_short_amount/checked_apply_delta/checked_cancel_amounts".into(),
                "gmsol_programs::gmsol_store::types::Pool with the SDK trait impls (crates/programs/src/model/pool.rs) and the default gmsol_model::Pool::checked_cancel_amounts".into(),
                "gmsol_store::states::Market::init (public) — source of the pure / impure base pools (flag byte), used once per process and in the layout self-test".into(),
            ],
            stub: vec![
                "pools with a chosen stored total are built by patching the amount bytes of the Borsh encoding of a real base pool and decoding it with the public BorshDeserialize impl (offsets 16..32 long, 32..48 short, asserted by a self-test)".into(),
                "syscall stub providing the clock sysvar for Market::init".into(),
                "reference: one u128 total (pure) / two independent u128 amounts (impure control), arithmetic in BigInt".into(),
            ],
        }
    }

    fn rule(&self) -> String {
        "one run = an initial stored total (special values around 0, 2^64, 2^127, u128::MAX or log-uniform) and 20-8000 operations (long delta, short delta, two-sided checked delta, cancel, cancel without storing) whose amounts are log-uniform, i128 extremes, tiny parity-changing values, or relative to the current total (to zero, to max, under by k, over by k); the same history runs on the store pool, the SDK pool and on impure controls. distinct_nontrivial counts trigrams of (pool kind, op, outcome class) plus fingerprints (total bucket, parity, op, outcome class)".into()
    }
}
