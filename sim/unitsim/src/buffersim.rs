//! C21 `buffersim` — the revertible (copy-on-write) buffer of an in-memory `Market` account, driven
//! through the cfg-guarded hook `gmsol_store::states::market::revertible::market::verif`.
//!
//! begin / read / write / commit / abandon over every pool kind, the clocks and the other state,
//! against a reference model = plain copy of the stored state + copy-on-write overlay. Every operation
//! is additionally replayed (from a copy of the account taken before it began) abandoned after each
//! prefix, followed by a fresh operation that reads everything and commits nothing.

use std::collections::BTreeMap;
use std::panic::{catch_unwind, AssertUnwindSafe};

use anchor_lang::prelude::{AccountInfo, AccountLoader, Pubkey};
use anchor_lang::{AnchorDeserialize, AnchorSerialize, Discriminator};
use gmsol_model::{ClockKind, PoolKind};
use gmsol_store::states::market::pool::Pool;
use gmsol_store::states::market::revertible::market::verif;
use gmsol_store::states::market::revertible::market::verif::OtherField;
use gmsol_store::states::market::revertible::RevertibleMarket;
use gmsol_store::states::Market;
use serde::{Deserialize, Serialize};
use simcore::rng::hash_str;
use simcore::{Components, Obs, Rng, Scenario, Tier};
use strum::IntoEnumIterator;

const P: &str = "C21";
const POOL_LEN: usize = 48;

#[derive(Clone, Debug, Serialize, Deserialize)]
pub struct Cfg {
    /// Single-token market (long token == short token).
    pub pure: bool,
    /// Run the abandon-after-every-prefix enumeration for each operation.
    pub enumerate: bool,
}

#[derive(Clone, Debug, Serialize, Deserialize)]
pub enum Step {
    /// Start an operation (an operation still open is abandoned first).
    Begin,
    ReadPool { kind: u8 },
    WritePool {
        kind: u8,
        #[serde(with = "crate::ser::u128_str")]
        long: u128,
        #[serde(with = "crate::ser::u128_str")]
        short: u128,
    },
    ReadClock { kind: u8 },
    WriteClock { kind: u8, value: i64 },
    ReadOther,
    /// field: 0 long balance, 1 short balance, 2 funding factor per second
    WriteOther {
        field: u8,
        #[serde(with = "crate::ser::i128_str")]
        value: i128,
    },
    NextTradeId,
    TransferIn { long: bool, amount: u64 },
    TransferOut { long: bool, amount: u64 },
    Commit,
    Abandon,
}

impl Step {
    fn is_inner(&self) -> bool {
        !matches!(self, Step::Begin | Step::Commit | Step::Abandon)
    }
    fn name(&self) -> &'static str {
        match self {
            Step::Begin => "begin",
            Step::ReadPool { .. } => "read_pool",
            Step::WritePool { .. } => "write_pool",
            Step::ReadClock { .. } => "read_clock",
            Step::WriteClock { .. } => "write_clock",
            Step::ReadOther => "read_other",
            Step::WriteOther { .. } => "write_other",
            Step::NextTradeId => "next_trade_id",
            Step::TransferIn { .. } => "transfer_in",
            Step::TransferOut { .. } => "transfer_out",
            Step::Commit => "commit",
            Step::Abandon => "abandon",
        }
    }
}

// ---------------------------------------------------------------------------------------------
// In-memory account
// ---------------------------------------------------------------------------------------------

/// A buffer whose account data starts at an address ≡ 8 (mod 16), so that the payload after the
/// 8-byte discriminator is 16-aligned (zero-copy structs with `u128` need that on the host).
struct AccountBuf {
    words: Vec<u128>,
    len: usize,
}

impl AccountBuf {
    fn new(len: usize) -> Self {
        AccountBuf { words: vec![0u128; (len + 8).div_ceil(16) + 1], len }
    }
    fn data(&mut self) -> &mut [u8] {
        let len = self.len;
        let bytes: &mut [u8] = bytemuck::cast_slice_mut(&mut self.words);
        &mut bytes[8..8 + len]
    }
}

fn market_account_len() -> usize {
    8 + std::mem::size_of::<Market>()
}

// ---------------------------------------------------------------------------------------------
// Reference model
// ---------------------------------------------------------------------------------------------

#[derive(Clone, Debug, PartialEq, Eq)]
struct Other {
    trade_count: u64,
    long_balance: u64,
    short_balance: u64,
    funding_factor: i128,
}

#[derive(Clone, Debug, PartialEq, Eq)]
struct Plain {
    pools: Vec<[u8; POOL_LEN]>,
    clocks: Vec<i64>,
    other: Other,
}

#[derive(Clone, Debug, Default)]
struct Overlay {
    pools: BTreeMap<usize, [u8; POOL_LEN]>,
    clocks: BTreeMap<usize, i64>,
    clocks_touched: bool,
    trade_count: Option<u64>,
    long_balance: Option<u64>,
    short_balance: Option<u64>,
    funding_factor: Option<i128>,
    other_touched: bool,
}

impl Overlay {
    fn has_writes(&self) -> bool {
        !self.pools.is_empty() || self.clocks_touched || self.other_touched
    }
}

struct View<'x> {
    storage: &'x Plain,
    overlay: &'x Overlay,
}

impl View<'_> {
    fn pool(&self, k: usize) -> [u8; POOL_LEN] {
        self.overlay.pools.get(&k).copied().unwrap_or(self.storage.pools[k])
    }
    fn clock(&self, k: usize) -> i64 {
        self.overlay.clocks.get(&k).copied().unwrap_or(self.storage.clocks[k])
    }
    fn other(&self) -> Other {
        Other {
            trade_count: self.overlay.trade_count.unwrap_or(self.storage.other.trade_count),
            long_balance: self.overlay.long_balance.unwrap_or(self.storage.other.long_balance),
            short_balance: self.overlay.short_balance.unwrap_or(self.storage.other.short_balance),
            funding_factor: self.overlay.funding_factor.unwrap_or(self.storage.other.funding_factor),
        }
    }
}

fn pool_bytes(p: &Pool) -> [u8; POOL_LEN] {
    let v = p.try_to_vec().expect("borsh");
    v.as_slice().try_into().expect("pool length")
}

fn decode_plain(m: &Market, pool_kinds: &[PoolKind], clock_kinds: &[ClockKind]) -> Plain {
    Plain {
        pools: pool_kinds
            .iter()
            .map(|k| pool_bytes(verif::storage_pool(m, *k).expect("pool exists").pool()))
            .collect(),
        clocks: clock_kinds.iter().map(|k| verif::storage_clock(m, *k).expect("clock exists")).collect(),
        other: Other {
            trade_count: m.state().trade_count(),
            long_balance: m.state().long_token_balance_raw(),
            short_balance: m.state().short_token_balance_raw(),
            funding_factor: m.state().funding_factor_per_second(),
        },
    }
}

fn other_of(o: &gmsol_store::states::OtherState) -> Other {
    Other {
        trade_count: o.trade_count(),
        long_balance: o.long_token_balance_raw(),
        short_balance: o.short_token_balance_raw(),
        funding_factor: o.funding_factor_per_second(),
    }
}

/// Byte ranges inside the stored state that hold only bookkeeping revisions: they may change when
/// the item they belong to is committed.
struct Layout {
    /// per pool kind: (start of the PoolStorage, start of the pool value, end)
    pools: Vec<(usize, usize, usize)>,
    clocks: (usize, usize),
    other: (usize, usize),
}

fn layout(m: &Market, pool_kinds: &[PoolKind]) -> Layout {
    let base = verif::storage_bytes(m).as_ptr() as usize;
    let off = |p: usize| p - base;
    let pools = pool_kinds
        .iter()
        .map(|k| {
            let ps = verif::storage_pool(m, *k).expect("pool exists");
            let start = off(ps as *const _ as usize);
            let val = off(ps.pool() as *const _ as usize);
            (start, val, start + std::mem::size_of_val(ps))
        })
        .collect();
    let c = verif::storage_clocks(m);
    let cs = off(c as *const _ as usize);
    let o = m.state();
    let os = off(o as *const _ as usize);
    Layout {
        pools,
        clocks: (cs, cs + std::mem::size_of_val(c)),
        other: (os, os + std::mem::size_of_val(o)),
    }
}

// ---------------------------------------------------------------------------------------------
// Driving one operation
// ---------------------------------------------------------------------------------------------

struct Kinds {
    pools: Vec<PoolKind>,
    clocks: Vec<ClockKind>,
}

fn kinds() -> Kinds {
    Kinds { pools: PoolKind::iter().collect(), clocks: ClockKind::iter().collect() }
}

fn make_pool(template: &[u8; POOL_LEN], long: u128, short: u128) -> ([u8; POOL_LEN], Pool) {
    let mut b = *template;
    b[16..32].copy_from_slice(&long.to_le_bytes());
    // a pure pool keeps its short field at zero
    let short = if b[0] != 0 { 0 } else { short };
    b[32..48].copy_from_slice(&short.to_le_bytes());
    let p = Pool::try_from_slice(&b).expect("decode pool");
    (b, p)
}

/// Result of an inner step executed on the real operation: what was read (if anything).
#[derive(Debug, PartialEq, Eq)]
enum Seen {
    Pool([u8; POOL_LEN]),
    Clock(i64),
    Other(Other),
    TradeId(Result<u64, ()>),
    Transfer(Result<(), ()>),
    None,
}

/// Apply an inner step to the real operation.
fn real_inner(op: &mut RevertibleMarket<'_, '_>, step: &Step, k: &Kinds) -> Seen {
    match step {
        Step::ReadPool { kind } => {
            let kind = k.pools[*kind as usize % k.pools.len()];
            Seen::Pool(pool_bytes(verif::pool(op, kind).expect("pool kind")))
        }
        Step::WritePool { kind, long, short } => {
            let kind = k.pools[*kind as usize % k.pools.len()];
            let slot = verif::pool_mut(op, kind).expect("pool kind");
            let template = pool_bytes(slot);
            let (_, p) = make_pool(&template, *long, *short);
            *slot = p;
            Seen::None
        }
        Step::ReadClock { kind } => {
            let kind = k.clocks[*kind as usize % k.clocks.len()];
            Seen::Clock(verif::clock(op, kind).expect("clock kind"))
        }
        Step::WriteClock { kind, value } => {
            let kind = k.clocks[*kind as usize % k.clocks.len()];
            assert!(verif::set_clock(op, kind, *value));
            Seen::None
        }
        Step::ReadOther => Seen::Other(other_of(verif::other(op))),
        Step::WriteOther { field, value } => {
            let f = match field % 3 {
                0 => OtherField::LongTokenBalance,
                1 => OtherField::ShortTokenBalance,
                _ => OtherField::FundingFactorPerSecond,
            };
            verif::set_other(op, f, *value);
            Seen::None
        }
        Step::NextTradeId => Seen::TradeId(verif::next_trade_id(op).map_err(|_| ())),
        Step::TransferIn { long, amount } => {
            Seen::Transfer(verif::record_transferred_in(op, *long, *amount).map_err(|_| ()))
        }
        Step::TransferOut { long, amount } => {
            Seen::Transfer(verif::record_transferred_out(op, *long, *amount).map_err(|_| ()))
        }
        Step::Begin | Step::Commit | Step::Abandon => Seen::None,
    }
}

/// Apply an inner step to the reference; returns what the real side must have seen.
fn ref_inner(storage: &Plain, ov: &mut Overlay, step: &Step, k: &Kinds, pure: bool) -> Seen {
    match step {
        Step::ReadPool { kind } => {
            let i = *kind as usize % k.pools.len();
            Seen::Pool(View { storage, overlay: ov }.pool(i))
        }
        Step::WritePool { kind, long, short } => {
            let i = *kind as usize % k.pools.len();
            let template = View { storage, overlay: ov }.pool(i);
            let (b, _) = make_pool(&template, *long, *short);
            ov.pools.insert(i, b);
            Seen::None
        }
        Step::ReadClock { kind } => {
            let i = *kind as usize % k.clocks.len();
            Seen::Clock(View { storage, overlay: ov }.clock(i))
        }
        Step::WriteClock { kind, value } => {
            let i = *kind as usize % k.clocks.len();
            ov.clocks.insert(i, *value);
            ov.clocks_touched = true;
            Seen::None
        }
        Step::ReadOther => Seen::Other(View { storage, overlay: ov }.other()),
        Step::WriteOther { field, value } => {
            ov.other_touched = true;
            match field % 3 {
                0 => ov.long_balance = Some(*value as u64),
                1 => ov.short_balance = Some(*value as u64),
                _ => ov.funding_factor = Some(*value),
            }
            Seen::None
        }
        Step::NextTradeId => {
            // documented as idempotent: the id is always the *stored* trade count plus one
            match storage.other.trade_count.checked_add(1) {
                Some(n) => {
                    ov.other_touched = true;
                    ov.trade_count = Some(n);
                    Seen::TradeId(Ok(n))
                }
                None => Seen::TradeId(Err(())),
            }
        }
        Step::TransferIn { long, amount } | Step::TransferOut { long, amount } => {
            let is_in = matches!(step, Step::TransferIn { .. });
            let cur = View { storage, overlay: ov }.other();
            // the mutable accessor is taken before the arithmetic: the item becomes part of the
            // operation's write set even when the arithmetic fails
            ov.other_touched = true;
            let long_side = pure || *long;
            let bal = if long_side { cur.long_balance } else { cur.short_balance };
            let n = if is_in { bal.checked_add(*amount) } else { bal.checked_sub(*amount) };
            match n {
                Some(n) => {
                    if long_side {
                        ov.long_balance = Some(n);
                    } else {
                        ov.short_balance = Some(n);
                    }
                    Seen::Transfer(Ok(()))
                }
                None => Seen::Transfer(Err(())),
            }
        }
        Step::Begin | Step::Commit | Step::Abandon => Seen::None,
    }
}

fn apply_overlay(storage: &mut Plain, ov: &Overlay) {
    for (i, b) in &ov.pools {
        storage.pools[*i] = *b;
    }
    for (i, v) in &ov.clocks {
        storage.clocks[*i] = *v;
    }
    if let Some(v) = ov.trade_count {
        storage.other.trade_count = v;
    }
    if let Some(v) = ov.long_balance {
        storage.other.long_balance = v;
    }
    if let Some(v) = ov.short_balance {
        storage.other.short_balance = v;
    }
    if let Some(v) = ov.funding_factor {
        storage.other.funding_factor = v;
    }
}

/// Compare the stored bytes after a commit with the bytes before it, given the operation's write set.
/// Returns `(oracle key, detail)` of the first discrepancy.
fn check_commit_bytes(
    before: &[u8],
    after: &[u8],
    lay: &Layout,
    ov: &Overlay,
) -> Option<(String, String)> {
    // Build the expected image: the previous bytes, with the revision words of the written items
    // taken from the actual image (bookkeeping), everything else must be identical unless it is the
    // value region of a written item (those are compared semantically by the caller).
    let mut allowed = vec![false; before.len()];
    for (i, (start, val, end)) in lay.pools.iter().enumerate() {
        if ov.pools.contains_key(&i) {
            for a in &mut allowed[*start..*start + 8] {
                *a = true; // rev
            }
            for a in &mut allowed[*val..*end] {
                *a = true; // value (checked semantically)
            }
        }
    }
    if ov.clocks_touched {
        for a in &mut allowed[lay.clocks.0..lay.clocks.1] {
            *a = true;
        }
    }
    if ov.other_touched {
        for a in &mut allowed[lay.other.0..lay.other.1] {
            *a = true;
        }
    }
    for (j, (x, y)) in before.iter().zip(after.iter()).enumerate() {
        if x != y && !allowed[j] {
            let region = if let Some(i) = lay.pools.iter().position(|(s, _, e)| j >= *s && j < *e) {
                format!("region=pool,written={}", ov.pools.contains_key(&i))
            } else if j >= lay.clocks.0 && j < lay.clocks.1 {
                "region=clocks,written=false".to_string()
            } else if j >= lay.other.0 && j < lay.other.1 {
                "region=other,written=false".to_string()
            } else {
                "region=reserved".to_string()
            };
            return Some((region, format!("stored byte {j} changed from {x} to {y}")));
        }
    }
    None
}

pub struct BufferSim;

/// Environment of one run: the market account and the event authority.
struct Env {
    kinds: Kinds,
    pure: bool,
}

impl BufferSim {
    /// Fault enumeration for one operation: from a copy of the account taken before the operation,
    /// abandon after every prefix of its inner steps, then a fresh operation must read pure storage
    /// and an empty commit must change nothing.
    #[allow(clippy::too_many_arguments)]
    fn enumerate_abandons(
        env: &Env,
        snapshot: &[u8],
        storage: &Plain,
        inner: &[Step],
        obs: &mut Obs,
    ) {
        let owner = gmsol_store::ID;
        let key = Pubkey::new_from_array([9; 32]);
        let ea_key = Pubkey::new_from_array([8; 32]);
        for cut in 0..=inner.len() {
            let mut buf = AccountBuf::new(snapshot.len());
            buf.data().copy_from_slice(snapshot);
            let mut lamports = 1u64;
            let mut ea_lamports = 1u64;
            let mut ea_data: [u8; 0] = [];
            let info = AccountInfo::new(&key, false, true, &mut lamports, buf.data(), &owner, false, 0);
            let ea = AccountInfo::new(&ea_key, false, false, &mut ea_lamports, &mut ea_data, &owner, false, 0);
            let loader = AccountLoader::<Market>::try_from(&info).expect("loader");
            let before: Vec<u8> = verif::storage_bytes(&loader.load().expect("load")).to_vec();
            // the operation, cut short and abandoned
            {
                let mut op = verif::begin(&loader, &ea, 255).expect("begin");
                let mut ov = Overlay::default();
                for s in &inner[..cut] {
                    let got = real_inner(&mut op, s, &env.kinds);
                    let want = ref_inner(storage, &mut ov, s, &env.kinds, env.pure);
                    // reads inside the prefix are checked in the main timeline already; here only
                    // keep the two sides in step
                    let _ = (got, want);
                }
                verif::abandon(op);
            }
            obs.fault("abandon_after_prefix");
            obs.checked("abandon_leak");
            let after_abandon: Vec<u8> = verif::storage_bytes(&loader.load().expect("load")).to_vec();
            if after_abandon != before {
                obs.violation(
                    P,
                    "storage_changed_without_commit",
                    format!("phase=enumeration,after=abandon,prefix_writes={}", cut > 0),
                    format!("abandoning after {cut} of {} steps changed the stored state", inner.len()),
                );
                return;
            }
            // a fresh operation reads everything
            let mut op = verif::begin(&loader, &ea, 255).expect("begin");
            for (i, kind) in env.kinds.pools.iter().enumerate() {
                let got = pool_bytes(verif::pool(&op, *kind).expect("pool"));
                if got != storage.pools[i] {
                    obs.violation(
                        P,
                        "abandon_leak",
                        "item=pool".to_string(),
                        format!(
                            "after abandoning {cut} of {} steps, a fresh operation reads pool {kind:?} = {:02x?}.., storage holds {:02x?}..",
                            inner.len(),
                            &got[16..24],
                            &storage.pools[i][16..24]
                        ),
                    );
                    return;
                }
            }
            for (i, kind) in env.kinds.clocks.iter().enumerate() {
                let got = verif::clock(&op, *kind).expect("clock");
                if got != storage.clocks[i] {
                    obs.violation(
                        P,
                        "abandon_leak",
                        "item=clock".to_string(),
                        format!(
                            "after abandoning {cut} of {} steps, a fresh operation reads clock {kind:?} = {got}, storage holds {}",
                            inner.len(),
                            storage.clocks[i]
                        ),
                    );
                    return;
                }
            }
            let got = other_of(verif::other(&op));
            if got != storage.other {
                obs.violation(
                    P,
                    "abandon_leak",
                    "item=other".to_string(),
                    format!(
                        "after abandoning {cut} of {} steps, a fresh operation reads {got:?}, storage holds {:?}",
                        inner.len(),
                        storage.other
                    ),
                );
                return;
            }
            // and its (empty) commit changes nothing
            let r = catch_unwind(AssertUnwindSafe(|| verif::commit(op)));
            obs.checked("abandon_leak_commit");
            let after: Vec<u8> = verif::storage_bytes(&loader.load().expect("load")).to_vec();
            if r.is_err() || after != before {
                obs.violation(
                    P,
                    "abandon_leak_commit",
                    format!("panicked={}", r.is_err()),
                    format!(
                        "after abandoning {cut} of {} steps, the commit of a fresh operation without writes changed the stored state",
                        inner.len()
                    ),
                );
                return;
            }
        }
    }
}

impl Scenario for BufferSim {
    type Cfg = Cfg;
    type Step = Step;

    fn name(&self) -> &'static str {
        "buffersim"
    }

    fn generate(&self, seed: u64, run: u64, tier: Tier, _focus: &str) -> (Cfg, Vec<Step>) {
        let mut rng = Rng::derive(seed, run, "buffersim.cfg");
        let cfg = Cfg { pure: rng.chance(1, 3), enumerate: true };
        let mut rng = Rng::derive(seed, run, "buffersim.plan");
        let k = kinds();
        let n_blocks = if rng.chance(1, 4) {
            rng.range(2, 12)
        } else {
            match tier {
                Tier::Quick => rng.range(20, 120),
                Tier::Thorough => rng.range(20, 200),
            }
        };
        // a few "hot" kinds so that operations keep touching the same items
        let hot_pools: Vec<u8> = (0..rng.range(1, 4)).map(|_| rng.below(k.pools.len() as u64) as u8).collect();
        let hot_clocks: Vec<u8> = (0..rng.range(1, 2)).map(|_| rng.below(k.clocks.len() as u64) as u8).collect();
        let pool_kind = |rng: &mut Rng| -> u8 {
            if rng.chance(3, 4) {
                *rng.pick(&hot_pools)
            } else {
                rng.below(k.pools.len() as u64) as u8
            }
        };
        let clock_kind = |rng: &mut Rng| -> u8 {
            if rng.chance(3, 4) {
                *rng.pick(&hot_clocks)
            } else {
                rng.below(k.clocks.len() as u64) as u8
            }
        };
        let amount = |rng: &mut Rng| -> u128 {
            match rng.below(10) {
                0 => 0,
                1 => u128::MAX,
                2 => 1,
                _ => rng.log_u128(u128::MAX),
            }
        };
        let mut steps = vec![];
        for _ in 0..n_blocks {
            if rng.chance(1, 15) {
                // stray end without an open operation
                steps.push(if rng.bool() { Step::Commit } else { Step::Abandon });
            }
            steps.push(Step::Begin);
            let n_inner = if rng.chance(1, 8) { rng.range(10, 25) } else { rng.range(0, 9) };
            for _ in 0..n_inner {
                let s = match rng.below(100) {
                    0..=24 => Step::ReadPool { kind: pool_kind(&mut rng) },
                    25..=49 => Step::WritePool { kind: pool_kind(&mut rng), long: amount(&mut rng), short: amount(&mut rng) },
                    50..=57 => Step::ReadClock { kind: clock_kind(&mut rng) },
                    58..=67 => Step::WriteClock {
                        kind: clock_kind(&mut rng),
                        value: match rng.below(6) {
                            0 => i64::MAX,
                            1 => i64::MIN,
                            2 => 0,
                            _ => rng.range_i64(1_600_000_000, 2_000_000_000),
                        },
                    },
                    68..=73 => Step::ReadOther,
                    74..=81 => Step::WriteOther {
                        field: rng.below(3) as u8,
                        value: match rng.below(5) {
                            0 => 0,
                            1 => i128::MAX,
                            2 => i128::MIN,
                            _ => rng.log_u128(i128::MAX as u128) as i128 * if rng.bool() { 1 } else { -1 },
                        },
                    },
                    82..=86 => Step::NextTradeId,
                    87..=93 => Step::TransferIn { long: rng.bool(), amount: if rng.chance(1, 8) { u64::MAX } else { rng.log_u64(u64::MAX) } },
                    _ => Step::TransferOut { long: rng.bool(), amount: rng.log_u64(u64::MAX) },
                };
                steps.push(s);
            }
            match rng.below(20) {
                0..=10 => steps.push(Step::Commit),
                11..=17 => steps.push(Step::Abandon),
                _ => {} // left open: the next Begin abandons it
            }
            if rng.chance(1, 6) {
                // repeated abandonment
                for _ in 0..rng.range(1, 3) {
                    steps.push(Step::Begin);
                    if rng.bool() {
                        steps.push(Step::WritePool { kind: pool_kind(&mut rng), long: amount(&mut rng), short: amount(&mut rng) });
                    }
                    steps.push(Step::Abandon);
                    steps.push(Step::Abandon);
                }
            }
        }
        // final fresh operation that reads the hot items and commits nothing
        steps.push(Step::Begin);
        for kind in &hot_pools {
            steps.push(Step::ReadPool { kind: *kind });
        }
        steps.push(Step::ReadOther);
        steps.push(Step::Commit);
        (cfg, steps)
    }

    fn execute(&self, cfg: &Cfg, steps: &[Step], obs: &mut Obs) {
        crate::stubs::install();
        crate::stubs::set_now(1_700_000_000);
        let env = Env { kinds: kinds(), pure: cfg.pure };
        let owner = gmsol_store::ID;
        let key = Pubkey::new_from_array([7; 32]);
        let ea_key = Pubkey::new_from_array([8; 32]);
        let mut buf = AccountBuf::new(market_account_len());
        buf.data()[..8].copy_from_slice(Market::DISCRIMINATOR);
        let mut lamports = 1u64;
        let mut ea_lamports = 1u64;
        let mut ea_data: [u8; 0] = [];
        let info = AccountInfo::new(&key, false, true, &mut lamports, buf.data(), &owner, false, 0);
        let ea = AccountInfo::new(&ea_key, false, false, &mut ea_lamports, &mut ea_data, &owner, false, 0);
        let loader = AccountLoader::<Market>::try_from(&info).expect("market loader");
        {
            let mut m = loader.load_mut().expect("load_mut");
            let long = Pubkey::new_from_array([3; 32]);
            let short = if cfg.pure { long } else { Pubkey::new_from_array([4; 32]) };
            m.init(
                255,
                Pubkey::new_from_array([1; 32]),
                "buffersim",
                Pubkey::new_from_array([2; 32]),
                Pubkey::new_from_array([5; 32]),
                long,
                short,
                true,
            )
            .expect("Market::init");
        }
        let lay = layout(&loader.load().expect("load"), &env.kinds.pools);
        let mut storage = decode_plain(&loader.load().expect("load"), &env.kinds.pools, &env.kinds.clocks);

        // open operation: (real, overlay, index of its Begin step, account snapshot, storage snapshot)
        let mut op: Option<RevertibleMarket<'_, '_>> = None;
        let mut ov = Overlay::default();
        let mut begin_at = 0usize;
        let mut snapshot: Vec<u8> = vec![];
        let mut last_class: &str = "none";
        // values written by abandoned operations (diagnosis of leaks)
        let mut abandoned_pools: BTreeMap<usize, [u8; POOL_LEN]> = BTreeMap::new();

        for (i, step) in steps.iter().enumerate() {
            obs.set_step(i);
            let bytes_before: Vec<u8> = match &op {
                Some(o) => verif::storage_bytes(o.as_ref()).to_vec(),
                None => verif::storage_bytes(&loader.load().expect("load")).to_vec(),
            };
            let mut class: &str = "ok";
            let mut expect_change = false;
            let mut committed_ov: Option<Overlay> = None;
            let mut closed_block: Option<(usize, usize)> = None;
            match step {
                Step::Begin => {
                    if let Some(o) = op.take() {
                        // implicit abandon of the operation left open
                        for (k, v) in &ov.pools {
                            abandoned_pools.insert(*k, *v);
                        }
                        verif::abandon(o);
                        obs.fault("abandon");
                        obs.probe("begin_while_open");
                        closed_block = Some((begin_at, i));
                        class = "abandoned_previous";
                    }
                    if closed_block.is_some() && cfg.enumerate {
                        let (b, e) = closed_block.take().unwrap();
                        let inner: Vec<Step> = steps[b + 1..e].iter().filter(|s| s.is_inner()).cloned().collect();
                        Self::enumerate_abandons(&env, &snapshot, &storage, &inner, obs);
                        if obs.should_stop() {
                            return;
                        }
                    }
                    snapshot = info.try_borrow_data().expect("data").to_vec();
                    let rev_before = verif::buffer_rev(&loader.load().expect("load"));
                    let o = verif::begin(&loader, &ea, 255).expect("begin");
                    obs.event(|| format!("begin rev {} -> {}", rev_before, verif::rev(&o)));
                    op = Some(o);
                    ov = Overlay::default();
                    begin_at = i;
                }
                Step::Commit => match op.take() {
                    None => {
                        class = "no_op";
                    }
                    Some(o) => {
                        let had_writes = ov.has_writes();
                        let r = catch_unwind(AssertUnwindSafe(|| verif::commit(o)));
                        if r.is_err() {
                            let (loc, msg) = simcore::panic_loc::take().unwrap_or_default();
                            obs.violation(
                                P,
                                "commit_exact",
                                "panicked=true".to_string(),
                                format!("commit panicked at {loc}: {msg}"),
                            );
                            return;
                        }
                        obs.event(|| format!("commit ({} pools, clocks {}, other {})", ov.pools.len(), ov.clocks_touched, ov.other_touched));
                        apply_overlay(&mut storage, &ov);
                        expect_change = true;
                        if !had_writes {
                            obs.probe("commit_without_writes");
                            class = "empty";
                        }
                        committed_ov = Some(std::mem::take(&mut ov));
                        closed_block = Some((begin_at, i));
                    }
                },
                Step::Abandon => match op.take() {
                    None => {
                        obs.probe("abandon_without_operation");
                        class = "no_op";
                    }
                    Some(o) => {
                        for (k, v) in &ov.pools {
                            abandoned_pools.insert(*k, *v);
                        }
                        if ov.has_writes() {
                            obs.probe("abandon_with_writes");
                        }
                        verif::abandon(o);
                        obs.fault("abandon");
                        obs.event(|| "abandon".to_string());
                        ov = Overlay::default();
                        closed_block = Some((begin_at, i));
                    }
                },
                inner => match op.as_mut() {
                    None => {
                        class = "no_op";
                    }
                    Some(o) => {
                        let want = ref_inner(&storage, &mut ov, inner, &env.kinds, cfg.pure);
                        let got = real_inner(o, inner, &env.kinds);
                        obs.event(|| format!("{inner:?} -> {got:?}"));
                        if want != Seen::None || got != Seen::None {
                            obs.checked("read");
                            if got != want {
                                let (item, own, leak) = match (inner, &got) {
                                    (Step::ReadPool { kind }, Seen::Pool(g)) => {
                                        let idx = *kind as usize % env.kinds.pools.len();
                                        ("pool", ov.pools.contains_key(&idx), abandoned_pools.get(&idx) == Some(g))
                                    }
                                    (Step::ReadClock { kind }, _) => {
                                        ("clock", ov.clocks.contains_key(&(*kind as usize % env.kinds.clocks.len())), false)
                                    }
                                    (Step::ReadOther, _) => ("other", ov.other_touched, false),
                                    (Step::NextTradeId, _) => ("trade_id", false, false),
                                    _ => ("transfer", ov.other_touched, false),
                                };
                                obs.violation(
                                    P,
                                    "read",
                                    format!("item={item},own_write={own},value_of_abandoned_operation={leak}"),
                                    format!("{inner:?}: operation saw {got:?}, reference (own writes over storage) {want:?}"),
                                );
                                if obs.should_stop() {
                                    return;
                                }
                            }
                            match (&want, inner) {
                                (Seen::Pool(_), Step::ReadPool { kind }) => {
                                    let idx = *kind as usize % env.kinds.pools.len();
                                    if ov.pools.contains_key(&idx) {
                                        obs.probe("read_own_write");
                                        class = "own_write";
                                    } else if abandoned_pools.contains_key(&idx) {
                                        obs.probe("read_item_written_by_abandoned_operation");
                                        class = "after_abandoned";
                                    }
                                }
                                (Seen::Transfer(Err(())), _) => {
                                    obs.probe("transfer_overflow");
                                    class = "rejected";
                                }
                                _ => {}
                            }
                        }
                    }
                },
            }

            // ---- storage must change only at commit, and then exactly by the operation's writes
            let bytes_after: Vec<u8> = match &op {
                Some(o) => verif::storage_bytes(o.as_ref()).to_vec(),
                None => verif::storage_bytes(&loader.load().expect("load")).to_vec(),
            };
            if !expect_change {
                obs.checked("storage_changed_without_commit");
                if bytes_after != bytes_before {
                    obs.violation(
                        P,
                        "storage_changed_without_commit",
                        format!("phase=timeline,after={}", step.name()),
                        format!("{step:?} changed the stored state"),
                    );
                    if obs.should_stop() {
                        return;
                    }
                }
            } else {
                let cov = committed_ov.as_ref().expect("overlay of the commit");
                obs.checked("commit_exact");
                if let Some((key, detail)) = check_commit_bytes(&bytes_before, &bytes_after, &lay, cov) {
                    obs.violation(P, "commit_exact", key, detail);
                    if obs.should_stop() {
                        return;
                    }
                }
                let now = decode_plain(&loader.load().expect("load"), &env.kinds.pools, &env.kinds.clocks);
                if now != storage {
                    let what = if now.pools != storage.pools {
                        "pool"
                    } else if now.clocks != storage.clocks {
                        "clock"
                    } else {
                        "other"
                    };
                    obs.violation(
                        P,
                        "commit_exact",
                        format!("region={what},semantic=true,empty_commit={}", !cov.has_writes()),
                        format!("after commit the stored {what} state differs from storage + the operation's writes"),
                    );
                    if obs.should_stop() {
                        return;
                    }
                }
            }

            // ---- fault enumeration for the block that just closed
            if let Some((b, e)) = closed_block {
                if cfg.enumerate {
                    let inner: Vec<Step> = steps[b + 1..e].iter().filter(|s| s.is_inner()).cloned().collect();
                    // `storage` for the enumeration is the one the block started from
                    let pre: Plain = if committed_ov.is_some() {
                        // undo: decode from the snapshot instead
                        let mut sbuf = AccountBuf::new(snapshot.len());
                        sbuf.data().copy_from_slice(&snapshot);
                        let mut l2 = 1u64;
                        let k2 = Pubkey::new_from_array([9; 32]);
                        let i2 = AccountInfo::new(&k2, false, true, &mut l2, sbuf.data(), &owner, false, 0);
                        let ld2 = AccountLoader::<Market>::try_from(&i2).expect("loader");
                        let p = decode_plain(&ld2.load().expect("load"), &env.kinds.pools, &env.kinds.clocks);
                        p
                    } else {
                        storage.clone()
                    };
                    Self::enumerate_abandons(&env, &snapshot, &pre, &inner, obs);
                    if obs.should_stop() {
                        return;
                    }
                }
            }

            obs.outcome("op", step.name(), class);
            obs.fingerprint(&[
                hash_str(step.name()),
                hash_str(class),
                hash_str(last_class),
                op.is_some() as u64,
                ov.pools.len().min(3) as u64,
                ov.clocks_touched as u64,
                ov.other_touched as u64,
                cfg.pure as u64,
            ]);
            last_class = class;
        }
        // an operation left open at the end of the plan is abandoned
        let left_open = op.take();
        if let Some(o) = left_open {
            verif::abandon(o);
        };
    }

    fn simplify_step(&self, step: &Step) -> Vec<Step> {
        let mut out = vec![];
        match step {
            Step::WritePool { kind, long, short } => {
                if *kind != 0 {
                    out.push(Step::WritePool { kind: 0, long: *long, short: *short });
                }
                if *long > 1 || *short != 0 {
                    out.push(Step::WritePool { kind: *kind, long: 1, short: 0 });
                }
            }
            Step::ReadPool { kind } if *kind != 0 => out.push(Step::ReadPool { kind: 0 }),
            Step::ReadClock { kind } if *kind != 0 => out.push(Step::ReadClock { kind: 0 }),
            Step::WriteClock { kind, value } => {
                if *kind != 0 {
                    out.push(Step::WriteClock { kind: 0, value: *value });
                }
                if *value != 1 {
                    out.push(Step::WriteClock { kind: *kind, value: 1 });
                }
            }
            Step::WriteOther { field, value } => {
                if *value != 1 {
                    out.push(Step::WriteOther { field: *field, value: 1 });
                }
                if *field != 0 {
                    out.push(Step::WriteOther { field: 0, value: *value });
                }
            }
            Step::TransferIn { long, amount } if *amount > 1 => {
                out.push(Step::TransferIn { long: *long, amount: 1 });
                out.push(Step::TransferIn { long: *long, amount: amount / 2 });
            }
            Step::TransferOut { long, amount } if *amount > 1 => {
                out.push(Step::TransferOut { long: *long, amount: 1 });
                out.push(Step::TransferOut { long: *long, amount: amount / 2 });
            }
            _ => {}
        }
        out
    }

    fn simplify_cfg(&self, cfg: &Cfg) -> Vec<Cfg> {
        let mut out = vec![];
        if cfg.pure {
            out.push(Cfg { pure: false, enumerate: cfg.enumerate });
        }
        if cfg.enumerate {
            out.push(Cfg { pure: cfg.pure, enumerate: false });
        }
        out
    }

    fn components(&self) -> Components {
        Components {
            real: vec![
                "gmsol_store RevertibleMarket::new (start_revertible_operation), RevertibleMarket::{pool, pool_mut, clocks, clocks_mut, other, other_mut, next_trade_id, record_transferred_in/out}, Revertible::commit -> RevertibleBuffer::commit_to_storage, Cache::{cache_get_with, cache_get_mut_with} (programs/store/src/states/market/revertible/{buffer.rs,market.rs}) reached through the cfg(gmsol_verif) hook module revertible::market::verif".into(),
                "gmsol_store::states::Market as a real zero-copy account (AccountLoader over an in-memory AccountInfo), Market::init, event emission through emit_cpi -> invoke_signed".into(),
            ],
            stub: vec![
                "syscall stubs: clock sysvar, silent log, sol_invoke_signed returning Ok (event CPI sink)".into(),
                "in-memory AccountInfo for the market and the event authority (no runtime, no token accounts)".into(),
                "reference model: plain copy of pools / clocks / other state plus a copy-on-write overlay per operation".into(),
                "RevertibleLiquidityMarket's deferred mint/burn is not driven here (needs mint, store and token program accounts): covered at chain level".into(),
            ],
        }
    }

    fn rule(&self) -> String {
        "one run = a market (pure in 1/3 of the runs) and 2-200 operations; each operation = begin, 0-25 reads/writes over pool kinds (biased to 1-4 hot kinds), clocks, other state, next_trade_id, transfers, then commit (55%), abandon (35%) or left open so that the next begin abandons it; stray commits/abandons without an operation and bursts of repeated abandonment are mixed in. Fault enumeration: every operation is also replayed from a copy of the account taken before it began, abandoned after each prefix of its steps, followed by a fresh operation that reads all 16 pools, 5 clocks and the other state and commits nothing. distinct_nontrivial counts trigrams of (op, class) plus fingerprints (op, class, previous class, operation open?, number of written pools (capped), clocks written?, other written?, pure?)".into()
    }
}
