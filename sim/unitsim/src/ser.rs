//! serde helpers: 128-bit integers as decimal strings (serde_json's `Value` cannot hold them).

pub mod u128_str {
    use serde::{Deserialize, Deserializer, Serializer};
    pub fn serialize<S: Serializer>(v: &u128, s: S) -> Result<S::Ok, S::Error> {
        s.serialize_str(&v.to_string())
    }
    pub fn deserialize<'de, D: Deserializer<'de>>(d: D) -> Result<u128, D::Error> {
        let s = String::deserialize(d)?;
        s.parse().map_err(serde::de::Error::custom)
    }
}

pub mod i128_str {
    use serde::{Deserialize, Deserializer, Serializer};
    pub fn serialize<S: Serializer>(v: &i128, s: S) -> Result<S::Ok, S::Error> {
        s.serialize_str(&v.to_string())
    }
    pub fn deserialize<'de, D: Deserializer<'de>>(d: D) -> Result<i128, D::Error> {
        let s = String::deserialize(d)?;
        s.parse().map_err(serde::de::Error::custom)
    }
}
