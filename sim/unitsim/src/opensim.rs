//! C27 (unit part) `opensim` — `PriceFeedPrice::is_market_open` / `MarketStatus::openness` for a
//! feed price object living through a simulated timeline whose clock may jump to the `i64` extremes.

use std::panic::{catch_unwind, AssertUnwindSafe};

use gmsol_utils::price::feed_price::PriceFeedPrice;
use gmsol_utils::price::market_status::{
    MarketOpenness, MarketStatus, MarketStatusFlag, MarketStatusFlagContainer,
};
use gmsol_utils::price::PriceFlag;
use serde::{Deserialize, Serialize};
use simcore::rng::hash_str;
use simcore::{Components, Obs, Rng, Scenario, Tier};

const P: &str = "C27";

/// Byte offset of `market_status_value` inside `PriceFeedPrice` (only used to store *invalid* status
/// bytes, asserted by `self_test`).
const OFF_STATUS: usize = 2;

#[derive(Clone, Debug, Serialize, Deserialize)]
pub struct Cfg {
    pub start_clock: i64,
    pub timeout: u32,
    /// Initial per-feed policy flags (raw bitmap, including undefined bits).
    pub policy: u8,
}

#[derive(Clone, Copy, Debug, Serialize, Deserialize, PartialEq, Eq)]
pub enum Tracking {
    /// `LastUpdateDiffEnabled` off; the (ignored) unit flag and diff value are still stored.
    Off { secs_flag: bool, diff: u32 },
    Secs(u32),
    Nanos(u32),
}

/// Report timestamp selector, resolved against the simulated clock (clamped to `i64`).
#[derive(Clone, Copy, Debug, Serialize, Deserialize, PartialEq, Eq)]
pub enum TsSel {
    Now,
    Ago(u32),
    Ahead(u32),
    Abs(i64),
    /// `clock - timeout + off`: the report is exactly at the edge of the timeout.
    EdgeReport(i8),
    /// `clock - timeout + ceil(diff in seconds) + off`: the last update is exactly at the edge.
    EdgeUpdate(i8),
}

#[derive(Clone, Copy, Debug, Serialize, Deserialize, PartialEq, Eq)]
pub enum ClockSel {
    Abs(i64),
    /// `report ts + off`
    AfterReport(i64),
    /// `report ts + timeout + off`
    EdgeReport(i8),
    /// `report ts - ceil(diff in seconds) + timeout + off`
    EdgeUpdate(i8),
}

#[derive(Clone, Debug, Serialize, Deserialize)]
pub enum Step {
    /// A new report replaces the stored feed price.
    Report { status: u8, open: bool, tracking: Tracking, ts: TsSel },
    /// Keeper changes the per-feed policy flags.
    Policy { flags: u8 },
    /// Keeper changes the close timeout.
    Timeout { t: u32 },
    Advance { dt: u32 },
    Regress { dt: u32 },
    Jump { to: ClockSel },
    /// Query with the current timeout (`None`) or another one.
    Query { timeout: Option<u32> },
}

fn clamp(x: i128) -> i64 {
    x.clamp(i64::MIN as i128, i64::MAX as i128) as i64
}

/// Reference: is the status closed under the policy? (Transcribed from the statement and the doc
/// comments of `MarketStatus` / `MarketStatusFlag`: all-zero policy = RegularHours open, every other
/// known status closed; `Disabled` and invalid values carry no information.)
fn ref_status_closed(status: u8, policy: u8) -> Option<bool> {
    let bit = |i: u8| policy & (1 << i) != 0;
    // flag positions: AllowUnknown 0, AllowPreMarket 1, HaltRegularHours 2, AllowPostMarket 3,
    // AllowOvernight 4, AllowClosed 5
    match status {
        1 => Some(!bit(0)),
        2 => Some(!bit(1)),
        3 => Some(bit(2)),
        4 => Some(!bit(3)),
        5 => Some(!bit(4)),
        6 => Some(!bit(5)),
        _ => None, // Disabled (0) or invalid: skip
    }
}

struct Ref {
    status: u8,
    open: bool,
    tracking: Tracking,
    ts: i64,
}

impl Ref {
    /// Last-update difference in nanoseconds when tracking is enabled.
    fn diff_nanos(&self) -> Option<i128> {
        match self.tracking {
            Tracking::Off { .. } => None,
            Tracking::Secs(s) => Some(s as i128 * 1_000_000_000),
            Tracking::Nanos(n) => Some(n as i128),
        }
    }
    fn diff_secs_ceil(&self) -> i128 {
        self.diff_nanos().map(|n| (n + 999_999_999) / 1_000_000_000).unwrap_or(0)
    }
    /// The reference predicate, in nanoseconds, in `i128`.
    fn is_open(&self, now: i64, timeout: u32, policy: u8) -> bool {
        if ref_status_closed(self.status, policy) == Some(true) {
            return false;
        }
        if !self.open {
            return false;
        }
        match self.diff_nanos() {
            None => true,
            Some(d) => {
                const NS: i128 = 1_000_000_000;
                let report_age = (now as i128 - self.ts as i128) * NS;
                let update_age = report_age + d;
                let limit = timeout as i128 * NS;
                report_age <= limit && update_age <= limit
            }
        }
    }
    fn age_class(&self, now: i64, timeout: u32) -> u64 {
        let age = now as i128 - self.ts as i128;
        let t = timeout as i128;
        if age < i64::MIN as i128 {
            0
        } else if age < 0 {
            1
        } else if age == 0 {
            2
        } else if age < t {
            3
        } else if age == t {
            4
        } else if age <= i64::MAX as i128 {
            5
        } else {
            6
        }
    }
}

fn build(r: &Ref) -> PriceFeedPrice {
    let (enabled, secs, diff) = match r.tracking {
        Tracking::Off { secs_flag, diff } => (false, secs_flag, diff),
        Tracking::Secs(d) => (true, true, d),
        Tracking::Nanos(d) => (true, false, d),
    };
    let mut p = PriceFeedPrice::new(8, r.ts, 100, 99, 101, diff);
    p.set_flag(PriceFlag::Open, r.open);
    p.set_flag(PriceFlag::LastUpdateDiffEnabled, enabled);
    p.set_flag(PriceFlag::LastUpdateDiffSecs, secs);
    match MarketStatus::try_from(r.status) {
        Ok(s) => p.set_market_status(s),
        Err(_) => {
            // an invalid stored byte (documented to read as `Disabled`)
            bytemuck::bytes_of_mut(&mut p)[OFF_STATUS] = r.status;
        }
    }
    p
}

fn self_test() {
    let mut p = PriceFeedPrice::new(0, 0, 1, 1, 1, 0);
    p.set_market_status(MarketStatus::Closed);
    assert_eq!(bytemuck::bytes_of(&p)[OFF_STATUS], 6, "market_status_value offset");
    p.set_market_status(MarketStatus::Disabled);
    assert_eq!(bytemuck::bytes_of(&p)[OFF_STATUS], 0);
    // flag bit positions the reference relies on
    for (i, f) in [
        MarketStatusFlag::AllowUnknown,
        MarketStatusFlag::AllowPreMarket,
        MarketStatusFlag::HaltRegularHours,
        MarketStatusFlag::AllowPostMarket,
        MarketStatusFlag::AllowOvernight,
        MarketStatusFlag::AllowClosed,
    ]
    .into_iter()
    .enumerate()
    {
        assert_eq!(u8::from(f) as usize, i, "policy flag position");
    }
}

pub struct OpenSim;

impl Scenario for OpenSim {
    type Cfg = Cfg;
    type Step = Step;

    fn name(&self) -> &'static str {
        "opensim"
    }

    fn generate(&self, seed: u64, run: u64, tier: Tier, _focus: &str) -> (Cfg, Vec<Step>) {
        let mut rng = Rng::derive(seed, run, "opensim.cfg");
        // Dedicated run kinds: ordinary timeline, extreme jumps, regressions.
        let kind = *rng.weighted(&[(50u32, 0u8), (35, 1), (15, 2)]);
        let pick_timeout = |rng: &mut Rng| -> u32 {
            match rng.below(10) {
                0 => 0,
                1 => 1,
                2 => u32::MAX,
                3 => u32::MAX - 1,
                4..=6 => rng.range(30, 7200) as u32,
                _ => rng.log_u64(u32::MAX as u64) as u32,
            }
        };
        let pick_abs = |rng: &mut Rng| -> i64 {
            match rng.below(12) {
                0 => i64::MIN,
                1 => i64::MIN + 1,
                2 => i64::MAX,
                3 => i64::MAX - 1,
                4 => 0,
                5 => -1,
                6 => i64::MAX - rng.log_u64(1 << 34) as i64,
                7 => i64::MIN + rng.log_u64(1 << 34) as i64,
                8 => u32::MAX as i64 + rng.range_i64(-3, 3),
                9 => rng.range_i64(i64::MIN, i64::MAX),
                _ => rng.range_i64(-(1 << 40), 1 << 40),
            }
        };
        let start_clock = if kind == 1 && rng.bool() { pick_abs(&mut rng) } else { rng.range_i64(1_600_000_000, 2_000_000_000) };
        let cfg = Cfg { start_clock, timeout: pick_timeout(&mut rng), policy: rng.u64() as u8 & if rng.chance(1, 4) { 0xff } else { 0x3f } };

        let mut rng = Rng::derive(seed, run, "opensim.plan");
        // mostly long timelines (a run costs about 0.4 µs per step), with a share of short ones
        let n = if rng.chance(1, 5) {
            rng.range(20, 200)
        } else {
            match tier {
                Tier::Quick => rng.range(2000, 8000),
                Tier::Thorough => rng.range(2000, 12000),
            }
        };
        let pick_diff = |rng: &mut Rng| -> u32 {
            match rng.below(10) {
                0 => 0,
                1 => 1,
                2 => 999_999_999,
                3 => 1_000_000_000,
                4 => 1_000_000_001,
                5 => u32::MAX,
                6 => rng.range(1, 600) as u32,
                _ => rng.log_u64(u32::MAX as u64) as u32,
            }
        };
        let mut steps = Vec::with_capacity(n as usize + 2);
        let edge = |rng: &mut Rng| rng.range_i64(-2, 2) as i8;
        for _ in 0..n {
            let c = rng.below(100);
            let s = match c {
                0..=24 => {
                    let tracking = match rng.below(10) {
                        0..=1 => Tracking::Off { secs_flag: rng.bool(), diff: pick_diff(&mut rng) },
                        2..=5 => Tracking::Secs(pick_diff(&mut rng)),
                        _ => Tracking::Nanos(pick_diff(&mut rng)),
                    };
                    let ts = match rng.below(20) {
                        0..=3 => TsSel::Now,
                        4..=7 => TsSel::Ago(rng.log_u64(u32::MAX as u64) as u32),
                        8..=9 => TsSel::Ahead(rng.log_u64(u32::MAX as u64) as u32),
                        10..=13 => TsSel::EdgeReport(edge(&mut rng)),
                        14..=17 => TsSel::EdgeUpdate(edge(&mut rng)),
                        _ => {
                            if kind == 1 {
                                TsSel::Abs(pick_abs(&mut rng))
                            } else {
                                TsSel::Ago(rng.range(0, 7200) as u32)
                            }
                        }
                    };
                    Step::Report {
                        status: if rng.chance(1, 12) { rng.range(7, 255) as u8 } else { rng.range(0, 6) as u8 },
                        open: rng.chance(4, 5),
                        tracking,
                        ts,
                    }
                }
                25..=34 => Step::Policy { flags: rng.u64() as u8 & if rng.chance(1, 4) { 0xff } else { 0x3f } },
                35..=39 => Step::Timeout { t: pick_timeout(&mut rng) },
                40..=59 => Step::Advance { dt: if rng.chance(1, 6) { 0 } else { rng.log_u64(if kind == 0 { 100_000 } else { u32::MAX as u64 }) as u32 } },
                60..=64 => {
                    if kind == 2 || rng.chance(1, 5) {
                        Step::Regress { dt: rng.log_u64(600) as u32 }
                    } else {
                        Step::Advance { dt: rng.range(0, 30) as u32 }
                    }
                }
                65..=84 => {
                    let to = match rng.below(10) {
                        0..=3 => ClockSel::EdgeReport(edge(&mut rng)),
                        4..=7 => ClockSel::EdgeUpdate(edge(&mut rng)),
                        8 => ClockSel::AfterReport(rng.range_i64(-10, 100_000)),
                        _ => {
                            if kind == 1 {
                                ClockSel::Abs(pick_abs(&mut rng))
                            } else {
                                ClockSel::AfterReport(rng.range_i64(0, 10_000_000))
                            }
                        }
                    };
                    Step::Jump { to }
                }
                _ => Step::Query { timeout: if rng.chance(1, 3) { Some(pick_timeout(&mut rng)) } else { None } },
            };
            steps.push(s);
        }
        (cfg, steps)
    }

    fn execute(&self, cfg: &Cfg, steps: &[Step], obs: &mut Obs) {
        self_test();
        let mut clock = cfg.start_clock;
        let mut timeout = cfg.timeout;
        let mut policy = cfg.policy;
        let mut r = Ref { status: 0, open: false, tracking: Tracking::Off { secs_flag: false, diff: 0 }, ts: cfg.start_clock };
        let mut price = build(&r);

        for (i, step) in steps.iter().enumerate() {
            obs.set_step(i);
            let mut q_timeout = timeout;
            let opname: &str;
            match *step {
                Step::Report { status, open, tracking, ts } => {
                    opname = "report";
                    let tmp = Ref { status, open, tracking, ts: 0 };
                    let t = match ts {
                        TsSel::Now => clock,
                        TsSel::Ago(a) => clamp(clock as i128 - a as i128),
                        TsSel::Ahead(a) => clamp(clock as i128 + a as i128),
                        TsSel::Abs(x) => x,
                        TsSel::EdgeReport(off) => clamp(clock as i128 - timeout as i128 + off as i128),
                        TsSel::EdgeUpdate(off) => {
                            clamp(clock as i128 - timeout as i128 + tmp.diff_secs_ceil() + off as i128)
                        }
                    };
                    r = Ref { ts: t, ..tmp };
                    price = build(&r);
                    if MarketStatus::try_from(status).is_err() {
                        obs.probe("invalid_status_byte");
                    }
                    if t > clock {
                        obs.fault("future_dated_report");
                    }
                    obs.event(|| format!("report status={status} open={open} tracking={tracking:?} ts={t} (clock {clock})"));
                }
                Step::Policy { flags } => {
                    opname = "policy";
                    policy = flags;
                    obs.event(|| format!("policy flags={flags:#010b}"));
                }
                Step::Timeout { t } => {
                    opname = "timeout";
                    timeout = t;
                    q_timeout = t;
                    obs.event(|| format!("timeout={t}"));
                }
                Step::Advance { dt } => {
                    opname = "advance";
                    let n = clamp(clock as i128 + dt as i128);
                    obs.sim_seconds += (n as i128 - clock as i128) as u64;
                    if dt == 0 {
                        obs.fault("clock_stall");
                    }
                    clock = n;
                }
                Step::Regress { dt } => {
                    opname = "regress";
                    clock = clamp(clock as i128 - dt as i128);
                    obs.fault("clock_regress");
                }
                Step::Jump { to } => {
                    opname = "jump";
                    let n = match to {
                        ClockSel::Abs(x) => x,
                        ClockSel::AfterReport(off) => clamp(r.ts as i128 + off as i128),
                        ClockSel::EdgeReport(off) => clamp(r.ts as i128 + timeout as i128 + off as i128),
                        ClockSel::EdgeUpdate(off) => {
                            clamp(r.ts as i128 - r.diff_secs_ceil() + timeout as i128 + off as i128)
                        }
                    };
                    if n == i64::MAX || n == i64::MIN {
                        obs.fault("clock_extreme_jump");
                    } else if n < clock {
                        obs.fault("clock_regress");
                    } else {
                        obs.fault("clock_jump");
                    }
                    if n > clock {
                        // a single jump counts for at most ten years of simulated time
                        obs.sim_seconds += (n as i128 - clock as i128).min(315_360_000) as u64;
                    }
                    clock = n;
                }
                Step::Query { timeout: t } => {
                    opname = "query";
                    if let Some(t) = t {
                        q_timeout = t;
                    }
                }
            }

            // ---- query after every step
            let container = MarketStatusFlagContainer::from_value(policy);
            let got = catch_unwind(AssertUnwindSafe(|| price.is_market_open(clock, q_timeout, container)));
            let want = r.is_open(clock, q_timeout, policy);
            let age = clock as i128 - r.ts as i128;
            let key_of = |r: &Ref| {
                format!(
                    "tracking={},age={},status_closed={:?},open_flag={}",
                    match r.tracking {
                        Tracking::Off { .. } => "off",
                        Tracking::Secs(_) => "secs",
                        Tracking::Nanos(_) => "nanos",
                    },
                    match r.age_class(clock, q_timeout) {
                        0 => "below_i64",
                        1 => "negative",
                        2 => "zero",
                        3 => "within",
                        4 => "at_timeout",
                        5 => "beyond",
                        _ => "above_i64",
                    },
                    ref_status_closed(r.status, policy),
                    r.open
                )
            };
            obs.checked("is_market_open");
            let got = match got {
                Ok(g) => g,
                Err(_) => {
                    let (loc, msg) = simcore::panic_loc::take().unwrap_or_default();
                    obs.violation(
                        P,
                        "panic",
                        key_of(&r),
                        format!(
                            "is_market_open panicked at {loc}: {msg}; now={clock} ts={} timeout={q_timeout} tracking={:?} status={} policy={policy:#x}",
                            r.ts, r.tracking, r.status
                        ),
                    );
                    return;
                }
            };
            if got != want {
                obs.violation(
                    P,
                    "is_market_open",
                    key_of(&r),
                    format!(
                        "is_market_open(now={clock}, timeout={q_timeout}, policy={policy:#010b}) = {got}, reference {want}; ts={} (age {age}) tracking={:?} status={} open_flag={}",
                        r.ts, r.tracking, r.status, r.open
                    ),
                );
                if obs.should_stop() {
                    return;
                }
            }
            // ---- status resolution on its own
            obs.checked("openness");
            let st = price.market_status();
            let o = st.openness(container);
            let want_o = ref_status_closed(r.status, policy);
            let ok = match (o, want_o) {
                (MarketOpenness::Skip, None) => true,
                (MarketOpenness::Closed, Some(true)) => true,
                (MarketOpenness::Open, Some(false)) => true,
                _ => false,
            };
            if !ok {
                obs.violation(
                    P,
                    "openness",
                    format!("status={},expected_closed={want_o:?}", r.status),
                    format!("status byte {} under policy {policy:#010b}: openness() disagrees with the reference {want_o:?}", r.status),
                );
                if obs.should_stop() {
                    return;
                }
            }
            // ---- reach
            if age > i64::MAX as i128 {
                obs.probe("age_above_i64");
            } else if age < i64::MIN as i128 {
                obs.probe("age_below_i64");
            }
            if r.diff_nanos().is_some() {
                let ua = age + r.diff_secs_ceil();
                if age <= q_timeout as i128 && ua > q_timeout as i128 {
                    obs.probe("report_fresh_update_stale");
                }
                if ua == q_timeout as i128 {
                    obs.probe("update_exactly_at_timeout");
                }
                if age == q_timeout as i128 {
                    obs.probe("report_exactly_at_timeout");
                }
                if let Tracking::Nanos(n) = r.tracking {
                    if n % 1_000_000_000 != 0 && ua == q_timeout as i128 {
                        obs.probe("nanos_fraction_at_edge");
                    }
                }
            }
            if want {
                obs.probe("open");
            }
            obs.outcome("feed", opname, if want { "ok" } else { "closed" });
            obs.fingerprint(&[
                r.status.min(7) as u64,
                match want_o {
                    None => 0,
                    Some(true) => 1,
                    Some(false) => 2,
                },
                r.open as u64,
                match r.tracking {
                    Tracking::Off { .. } => 0,
                    Tracking::Secs(_) => 1,
                    Tracking::Nanos(_) => 2,
                },
                r.age_class(clock, q_timeout),
                (age + r.diff_secs_ceil() <= q_timeout as i128) as u64,
                hash_str(opname),
            ]);
        }
    }

    fn simplify_step(&self, step: &Step) -> Vec<Step> {
        let mut out = vec![];
        match step {
            Step::Report { status, open, tracking, ts } => {
                let mk = |status: u8, open: bool, tracking: Tracking, ts: TsSel| Step::Report { status, open, tracking, ts };
                if *ts != TsSel::Now {
                    out.push(mk(*status, *open, *tracking, TsSel::Now));
                }
                if *status != 0 {
                    out.push(mk(0, *open, *tracking, *ts));
                }
                match tracking {
                    Tracking::Off { secs_flag: false, diff: 0 } => {}
                    Tracking::Off { .. } => out.push(mk(*status, *open, Tracking::Off { secs_flag: false, diff: 0 }, *ts)),
                    Tracking::Secs(d) => {
                        out.push(mk(*status, *open, Tracking::Off { secs_flag: false, diff: 0 }, *ts));
                        if *d > 0 {
                            out.push(mk(*status, *open, Tracking::Secs(0), *ts));
                            out.push(mk(*status, *open, Tracking::Secs(d / 2), *ts));
                        }
                    }
                    Tracking::Nanos(d) => {
                        out.push(mk(*status, *open, Tracking::Secs(d.div_ceil(1_000_000_000)), *ts));
                        if *d > 0 {
                            out.push(mk(*status, *open, Tracking::Nanos(d / 2), *ts));
                        }
                    }
                }
                if let TsSel::Ago(a) | TsSel::Ahead(a) = ts {
                    if *a > 1 {
                        out.push(mk(*status, *open, *tracking, TsSel::Ago(a / 2)));
                    }
                }
            }
            Step::Policy { flags } if *flags != 0 => out.push(Step::Policy { flags: 0 }),
            Step::Timeout { t } if *t != 0 => {
                out.push(Step::Timeout { t: 0 });
                out.push(Step::Timeout { t: t / 2 });
            }
            Step::Advance { dt } if *dt != 0 => {
                out.push(Step::Advance { dt: 0 });
                out.push(Step::Advance { dt: dt / 2 });
            }
            Step::Regress { dt } if *dt != 0 => out.push(Step::Regress { dt: dt / 2 }),
            Step::Jump { to } => match to {
                ClockSel::Abs(x) if *x != 0 => {
                    out.push(Step::Jump { to: ClockSel::Abs(0) });
                    out.push(Step::Jump { to: ClockSel::Abs(x / 2) });
                }
                ClockSel::AfterReport(o) if *o != 0 => out.push(Step::Jump { to: ClockSel::AfterReport(o / 2) }),
                ClockSel::EdgeReport(o) if *o != 0 => out.push(Step::Jump { to: ClockSel::EdgeReport(0) }),
                ClockSel::EdgeUpdate(o) if *o != 0 => out.push(Step::Jump { to: ClockSel::EdgeUpdate(0) }),
                _ => {}
            },
            Step::Query { timeout: Some(_) } => out.push(Step::Query { timeout: None }),
            _ => {}
        }
        out
    }

    fn simplify_cfg(&self, cfg: &Cfg) -> Vec<Cfg> {
        let mut out = vec![];
        if cfg.policy != 0 {
            out.push(Cfg { policy: 0, ..cfg.clone() });
        }
        if cfg.start_clock != 0 {
            out.push(Cfg { start_clock: 0, ..cfg.clone() });
        }
        if cfg.timeout != 0 {
            out.push(Cfg { timeout: cfg.timeout / 2, ..cfg.clone() });
        }
        out
    }

    fn components(&self) -> Components {
        Components {
            real: vec![
                "gmsol_utils::price::feed_price::PriceFeedPrice::{new, set_flag, set_market_status, market_status, is_market_open} (crates/utils/src/price/feed_price.rs)".into(),
                "gmsol_utils::price::market_status::{MarketStatus::openness, MarketStatusFlagContainer::from_value} (crates/utils/src/price/market_status.rs)".into(),
            ],
            stub: vec![
                "simulated clock, keeper (policy flags, timeout) and report source; invalid status bytes are written through bytemuck at offset 2 (asserted by a self-test)".into(),
                "reference predicate in i128 nanoseconds: not closed under policy AND open flag AND (tracking off OR (now - ts <= timeout AND now - ts + diff <= timeout))".into(),
            ],
        }
    }

    fn rule(&self) -> String {
        "one run = a feed price living through 20-12000 timeline steps (new report with status 0..=6 or an invalid byte, open flag, last-update tracking off/seconds/nanoseconds with boundary diffs, timestamp now/ago/ahead/absolute/at the freshness edges; policy change; timeout change; clock advance/stall/regress/jump incl. i64::MIN/MAX and edges of the two freshness limits; query with the current or another timeout); run kinds: ordinary (50%), extreme jumps (35%), regressions (15%). is_market_open is compared with the reference after every step. distinct_nontrivial counts trigrams of (op, open/closed) plus fingerprints (status, policy verdict, open flag, tracking mode, report-age class {below i64, negative, 0, <T, =T, >T, above i64}, update fresh?, op)".into()
    }
}
