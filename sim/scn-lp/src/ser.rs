//! 128-bit integers as decimal strings in plans (serde_json cannot round-trip them as numbers).

use serde::{Deserialize, Deserializer, Serialize, Serializer};

#[derive(Clone, Copy, Debug, PartialEq, Eq, PartialOrd, Ord, Default)]
pub struct U(pub u128);

impl Serialize for U {
    fn serialize<S: Serializer>(&self, s: S) -> Result<S::Ok, S::Error> {
        s.serialize_str(&self.0.to_string())
    }
}

impl<'de> Deserialize<'de> for U {
    fn deserialize<D: Deserializer<'de>>(d: D) -> Result<U, D::Error> {
        let s = String::deserialize(d)?;
        s.parse().map(U).map_err(serde::de::Error::custom)
    }
}
