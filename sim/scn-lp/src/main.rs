fn main() {
    let out = chainsim::rt::silence_stdout();
    simcore::out::set_output(out);
    simcore::cli_main(&scn_lp::registry, scn_lp::PROPERTIES)
}
