//! Independent reference arithmetic for C38 (big integers, written from the property statement).

use num_bigint::BigUint;
use num_traits::{ToPrimitive, Zero};

pub const BUCKETS: usize = 53;
pub const WEEK: u128 = 7 * 24 * 3600;
/// 365.25 days.
pub const YEAR: u128 = 31_557_600;
pub const UNIT: u128 = 100_000_000_000_000_000_000; // 1e20
pub const APY_CAP: u128 = 2 * UNIT; // 200 %

fn bu(x: u128) -> BigUint {
    BigUint::from(x)
}

fn ceil_div(a: &BigUint, b: &BigUint) -> BigUint {
    (a + b - BigUint::from(1u8)) / b
}

/// Number of elapsed seconds of `[0, total)` that fall into weekly bucket `b` (bucket 52 is open-ended).
pub fn seconds_in_bucket(total: u128, b: usize) -> u128 {
    let lo = b as u128 * WEEK;
    if total <= lo {
        return 0;
    }
    let over = total - lo;
    if b == BUCKETS - 1 {
        over
    } else {
        over.min(WEEK)
    }
}

/// Σ over every elapsed second of the bucket APY of that second.
pub fn apy_second_sum(total: u128, grad: &[u128; BUCKETS]) -> BigUint {
    let mut s = BigUint::zero();
    for (b, g) in grad.iter().enumerate() {
        let n = seconds_in_bucket(total, b);
        if n == 0 {
            break;
        }
        s += bu(*g) * bu(n);
    }
    s
}

#[derive(Clone, Copy, Debug, PartialEq, Eq)]
pub struct Bounds {
    /// Every intermediate quantity rounded down.
    pub lo: u64,
    /// Every intermediate quantity rounded up.
    pub hi: u64,
}

fn sat_u64(x: &BigUint) -> u64 {
    x.to_u64().unwrap_or(u64::MAX)
}

/// Reward interval for a stake of `value` (1e20 USD) that started `total` seconds before the accrual
/// end, with cost integral `integral` (Σ dt·1e20/cost since the last snapshot).
///
/// reward = value · (avg_apy / YEAR) · integral / 1e40 where avg_apy = (Σ_seconds apy(second)) / total.
/// The lower bound rounds the average, the per-second rate and both products down, the upper bound
/// rounds all of them up; amounts above `u64::MAX` saturate.
pub fn reward_bounds(value: u128, total: u128, grad: &[u128; BUCKETS], integral: u128) -> Bounds {
    if integral == 0 || value == 0 {
        return Bounds { lo: 0, hi: 0 };
    }
    assert!(total > 0);
    let unit = bu(UNIT);
    let sum = apy_second_sum(total, grad);
    let t = bu(total);
    let avg_lo = &sum / &t;
    let avg_hi = ceil_div(&sum, &t);
    let y = bu(YEAR);
    let ps_lo = &avg_lo / &y;
    let ps_hi = ceil_div(&avg_hi, &y);
    let f_lo = bu(value) * &ps_lo / &unit;
    let f_hi = ceil_div(&(bu(value) * &ps_hi), &unit);
    let r_lo = &f_lo * bu(integral) / &unit;
    let r_hi = ceil_div(&(&f_hi * bu(integral)), &unit);
    Bounds { lo: sat_u64(&r_lo), hi: sat_u64(&r_hi) }
}

/// floor(value · remaining / old)
pub fn scaled_value(value: u128, remaining: u64, old: u64) -> u128 {
    (bu(value) * bu(remaining as u128) / bu(old as u128)).to_u128().expect("fits")
}

#[cfg(test)]
mod tests {
    use super::*;

    /// Literal per-second definition (slow), to validate the closed form.
    fn literal(total: u128, grad: &[u128; BUCKETS]) -> BigUint {
        let mut s = BigUint::zero();
        let mut j = 0u128;
        // step by hours to stay fast: every second of an hour is in the same week bucket as long as
        // WEEK % 3600 == 0
        while j < total {
            let step = 3600u128.min(total - j);
            let week = (j / WEEK) as usize;
            s += bu(grad[week.min(BUCKETS - 1)]) * bu(step);
            j += step;
        }
        s
    }

    #[test]
    fn closed_form_matches_literal() {
        let mut g = [0u128; BUCKETS];
        for (i, x) in g.iter_mut().enumerate() {
            *x = (i as u128 * 7919 + 13) * 1_000_000_007;
        }
        for total in [1u128, 3599, 3600, WEEK - 1, WEEK, WEEK + 1, 2 * WEEK + 5, 52 * WEEK, 52 * WEEK + 1, 53 * WEEK, 53 * WEEK + 7, 70 * WEEK + 99] {
            assert_eq!(apy_second_sum(total, &g), literal(total, &g), "total={total}");
        }
    }
}
