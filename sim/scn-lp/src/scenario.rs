//! C38 `lp_staking` — LP staking on the real liquidity-provider program (stake GM, APY gradient updates,
//! clock jumps, claims, partial / full unstakes, claim toggle, dust, duplicates / reordering).

use std::collections::BTreeMap;

use chainsim::deploy::{token_balance, Dep};
use chainsim::rt::{TxOpts, TxOutcome, World};
use serde::{Deserialize, Serialize};
use simcore::{Components, Obs, Rng, Scenario, Tier};

use crate::lpdeploy::*;
use crate::refm::{reward_bounds, scaled_value, APY_CAP, BUCKETS, UNIT, WEEK};
use crate::ser::U;

const P: &str = "C38";
const PA: &str = "C19";
const MAX_CLOCK: i64 = 4_000_000_000;
/// Above this many GT cost-growth steps the mint itself may legitimately overflow in the store.
const MAX_GROW_STEPS: u128 = 2_000;
const INJECTED_CPI_FAILURE: u32 = 0xdead_0002;

// ------------------------------------------------------------------ plan

#[derive(Clone, Debug, Serialize, Deserialize)]
pub struct Cfg {
    pub n_users: u8,
    pub n_markets: u8,
    pub n_pids: u8,
    /// Fault-injecting sub-batch (tx loss / duplication / delay, strangers, injected CPI failures,
    /// misconfiguration). `false` = fault-free sub-batch.
    pub faults: bool,
    pub claim_enabled: bool,
    pub min_stake_value: U,
    pub gradient: Vec<U>,
    pub gt_cost: U,
    pub gt_grow_factor: U,
    pub gt_grow_step: u64,
    /// C19 twins: every landed privileged / owner-gated LP transaction is re-run on a fork of its
    /// pre-state, re-signed by addresses lacking the authority / ownership.
    #[serde(default)]
    pub c19: bool,
}

#[derive(Clone, Copy, Debug, Serialize, Deserialize, PartialEq, Eq, PartialOrd, Ord)]
pub struct PosRef {
    pub user: u8,
    pub market: u8,
    pub pid: u8,
}

#[derive(Clone, Copy, Debug, Serialize, Deserialize, PartialEq, Eq)]
pub enum Amt {
    /// The whole staked amount (full exit).
    Full,
    FullMinus(u64),
    FullPlus(u64),
    /// staked × n / 256
    Frac(u8),
    Abs(u64),
    Zero,
}

#[derive(Clone, Copy, Debug, Serialize, Deserialize, PartialEq, Eq)]
pub enum Who {
    Owner,
    /// The outsider (holds GM and a GT account, owns no position).
    Stranger,
    /// Another staker.
    Other,
}

#[derive(Clone, Copy, Debug, Serialize, Deserialize, PartialEq, Eq)]
pub enum Op {
    Stake { pos: PosRef, amount: u64 },
    Claim { pos: PosRef },
    Unstake { pos: PosRef, amt: Amt },
}

#[derive(Clone, Copy, Debug, Serialize, Deserialize, PartialEq, Eq)]
pub enum Deliver {
    Now,
    Lost,
    /// Now and once more `k` steps later.
    Dup(u8),
    /// Only `k` steps later.
    Delay(u8),
}

/// What-if forks: same world with a larger stake value / a longer cost integral.
#[derive(Clone, Copy, Debug, Serialize, Deserialize, PartialEq, Eq)]
pub struct Probe {
    pub dv: U,
    pub dc: U,
}

#[derive(Clone, Debug, Serialize, Deserialize, PartialEq, Eq)]
pub enum AdminOp {
    SetClaim(bool),
    MinStake(U),
    /// Boundary: set the minimum to the value the position would keep after unstaking
    /// `staked × frac / 256`, plus `off`.
    MinStakeAt { pos: PosRef, frac: u8, off: i8 },
    Range { start: u8, end: u8, values: Vec<U> },
    Sparse { idx: Vec<u8>, values: Vec<U> },
    Disable { market: u8 },
    Staleness(u32),
    /// Propose the other administrator key as the new authority.
    TransferAuthority,
    /// Signed by the pending authority (or, when none is pending, by the other administrator key).
    AcceptAuthority,
    /// Extra controller (index 1..=3) for a market token.
    CreateController { market: u8, index: u8 },
}

#[derive(Clone, Debug, Serialize, Deserialize, PartialEq, Eq)]
pub enum Step {
    Clock { dt: i64 },
    /// Jump to `start(pos) + weeks·WEEK + off` when that is in the future.
    Align { pos: PosRef, weeks: u16, off: i8 },
    Price { token: u8, bps: u32 },
    User { op: Op, who: Who, deliver: Deliver, fail_cpi: u8, probe: Option<Probe> },
    Admin { op: AdminOp, stranger: bool },
    Dust { pos: PosRef, amount: u64 },
}

// ------------------------------------------------------------------ model

#[derive(Clone, Debug)]
struct MPos {
    amount: u64,
    value: u128,
    start: i64,
    snap: u128,
    dust: u64,
}

struct Sim<'a> {
    w: World,
    d: &'a Dep,
    a: &'a LpAddrs,
    cfg: &'a Cfg,
    pos: BTreeMap<PosRef, MPos>,
    grad: [u128; BUCKETS],
    claim_enabled: bool,
    min_stake: u128,
    gt: [u64; N_USERS],
    disabled: [Option<(i64, u128)>; N_MARKETS],
    bps: [u32; 3],
    gm_total: [u64; N_MARKETS],
    pending: Vec<(usize, Op, Who, u8)>,
    auth: solana_program::pubkey::Pubkey,
    pending_auth: Option<solana_program::pubkey::Pubkey>,
    staleness: u32,
}

/// An administrative instruction with every argument resolved.
enum RAdmin {
    SetClaim(bool),
    MinStake(u128, bool),
    Range(u8, u8, Vec<u128>),
    Sparse(Vec<u8>, Vec<u128>),
    Disable(usize),
    Staleness(u32),
    Transfer(solana_program::pubkey::Pubkey),
    Accept,
    Create(usize, u64),
}

fn dur_class(total: u128) -> &'static str {
    if total == 0 {
        "dur_same_second"
    } else if total < WEEK {
        "dur_lt_week"
    } else if total % WEEK == 0 {
        "dur_exact_weeks"
    } else if total < 52 * WEEK {
        "dur_1_52_weeks"
    } else if total < 53 * WEEK {
        "dur_week_52"
    } else if total < 106 * WEEK {
        "dur_gt_53_weeks"
    } else {
        "dur_gt_2_years"
    }
}

impl<'a> Sim<'a> {
    fn norm(&self, p: PosRef) -> PosRef {
        PosRef { user: p.user % self.cfg.n_users, market: p.market % self.cfg.n_markets, pid: p.pid % self.cfg.n_pids }
    }

    fn keys(&self, p: PosRef) -> (solana_program::pubkey::Pubkey, solana_program::pubkey::Pubkey) {
        self.a.positions[p.user as usize][p.market as usize][p.pid as usize]
    }

    fn gm_balance(&self, user: usize, market: usize) -> u64 {
        token_balance(&self.w, &self.a.gm_atas[user][market])
    }

    fn now(&self) -> i64 {
        self.w.clock.unix_timestamp
    }

    /// Accrual end and cumulative factor for a landed claim/unstake on `market`.
    fn accrual_end(&self, w: &World, market: usize) -> (i64, u128) {
        match self.disabled[market] {
            Some((at, cum)) => (at, cum),
            None => (w.clock.unix_timestamp, read_gt(w, self.d).cum),
        }
    }

    /// Oracle 1: minted GT within the reference interval. Returns false when a violation was raised.
    fn check_reward(&self, obs: &mut Obs, tag: &str, value: u128, start: i64, snap: u128, end: i64, cum_now: u128, minted: u64) -> bool {
        if end < start || cum_now < snap {
            obs.violation(P, "reward_window", format!("op={tag}"), format!("landed with end={end} start={start} cum_now={cum_now} snap={snap}"));
            return false;
        }
        let total = (end - start) as u128;
        let integral = cum_now - snap;
        if total == 0 && integral > 0 {
            // the average over zero elapsed seconds is undefined (reachable through the forged-snapshot fork
            // probe in the stake's own second, or after a clock regression)
            obs.probe("zero_duration_positive_integral");
            return true;
        }
        let b = reward_bounds(value, total, &self.grad, integral);
        obs.probe(dur_class(total));
        if b.lo > 0 {
            obs.probe("reward_positive");
        }
        obs.require(
            b.lo <= minted && minted <= b.hi,
            P,
            "reward_schedule",
            || format!("op={tag},dir={},dur={}", if minted < b.lo { "low" } else { "high" }, dur_class(total)),
            || format!("minted={minted} expected in [{}, {}] value={value} total_s={total} integral={integral} start={start} end={end}", b.lo, b.hi),
        )
    }

    /// Reasons for which the program (or the store's GT mint) legitimately rejects a claim / exit of an
    /// open position: negative accrual window (after a clock regression) or a reward so large that the
    /// store's minting-cost growth loop may overflow.
    fn legit_rejection(&self, mp: &MPos, market: usize) -> Option<&'static str> {
        let (end, cum_now) = match self.disabled[market] {
            Some(x) => x,
            None => {
                let g = read_gt(&self.w, self.d);
                let now = self.now();
                let dt = (now - g.last_ts).max(0) as u128;
                (now, g.cum + if g.cost == 0 { 0 } else { dt * UNIT / g.cost })
            }
        };
        if end < mp.start {
            return Some("negative_window");
        }
        let total = (end - mp.start) as u128;
        let integral = cum_now.saturating_sub(mp.snap);
        let hi = if total == 0 { 0 } else { reward_bounds(mp.value, total, &self.grad, integral).hi };
        if self.mint_may_overflow(hi) {
            return Some("mint_overflow");
        }
        None
    }

    fn mint_may_overflow(&self, hi: u64) -> bool {
        let g = read_gt(&self.w, self.d);
        let total = g.total_minted as u128 + hi as u128;
        total > u64::MAX as u128 || total / (g.grow_step.max(1) as u128) > MAX_GROW_STEPS
    }

    // -------------------------------------------------------------- user ops

    fn deliver(&mut self, obs: &mut Obs, op: Op, who: Who, fail_cpi: u8, probe: Option<Probe>) {
        let opts = TxOpts { fail_cpi_at: (fail_cpi > 0).then_some(fail_cpi as u64), payer: None };
        match op {
            Op::Stake { pos, amount } => self.stake(obs, self.norm(pos), amount, &opts),
            Op::Claim { pos } => self.claim(obs, self.norm(pos), who, &opts, probe),
            Op::Unstake { pos, amt } => self.unstake(obs, self.norm(pos), amt, who, &opts, probe),
        }
    }

    fn note_fault(&self, obs: &mut Obs, out: &TxOutcome) -> bool {
        if out.custom_code() == Some(INJECTED_CPI_FAILURE) {
            obs.fault("cpi_failure");
            true
        } else {
            false
        }
    }

    /// C19: run each twin on its own fork of the pre-state; every one of them must be rejected and
    /// leave all accounts unchanged.
    fn run_twins(&self, obs: &mut Obs, pre: &World, ix_name: &str, twins: Vec<(String, solana_program::instruction::Instruction)>) {
        for (variant, ix) in twins {
            let mut f = pre.clone();
            let out = f.process(ix);
            obs.fault("byzantine_twin");
            obs.probe(&format!("c19_twin:lp.{ix_name}"));
            obs.outcome("twin", ix_name, &out.class());
            obs.event(|| format!("twin {ix_name} {variant} -> {}", out.class()));
            if !obs.require(!out.ok, PA, "stranger_accepted", || format!("ix={ix_name},variant={variant},program=liquidity_provider"), || {
                format!("{ix_name} re-signed by {variant} landed (the legitimate transaction landed on the same pre-state)")
            }) {
                return;
            }
            if !obs.require(f.accounts == pre.accounts, PA, "rejection_changed_state", || format!("ix={ix_name},variant={variant},program=liquidity_provider"), || {
                format!("rejected {ix_name} by {variant} ({}) left accounts changed", out.class())
            }) {
                return;
            }
        }
    }

    /// The outsider and another staker (both hold GM and a GT account).
    fn intruders(&self, owner: usize) -> [(&'static str, usize); 2] {
        [("stranger", N_USERS - 1), ("staker", (owner + 1) % (N_USERS - 1))]
    }

    fn stake(&mut self, obs: &mut Obs, p: PosRef, amount: u64, opts: &TxOpts) {
        let (u, m) = (p.user as usize, p.market as usize);
        if !post_prices(&mut self.w, self.d, &self.bps) {
            obs.probe("price_post_failed");
        }
        let keys = self.keys(p);
        let owner = self.d.users[u];
        let pre_bal = self.gm_balance(u, m);
        let now = self.now();
        let pre = self.cfg.c19.then(|| self.w.clone());
        let out = self.w.process_tx(&[stake_ix(self.d, self.a, &owner, &self.a.gm_atas[u][m], m, &keys, p.pid as u64, amount)], opts);
        obs.outcome("owner", "stake", &out.class());
        obs.event(|| format!("stake {p:?} amount={amount} -> {}", out.class()));
        self.note_fault(obs, &out);
        if !out.ok {
            return;
        }
        if let Some(pre) = &pre {
            // somebody else stakes the owner's tokens into a position of their own
            let twins = self
                .intruders(u)
                .iter()
                .map(|(n, t)| {
                    let tk = self.a.positions[*t][m][p.pid as usize];
                    (format!("{n}_victim_token_account"), stake_ix(self.d, self.a, &self.d.users[*t], &self.a.gm_atas[u][m], m, &tk, p.pid as u64, amount))
                })
                .collect();
            self.run_twins(obs, pre, "stake_gm", twins);
            if obs.should_stop() {
                return;
            }
        }
        if self.pos.contains_key(&p) {
            obs.violation(P, "stake_state", "field=reinit".into(), format!("stake landed on the open position {p:?}"));
            return;
        }
        let ev = market_token_value_event(&out);
        let gt = read_gt(&self.w, self.d);
        let acc = read_position(&self.w, &keys.0);
        let vault = token_balance(&self.w, &keys.1);
        let bal = self.gm_balance(u, m);
        let (Some((ev_amount, value)), Some(acc)) = (ev, acc) else {
            obs.violation(P, "stake_state", "field=missing".into(), format!("stake landed without value event / position account {p:?}"));
            return;
        };
        let checks: [(&str, bool); 7] = [
            ("amount", acc.staked_amount == amount && ev_amount == amount),
            ("value", acc.staked_value_usd == value),
            ("start", acc.stake_start_time == now),
            ("snapshot", acc.cum_inv_cost == gt.cum),
            ("vault", vault == amount),
            ("owner_balance", pre_bal.checked_sub(amount) == Some(bal)),
            ("owner", acc.owner == owner),
        ];
        for (f, ok) in checks {
            if !obs.require(ok, P, "stake_state", || format!("field={f}"), || {
                format!("{p:?} amount={amount} value={value} now={now} cum={} acc=({}, {}, {}, {}) vault={vault} bal {pre_bal}->{bal}", gt.cum, acc.staked_amount, acc.staked_value_usd, acc.stake_start_time, acc.cum_inv_cost)
            }) {
                return;
            }
        }
        if value < self.min_stake {
            obs.probe("stake_below_min_landed");
        }
        self.pos.insert(p, MPos { amount, value, start: now, snap: gt.cum, dust: 0 });
        obs.probe("stake_ok");
    }

    fn signer_of(&self, p: PosRef, who: Who) -> usize {
        match who {
            Who::Owner => p.user as usize,
            Who::Stranger => N_USERS - 1,
            Who::Other => {
                if self.cfg.n_users > 1 {
                    ((p.user + 1) % self.cfg.n_users) as usize
                } else {
                    N_USERS - 1
                }
            }
        }
    }

    /// Fork probes (oracle 2): the same transaction on clones with a larger stake value / a smaller
    /// snapshot (= longer cost integral) must not mint less.
    fn monotone_probes(&self, obs: &mut Obs, tag: &str, p: PosRef, ix: &solana_program::instruction::Instruction, pr: Probe) {
        let Some(mp) = self.pos.get(&p) else { return };
        let keys = self.keys(p);
        let gt_user = self.a.gt_users[p.user as usize];
        let pre = user_gt_amount(&self.w, &gt_user);
        let run = |value: Option<u128>, cum: Option<u128>| -> Option<(u64, World)> {
            let mut f = self.w.clone();
            if value.is_some() || cum.is_some() {
                if !forge_position(&mut f, &keys.0, value, cum) {
                    return None;
                }
            }
            let out = f.process(ix.clone());
            if !out.ok {
                return None;
            }
            let minted = user_gt_amount(&f, &gt_user).checked_sub(pre)?;
            Some((minted, f))
        };
        let Some((m0, _)) = run(None, None) else {
            obs.probe("probe_base_failed");
            return;
        };
        let v1 = mp.value.saturating_add(pr.dv.0);
        let c2 = mp.snap.saturating_sub(pr.dc.0);
        match run(Some(v1), None) {
            Some((m1, f)) => {
                obs.require(m1 >= m0, P, "monotone_stake_value", || format!("op={tag}"), || {
                    format!("{p:?} value {} -> {v1}: minted {m0} -> {m1}", mp.value)
                });
                let (end, cum_now) = self.accrual_end(&f, p.market as usize);
                self.check_reward(obs, "probe_value", v1, mp.start, mp.snap, end, cum_now, m1);
            }
            None => obs.probe("probe_value_failed"),
        }
        if obs.should_stop() {
            return;
        }
        match run(None, Some(c2)) {
            Some((m2, f)) => {
                obs.require(m2 >= m0, P, "monotone_cost_integral", || format!("op={tag}"), || {
                    format!("{p:?} snapshot {} -> {c2}: minted {m0} -> {m2}", mp.snap)
                });
                let (end, cum_now) = self.accrual_end(&f, p.market as usize);
                self.check_reward(obs, "probe_integral", mp.value, mp.start, c2, end, cum_now, m2);
            }
            None => obs.probe("probe_integral_failed"),
        }
    }

    fn claim(&mut self, obs: &mut Obs, p: PosRef, who: Who, opts: &TxOpts, probe: Option<Probe>) {
        let m = p.market as usize;
        let keys = self.keys(p);
        let s = self.signer_of(p, who);
        let ix = claim_ix(self.d, self.a, &self.d.users[s], &self.a.gt_users[s], m, &keys, p.pid as u64);
        if let (Some(pr), Who::Owner, None) = (probe, who, opts.fail_cpi_at) {
            if self.claim_enabled {
                self.monotone_probes(obs, "claim", p, &ix, pr);
                if obs.should_stop() {
                    return;
                }
            }
        }
        let pre_gt = user_gt_amount(&self.w, &self.a.gt_users[s]);
        let pre = (self.cfg.c19 && who == Who::Owner).then(|| self.w.clone());
        let out = self.w.process_tx(&[ix], opts);
        if let (Some(pre), true) = (&pre, out.ok) {
            let u = p.user as usize;
            let mut twins = Vec::new();
            for (n, t) in self.intruders(u) {
                twins.push((format!("{n}_own_accounts"), claim_ix(self.d, self.a, &self.d.users[t], &self.a.gt_users[t], m, &keys, p.pid as u64)));
                twins.push((format!("{n}_victim_accounts"), claim_ix(self.d, self.a, &self.d.users[t], &self.a.gt_users[u], m, &keys, p.pid as u64)));
            }
            self.run_twins(obs, pre, "claim_gt", twins);
            if obs.should_stop() {
                return;
            }
        }
        let role = if who == Who::Owner { "owner" } else { "stranger" };
        obs.outcome(role, "claim", &out.class());
        obs.event(|| format!("claim {p:?} by {who:?} -> {}", out.class()));
        self.note_fault(obs, &out);
        if who != Who::Owner {
            obs.fault("byzantine_twin");
            if out.ok {
                obs.probe("twin_landed");
            }
            return; // the invariants catch any effect
        }
        let mp = self.pos.get(&p).cloned();
        if !out.ok {
            if let Some(mp) = &mp {
                if self.claim_enabled && opts.fail_cpi_at.is_none() {
                    match self.legit_rejection(mp, m) {
                        Some(why) => obs.probe(&format!("claim_rejected_{why}")),
                        None => obs.probe("claim_unexpected_failure"),
                    }
                }
            }
            if !self.claim_enabled {
                obs.checked("claims_disabled");
                obs.probe("claim_rejected_while_disabled");
            }
            return;
        }
        if !obs.require(self.claim_enabled, P, "claims_disabled", || "op=claim".into(), || format!("claim_gt landed on {p:?} while claims are disabled")) {
            return;
        }
        let Some(mp) = mp else {
            obs.violation(P, "reward_schedule", "op=claim,dir=closed".into(), format!("claim landed on closed position {p:?}"));
            return;
        };
        let minted = user_gt_amount(&self.w, &self.a.gt_users[s]).wrapping_sub(pre_gt);
        let (end, cum_now) = self.accrual_end(&self.w, m);
        if !self.check_reward(obs, "claim", mp.value, mp.start, mp.snap, end, cum_now, minted) {
            return;
        }
        self.gt[s] = self.gt[s].wrapping_add(minted);
        self.pos.get_mut(&p).unwrap().snap = cum_now;
        obs.probe("claim_ok");
    }

    fn resolve_amt(&self, p: PosRef, amt: Amt) -> u64 {
        let staked = self.pos.get(&p).map(|m| m.amount).unwrap_or(1_000_000_000);
        match amt {
            Amt::Full => staked,
            Amt::FullMinus(k) => staked.saturating_sub(k),
            Amt::FullPlus(k) => staked.saturating_add(k),
            Amt::Frac(n) => ((staked as u128 * n as u128) / 256) as u64,
            Amt::Abs(x) => x,
            Amt::Zero => 0,
        }
    }

    fn unstake(&mut self, obs: &mut Obs, p: PosRef, amt: Amt, who: Who, opts: &TxOpts, probe: Option<Probe>) {
        let (u, m) = (p.user as usize, p.market as usize);
        let keys = self.keys(p);
        let s = self.signer_of(p, who);
        let amount = self.resolve_amt(p, amt);
        let ix = unstake_ix(self.d, self.a, &self.d.users[s], &self.a.gt_users[s], &self.a.gm_atas[s][m], m, &keys, p.pid as u64, amount);
        let mp = self.pos.get(&p).cloned();
        if let (Some(pr), Who::Owner, None, Some(mp)) = (probe, who, opts.fail_cpi_at, &mp) {
            if amount > 0 && amount <= mp.amount && (self.claim_enabled || amount == mp.amount) {
                self.monotone_probes(obs, "unstake", p, &ix, pr);
                if obs.should_stop() {
                    return;
                }
            }
        }
        let pre_gt = user_gt_amount(&self.w, &self.a.gt_users[s]);
        let pre_bal = self.gm_balance(s, m);
        let pre_vault = token_balance(&self.w, &keys.1);
        let pre = (self.cfg.c19 && who == Who::Owner).then(|| self.w.clone());
        let out = self.w.process_tx(&[ix], opts);
        if let (Some(pre), true) = (&pre, out.ok) {
            let mut twins = Vec::new();
            for (n, t) in self.intruders(u) {
                twins.push((format!("{n}_own_accounts"), unstake_ix(self.d, self.a, &self.d.users[t], &self.a.gt_users[t], &self.a.gm_atas[t][m], m, &keys, p.pid as u64, amount)));
                twins.push((format!("{n}_victim_accounts"), unstake_ix(self.d, self.a, &self.d.users[t], &self.a.gt_users[u], &self.a.gm_atas[u][m], m, &keys, p.pid as u64, amount)));
            }
            self.run_twins(obs, pre, "unstake_lp", twins);
            if obs.should_stop() {
                return;
            }
        }
        let role = if who == Who::Owner { "owner" } else { "stranger" };
        let kind = match &mp {
            Some(x) if amount == x.amount => "unstake_full",
            Some(x) if amount > x.amount => "unstake_over",
            Some(_) if amount == 0 => "unstake_zero",
            Some(_) => "unstake_partial",
            None => "unstake_closed",
        };
        obs.outcome(role, kind, &out.class());
        obs.event(|| format!("unstake {p:?} amount={amount} ({amt:?}) by {who:?} -> {}", out.class()));
        let injected = self.note_fault(obs, &out);
        if who != Who::Owner {
            obs.fault("byzantine_twin");
            if out.ok {
                obs.probe("twin_landed");
            }
            return;
        }
        if !out.ok {
            let Some(mp) = mp else { return };
            if amount < mp.amount && !self.claim_enabled {
                obs.checked("claims_disabled");
                obs.probe("partial_rejected_while_disabled");
            }
            if amount == mp.amount && !injected {
                // Oracle 4 / 3: a full exit is always allowed (also while claims are disabled, also with
                // dust in the vault) unless the accrual window is negative (clock regression) or the GT
                // mint itself would overflow at the store.
                if let Some(why) = self.legit_rejection(&mp, m) {
                    obs.probe(&format!("full_exit_rejected_{why}"));
                    return;
                }
                obs.violation(
                    P,
                    "full_exit_allowed",
                    format!("claims_enabled={},dust={}", self.claim_enabled, mp.dust > 0),
                    format!("full exit of {p:?} (amount {amount}, dust {}) rejected: {} {:?}", mp.dust, out.class(), out.error),
                );
            }
            return;
        }
        let Some(mp) = mp else {
            obs.violation(P, "unstake_partial", "case=closed".into(), format!("unstake landed on closed position {p:?}"));
            return;
        };
        if amount > mp.amount {
            obs.violation(P, "unstake_partial", "case=over".into(), format!("unstake of {amount} > staked {} landed on {p:?}", mp.amount));
            return;
        }
        let remaining = mp.amount - amount;
        if remaining > 0 && !obs.require(self.claim_enabled, P, "claims_disabled", || "op=partial_unstake".into(), || {
            format!("partial unstake of {amount}/{} landed on {p:?} while claims are disabled", mp.amount)
        }) {
            return;
        }
        let minted = user_gt_amount(&self.w, &self.a.gt_users[s]).wrapping_sub(pre_gt);
        let (end, cum_now) = self.accrual_end(&self.w, m);
        if !self.check_reward(obs, "unstake", mp.value, mp.start, mp.snap, end, cum_now, minted) {
            return;
        }
        self.gt[u] = self.gt[u].wrapping_add(minted);
        let new_value = if remaining == 0 { 0 } else { scaled_value(mp.value, remaining, mp.amount) };
        let full = remaining == 0 || new_value < self.min_stake;
        if remaining > 0 && new_value == self.min_stake {
            obs.probe("partial_value_exactly_at_min");
        }
        let bal = self.gm_balance(u, m);
        let vault_acc = self.w.get(&keys.1).is_some();
        let pos_acc = read_position(&self.w, &keys.0);
        if full {
            if remaining > 0 {
                obs.probe("forced_full_exit_below_min");
            }
            if mp.dust > 0 {
                obs.probe("full_exit_swept_dust");
            }
            let ok = pre_bal.checked_add(pre_vault) == Some(bal) && !vault_acc && pos_acc.is_none() && self.w.get(&keys.0).is_none();
            if !obs.require(ok, P, "full_exit_sweep", || format!("forced={},dust={}", remaining > 0, mp.dust > 0), || {
                format!("{p:?} owner balance {pre_bal}->{bal}, vault before {pre_vault} (staked {} dust {}), vault account left={vault_acc}, position left={}", mp.amount, mp.dust, pos_acc.is_some())
            }) {
                return;
            }
            self.pos.remove(&p);
            obs.probe("full_exit_ok");
        } else {
            let vault = token_balance(&self.w, &keys.1);
            let tokens_ok = pre_bal.checked_add(amount) == Some(bal) && pre_vault.checked_sub(amount) == Some(vault);
            if !obs.require(tokens_ok, P, "unstake_partial", || "case=tokens".into(), || {
                format!("{p:?} requested {amount}: owner balance {pre_bal}->{bal}, vault {pre_vault}->{vault}")
            }) {
                return;
            }
            let Some(acc) = pos_acc else {
                obs.violation(P, "unstake_partial", "case=closed_by_partial".into(), format!("{p:?} closed by a partial unstake (new value {new_value} >= min {})", self.min_stake));
                return;
            };
            let state_ok = acc.staked_amount == remaining && acc.staked_value_usd == new_value && acc.stake_start_time == mp.start && acc.cum_inv_cost == cum_now;
            if !obs.require(state_ok, P, "unstake_partial", || "case=state".into(), || {
                format!("{p:?} expected (amount {remaining}, value {new_value}, start {}, snap {cum_now}) got ({}, {}, {}, {})", mp.start, acc.staked_amount, acc.staked_value_usd, acc.stake_start_time, acc.cum_inv_cost)
            }) {
                return;
            }
            let e = self.pos.get_mut(&p).unwrap();
            e.amount = remaining;
            e.value = new_value;
            e.snap = cum_now;
            obs.probe("partial_unstake_ok");
        }
    }

    // -------------------------------------------------------------- other steps

    fn admin_ix(&self, r: &RAdmin, signer: &solana_program::pubkey::Pubkey) -> solana_program::instruction::Instruction {
        match r {
            RAdmin::SetClaim(e) => set_claim_enabled_ix(self.a, signer, *e),
            RAdmin::MinStake(v, _) => min_stake_ix(self.a, signer, *v),
            RAdmin::Range(s, e, v) => gradient_range_ix(self.a, signer, *s, *e, v.clone()),
            RAdmin::Sparse(i, v) => gradient_sparse_ix(self.a, signer, i.clone(), v.clone()),
            RAdmin::Disable(m) => disable_controller_ix(self.d, self.a, signer, *m),
            RAdmin::Staleness(x) => staleness_ix(self.a, signer, *x),
            RAdmin::Transfer(to) => transfer_authority_ix(self.a, signer, to),
            RAdmin::Accept => accept_authority_ix(self.a, signer),
            RAdmin::Create(m, i) => create_controller_ix(self.a, signer, &self.d.markets[*m].market_token, *i),
        }
    }

    fn other_admin(&self) -> solana_program::pubkey::Pubkey {
        if self.auth == self.a.authority {
            self.a.authority2
        } else {
            self.a.authority
        }
    }

    fn admin(&mut self, obs: &mut Obs, op: &AdminOp, stranger: bool) {
        let r = match op {
            AdminOp::SetClaim(e) => RAdmin::SetClaim(*e),
            AdminOp::MinStake(v) => RAdmin::MinStake(v.0, false),
            AdminOp::MinStakeAt { pos, frac, off } => {
                let p = self.norm(*pos);
                let v = match self.pos.get(&p) {
                    Some(mp) => {
                        let amount = ((mp.amount as u128 * *frac as u128) / 256) as u64;
                        let remaining = mp.amount - amount;
                        let nv = if remaining == 0 { 0 } else { scaled_value(mp.value, remaining, mp.amount) };
                        if *off >= 0 {
                            nv.saturating_add(*off as u128)
                        } else {
                            nv.saturating_sub(off.unsigned_abs() as u128)
                        }
                    }
                    None => 0,
                };
                RAdmin::MinStake(v, true)
            }
            AdminOp::Range { start, end, values } => RAdmin::Range(*start, *end, values.iter().map(|x| x.0).collect()),
            AdminOp::Sparse { idx, values } => RAdmin::Sparse(idx.clone(), values.iter().map(|x| x.0).collect()),
            AdminOp::Disable { market } => RAdmin::Disable((*market % self.cfg.n_markets) as usize),
            AdminOp::Staleness(x) => RAdmin::Staleness(*x),
            AdminOp::TransferAuthority => RAdmin::Transfer(self.other_admin()),
            AdminOp::AcceptAuthority => RAdmin::Accept,
            AdminOp::CreateController { market, index } => RAdmin::Create((*market as usize) % N_MARKETS, 1 + (*index % 3) as u64),
        };
        let name: &'static str = match &r {
            RAdmin::SetClaim(_) => "set_claim_enabled",
            RAdmin::MinStake(..) => "update_min_stake_value",
            RAdmin::Range(..) => "update_apy_gradient_range",
            RAdmin::Sparse(..) => "update_apy_gradient_sparse",
            RAdmin::Disable(_) => "disable_lp_token_controller",
            RAdmin::Staleness(_) => "set_pricing_staleness",
            RAdmin::Transfer(_) => "transfer_authority",
            RAdmin::Accept => "accept_authority",
            RAdmin::Create(..) => "create_lp_token_controller",
        };
        // the address entitled to sign this instruction
        let entitled = match &r {
            RAdmin::Accept => self.pending_auth.unwrap_or_else(|| self.other_admin()),
            _ => self.auth,
        };
        let outsider = self.d.users[N_USERS - 1];
        let signer = if stranger { outsider } else { entitled };
        let role = if stranger { "stranger" } else { "admin" };
        if stranger {
            obs.fault("byzantine_twin");
        }
        let pre = (self.cfg.c19 && !stranger).then(|| self.w.clone());
        let out = self.w.process(self.admin_ix(&r, &signer));
        match &r {
            RAdmin::Range(_, _, vals) => self.gradient_outcome(obs, role, "gradient_range", &out, vals),
            RAdmin::Sparse(_, vals) => self.gradient_outcome(obs, role, "gradient_sparse", &out, vals),
            _ => {
                obs.outcome(role, name, &out.class());
                obs.event(|| format!("{name} by {role} -> {}", out.class()));
            }
        }
        if stranger && out.ok {
            obs.probe("stranger_admin_landed");
        }
        if let (Some(pre), true) = (&pre, out.ok) {
            let mut twins = vec![("stranger".to_string(), self.admin_ix(&r, &outsider)), ("staker".to_string(), self.admin_ix(&r, &self.d.users[0]))];
            match &r {
                RAdmin::Accept => twins.push(("current_authority".to_string(), self.admin_ix(&r, &self.auth))),
                _ => {
                    if let Some(pa) = self.pending_auth {
                        if pa != self.auth {
                            obs.probe("c19_pending_authority_twin");
                            twins.push(("pending_authority".to_string(), self.admin_ix(&r, &pa)));
                        }
                    }
                }
            }
            self.run_twins(obs, pre, name, twins);
            if obs.should_stop() {
                return;
            }
        }
        if !out.ok {
            return;
        }
        // whatever landed is applied to the model (also when a stranger signed: C38 does not speak
        // about authorisation, C19 does)
        match r {
            RAdmin::SetClaim(e) => self.claim_enabled = e,
            RAdmin::MinStake(v, boundary) => {
                self.min_stake = v;
                if boundary {
                    obs.probe("min_stake_boundary_set");
                }
            }
            RAdmin::Range(start, _, vals) => {
                for (i, v) in vals.iter().enumerate() {
                    if let Some(g) = self.grad.get_mut(start as usize + i) {
                        *g = *v;
                    }
                }
            }
            RAdmin::Sparse(idx, vals) => {
                for (i, v) in idx.iter().zip(vals.iter()) {
                    if let Some(g) = self.grad.get_mut(*i as usize) {
                        *g = *v;
                    }
                }
            }
            RAdmin::Disable(m) => {
                let g = read_gt(&self.w, self.d);
                self.disabled[m] = Some((self.now(), g.cum));
                obs.probe("controller_disabled");
            }
            RAdmin::Staleness(x) => self.staleness = x,
            RAdmin::Transfer(to) => {
                self.pending_auth = Some(to);
                obs.probe("authority_transfer_proposed");
            }
            RAdmin::Accept => {
                self.auth = signer;
                self.pending_auth = None;
                obs.probe("authority_transfer_accepted");
            }
            RAdmin::Create(..) => obs.probe("extra_controller_created"),
        }
    }

    fn gradient_outcome(&self, obs: &mut Obs, role: &str, name: &str, out: &TxOutcome, vals: &[u128]) {
        let above = vals.iter().any(|v| *v > APY_CAP);
        let at_cap = vals.iter().any(|v| *v == APY_CAP);
        obs.outcome(role, if above { "gradient_above_cap" } else { name }, &out.class());
        obs.event(|| format!("{name} n={} above_cap={above} -> {}", vals.len(), out.class()));
        if above {
            obs.fault("misconfiguration");
            obs.require(!out.ok, P, "apy_cap", || format!("ix={name}"), || {
                format!("gradient update with a value above the 200% cap landed: max={}", vals.iter().max().unwrap())
            });
        } else if out.ok && at_cap {
            obs.probe("gradient_exactly_at_cap_accepted");
        }
    }

    fn dust(&mut self, obs: &mut Obs, p: PosRef, amount: u64) {
        let m = p.market as usize;
        let keys = self.keys(p);
        let from = self.d.users[N_USERS - 1];
        let ix = spl_token::instruction::transfer(&spl_token::ID, &self.a.gm_atas[N_USERS - 1][m], &keys.1, &from, &[], amount).unwrap();
        let out = self.w.process(ix);
        obs.outcome("attacker", "dust", &out.class());
        obs.event(|| format!("dust {p:?} amount={amount} -> {}", out.class()));
        if out.ok {
            if let Some(mp) = self.pos.get_mut(&p) {
                mp.dust += amount;
                obs.fault("dust_transfer");
            }
        }
    }

    fn clock(&mut self, obs: &mut Obs, dt: i64) {
        let now = self.now();
        let target = now.saturating_add(dt);
        if target > MAX_CLOCK || target < START_TS {
            obs.probe("clock_clamped");
            return;
        }
        if dt < 0 {
            // Solana's clock is monotone: backward steps (old replays) are ignored
            obs.probe("clock_backward_step_ignored");
            return;
        }
        if dt == 0 {
            obs.probe("clock_stall");
        } else if dt as u128 > 53 * WEEK {
            obs.probe("clock_jump_gt_53_weeks");
        }
        self.w.advance((dt.max(0) as u64).saturating_mul(2).saturating_add(1), dt);
        obs.sim_seconds += dt.max(0) as u64;
        obs.event(|| format!("clock {dt:+} -> {}", now + dt));
    }

    // -------------------------------------------------------------- invariants (oracle 5 + model sync)

    fn invariants(&self, obs: &mut Obs) {
        for u in 0..self.cfg.n_users {
            for m in 0..self.cfg.n_markets {
                for pid in 0..self.cfg.n_pids {
                    let p = PosRef { user: u, market: m, pid };
                    let keys = self.keys(p);
                    let vault_acc = self.w.get(&keys.1).is_some();
                    let vault = token_balance(&self.w, &keys.1);
                    match (self.pos.get(&p), read_position(&self.w, &keys.0)) {
                        (Some(mp), Some(acc)) => {
                            let ok = acc.staked_amount == mp.amount && acc.staked_value_usd == mp.value && acc.stake_start_time == mp.start && acc.cum_inv_cost == mp.snap;
                            if !obs.require(ok, P, "position_state", || "case=fields".into(), || {
                                format!("{p:?} model (amount {}, value {}, start {}, snap {}) account ({}, {}, {}, {})", mp.amount, mp.value, mp.start, mp.snap, acc.staked_amount, acc.staked_value_usd, acc.stake_start_time, acc.cum_inv_cost)
                            }) {
                                return;
                            }
                            if !obs.require(mp.amount.checked_add(mp.dust) == Some(vault), P, "token_conservation", || "case=vault".into(), || {
                                format!("{p:?} vault {vault} != staked {} + dust {}", mp.amount, mp.dust)
                            }) {
                                return;
                            }
                        }
                        (None, None) => {
                            if !obs.require(!vault_acc, P, "token_conservation", || "case=orphan_vault".into(), || format!("{p:?} closed but its vault holds {vault}")) {
                                return;
                            }
                        }
                        (mp, acc) => {
                            obs.violation(P, "position_state", "case=existence".into(), format!("{p:?} model open={} account open={}", mp.is_some(), acc.is_some()));
                            return;
                        }
                    }
                }
            }
        }
        for m in 0..self.cfg.n_markets as usize {
            let mut total: u128 = 0;
            for u in 0..N_USERS {
                total += self.gm_balance(u, m) as u128;
            }
            for u in 0..self.cfg.n_users as usize {
                for pid in 0..self.cfg.n_pids as usize {
                    total += token_balance(&self.w, &self.a.positions[u][m][pid].1) as u128;
                }
            }
            if !obs.require(total == self.gm_total[m] as u128, P, "token_conservation", || "case=total".into(), || {
                format!("market {m}: wallets + vaults = {total}, expected {}", self.gm_total[m])
            }) {
                return;
            }
        }
        for u in 0..N_USERS {
            let amt = user_gt_amount(&self.w, &self.a.gt_users[u]);
            if !obs.require(amt == self.gt[u], P, "gt_conservation", || "case=user".into(), || format!("user {u} GT {amt}, model {}", self.gt[u])) {
                return;
            }
        }
        if let Some(gs) = read_global(&self.w, self.a) {
            let ok = gs.apy_gradient == self.grad
                && gs.claim_enabled == self.claim_enabled
                && gs.min_stake_value == self.min_stake
                && gs.authority == self.auth
                && gs.pending_authority == self.pending_auth.unwrap_or_default()
                && gs.pricing_staleness_seconds == self.staleness;
            obs.require(ok, P, "config_state", || "case=global_state".into(), || {
                format!("claim_enabled {} vs {}, min_stake {} vs {}, gradient equal {}", gs.claim_enabled, self.claim_enabled, gs.min_stake_value, self.min_stake, gs.apy_gradient == self.grad)
            });
        }
    }
}

// ------------------------------------------------------------------ scenario

pub struct LpStaking;

fn log_apy(r: &mut Rng) -> u128 {
    match r.below(10) {
        0 => 0,
        1 => APY_CAP,
        2 => APY_CAP - 1,
        3..=5 => r.range128(0, APY_CAP),
        _ => r.log_u128(APY_CAP),
    }
}

fn gen_gradient(r: &mut Rng) -> Vec<U> {
    let mut g = [0u128; BUCKETS];
    match r.below(7) {
        0 => {
            let v = log_apy(r);
            g = [v; BUCKETS];
        }
        1 => {
            for x in g.iter_mut() {
                *x = r.range128(0, APY_CAP);
            }
        }
        2 => {
            for x in g.iter_mut() {
                *x = log_apy(r);
            }
        }
        3 => {
            let k = r.usize(0, BUCKETS - 1);
            let (a, b) = (r.range128(0, APY_CAP), r.range128(0, APY_CAP));
            for (i, x) in g.iter_mut().enumerate() {
                *x = if i < k { a } else { b };
            }
        }
        4 => {
            let base = r.range128(0, APY_CAP / 4);
            g = [base; BUCKETS];
            for _ in 0..r.usize(1, 3) {
                let any = r.usize(0, 52);
                let k = *r.pick(&[0usize, 1, 2, 3, 51, 52, any]);
                g[k] = r.range128(APY_CAP / 2, APY_CAP);
            }
        }
        5 => {
            let top = r.range128(APY_CAP / 10, APY_CAP);
            for (i, x) in g.iter_mut().enumerate() {
                *x = top - top * i as u128 / 60;
            }
        }
        _ => {
            let v = r.range128(UNIT / 100, APY_CAP);
            g = [v; BUCKETS];
            g[0] = r.range128(0, APY_CAP);
            g[BUCKETS - 1] = r.range128(0, APY_CAP);
        }
    }
    g.iter().map(|x| U(*x)).collect()
}

fn bad_apy(r: &mut Rng) -> u128 {
    match r.below(4) {
        0 => APY_CAP + 1,
        1 => APY_CAP * 2,
        2 => u128::MAX,
        _ => r.range128(APY_CAP + 1, u128::MAX),
    }
}

impl LpStaking {
    fn gen_clock(r: &mut Rng, mode: u64, open: &[PosRef]) -> Step {
        // weights: stall, seconds, hours, days, exact weeks, months, year+, extreme, (unused: the cluster clock is
        // monotone, no backward steps), align
        let w: [u32; 10] = match mode {
            0 => [3, 6, 6, 3, 1, 0, 0, 0, 1, 1],
            1 => [1, 2, 4, 6, 6, 3, 1, 0, 1, 6],
            2 => [1, 1, 1, 2, 4, 6, 6, 2, 1, 4],
            _ => [2, 3, 3, 3, 3, 3, 3, 1, 1, 4],
        };
        let items: Vec<(u32, u8)> = w.iter().enumerate().map(|(i, x)| (*x, i as u8)).filter(|(x, i)| *x > 0 && *i != 8).collect();
        let wk = WEEK as i64;
        match *r.weighted(&items) {
            0 => Step::Clock { dt: 0 },
            1 => Step::Clock { dt: r.range_i64(1, 120) },
            2 => Step::Clock { dt: r.range_i64(121, 72 * 3600) },
            3 => Step::Clock { dt: r.range_i64(86_400, 20 * 86_400) },
            4 => Step::Clock { dt: r.range_i64(1, 8) * wk + r.range_i64(-1, 1) },
            5 => Step::Clock { dt: r.range_i64(5 * wk, 60 * wk) },
            6 => Step::Clock { dt: r.range_i64(53 * wk, 120 * wk) },
            7 => Step::Clock { dt: r.range_i64(3, 25) * 31_557_600 + r.range_i64(0, wk) },
            _ => {
                let pos = if open.is_empty() { PosRef { user: 0, market: 0, pid: 0 } } else { *r.pick(open) };
                let any = r.range(1, 120) as u16;
                let weeks = *r.pick(&[1u16, 1, 2, 3, 4, 8, 26, 51, 52, 52, 53, 53, 54, 60, 104, any]);
                Step::Align { pos, weeks, off: r.range_i64(-1, 1) as i8 }
            }
        }
    }
}

impl Scenario for LpStaking {
    type Cfg = Cfg;
    type Step = Step;

    fn name(&self) -> &'static str {
        "lp_staking"
    }

    fn generate(&self, seed: u64, run: u64, _tier: Tier, focus: &str) -> (Cfg, Vec<Step>) {
        let mut rc = Rng::derive(seed, run, "lp.cfg");
        let faults = run % 2 == 1;
        let cfg = Cfg {
            n_users: rc.range(1, 3) as u8,
            n_markets: rc.range(1, 2) as u8,
            n_pids: rc.range(1, 3) as u8,
            faults,
            claim_enabled: rc.bool(),
            min_stake_value: U(*rc.weighted(&[(3, 0u128), (3, 10 * UNIT), (2, 1_000 * UNIT), (1, 50_000 * UNIT)])),
            gradient: gen_gradient(&mut rc),
            gt_cost: U(*rc.weighted(&[(4, 500_000_000_000u128), (2, 10_000_000_000_000), (1, 10_000_000_000)])),
            gt_grow_factor: U(*rc.weighted(&[(1, UNIT), (2, UNIT + UNIT / 100)])),
            gt_grow_step: *rc.weighted(&[(2, 1_000_000_000_000u64), (1, 100_000_000_000), (1, 10_000_000_000_000)]),
            c19: focus == "C19" || run % 16 == 3,
        };
        let mode = rc.below(4);
        let n_steps = if rc.chance(4, 5) { rc.usize(5, 60) } else { rc.usize(60, 300) };
        // op-mix emphasis per run
        let w_stake = rc.range(2, 6) as u32;
        let w_claim = rc.range(1, 8) as u32;
        let w_unstake = rc.range(1, 6) as u32;
        let w_clock = rc.range(3, 9) as u32;
        let w_admin = rc.range(1, 4) as u32;
        let w_dust = rc.range(0, 2) as u32;
        let w_price = rc.range(0, 2) as u32;

        let mut r = Rng::derive(seed, run, "lp.steps");
        let mut steps = Vec::with_capacity(n_steps);
        let mut open: Vec<PosRef> = Vec::new();
        let all: Vec<PosRef> = (0..cfg.n_users)
            .flat_map(|u| (0..cfg.n_markets).flat_map(move |m| (0..cfg.n_pids).map(move |pid| PosRef { user: u, market: m, pid })))
            .collect();
        let mut claim_on = cfg.claim_enabled;
        for _ in 0..n_steps {
            let kinds: [(u32, u8); 7] = [(w_stake, 0), (w_claim, 1), (w_unstake, 2), (w_clock, 3), (w_admin, 4), (w_dust, 5), (w_price, 6)];
            let kind = *r.weighted(&kinds);
            let pick_open = |r: &mut Rng, open: &Vec<PosRef>| -> PosRef {
                if !open.is_empty() && r.chance(9, 10) {
                    *r.pick(open)
                } else {
                    *r.pick(&all)
                }
            };
            let user_extras = |r: &mut Rng| -> (Who, Deliver, u8) {
                if !faults {
                    return (Who::Owner, Deliver::Now, 0);
                }
                let who = *r.weighted(&[(12, Who::Owner), (1, Who::Stranger), (1, Who::Other)]);
                let deliver = match r.below(12) {
                    0 => Deliver::Lost,
                    1 | 2 => Deliver::Dup(r.range(1, 6) as u8),
                    3 | 4 => Deliver::Delay(r.range(1, 6) as u8),
                    _ => Deliver::Now,
                };
                let fail_cpi = if r.chance(1, 8) { r.range(1, 8) as u8 } else { 0 };
                (who, deliver, fail_cpi)
            };
            let probe = |r: &mut Rng| -> Option<Probe> {
                r.chance(1, 5).then(|| Probe { dv: U(r.log_u128(10u128.pow(26))), dc: U(r.log_u128(10u128.pow(18))) })
            };
            let step = match kind {
                0 => {
                    let closed: Vec<PosRef> = all.iter().filter(|p| !open.contains(p)).copied().collect();
                    let pos = if !closed.is_empty() && r.chance(9, 10) { *r.pick(&closed) } else { *r.pick(&all) };
                    let amount = match r.below(10) {
                        0 => r.log_u64(20_000_000_000_000),
                        1 => r.range(1, 1000),
                        _ => r.range(5_000_000_000, 8_000_000_000_000),
                    };
                    let (_, deliver, fail_cpi) = user_extras(&mut r);
                    if !matches!(deliver, Deliver::Lost) && fail_cpi == 0 && !open.contains(&pos) {
                        open.push(pos);
                    }
                    Step::User { op: Op::Stake { pos, amount }, who: Who::Owner, deliver, fail_cpi, probe: None }
                }
                1 => {
                    let pos = pick_open(&mut r, &open);
                    let (who, deliver, fail_cpi) = user_extras(&mut r);
                    Step::User { op: Op::Claim { pos }, who, deliver, fail_cpi, probe: probe(&mut r) }
                }
                2 => {
                    let pos = pick_open(&mut r, &open);
                    let (who, deliver, fail_cpi) = user_extras(&mut r);
                    let full_bias = if claim_on { 3 } else { 6 };
                    let amt = match *r.weighted(&[(full_bias, 0u8), (4, 1), (1, 2), (1, 3), (1, 4), (1, 5)]) {
                        0 => Amt::Full,
                        1 => Amt::Frac(r.range(1, 255) as u8),
                        2 => Amt::FullMinus(r.log_u64(1_000_000_000_000)),
                        3 => {
                            if faults {
                                Amt::FullPlus(r.log_u64(1_000_000))
                            } else {
                                Amt::Full
                            }
                        }
                        4 => Amt::Abs(r.log_u64(10_000_000_000_000)),
                        _ => {
                            if faults {
                                Amt::Zero
                            } else {
                                Amt::Frac(r.range(1, 255) as u8)
                            }
                        }
                    };
                    if amt == Amt::Full && who == Who::Owner && !matches!(deliver, Deliver::Lost) && fail_cpi == 0 {
                        open.retain(|p| *p != pos);
                    }
                    Step::User { op: Op::Unstake { pos, amt }, who, deliver, fail_cpi, probe: probe(&mut r) }
                }
                3 => Self::gen_clock(&mut r, mode, &open),
                4 if !open.is_empty() && r.chance(1, 6) => {
                    // boundary pair: minimum stake value set to what a partial unstake would leave (±1),
                    // immediately followed by that partial unstake
                    let pos = *r.pick(&open);
                    let frac = r.range(1, 255) as u8;
                    let off = r.range_i64(-1, 1) as i8;
                    steps.push(Step::Admin { op: AdminOp::MinStakeAt { pos, frac, off }, stranger: false });
                    Step::User { op: Op::Unstake { pos, amt: Amt::Frac(frac) }, who: Who::Owner, deliver: Deliver::Now, fail_cpi: 0, probe: None }
                }
                4 => {
                    let stranger = faults && r.chance(1, 8);
                    let op = match r.below(if cfg.c19 { 16 } else { 12 }) {
                        0..=3 => {
                            let e = r.bool();
                            if !stranger {
                                claim_on = e;
                            }
                            AdminOp::SetClaim(e)
                        }
                        4 => {
                            let any = r.log_u128(100_000 * UNIT);
                            AdminOp::MinStake(U(*r.weighted(&[(2, 0u128), (2, 10 * UNIT), (2, 1_000 * UNIT), (1, 20_000 * UNIT), (1, any)])))
                        }
                        5..=7 => {
                            let start = r.range(0, 52) as u8;
                            let span = r.range(0, 52);
                            let end = r.range(start as u64, 52.min(start as u64 + span)) as u8;
                            let mut values: Vec<U> = (start..=end).map(|_| U(log_apy(&mut r))).collect();
                            if faults && r.chance(1, 3) {
                                let k = r.usize(0, values.len() - 1);
                                values[k] = U(bad_apy(&mut r));
                            }
                            let (mut start, mut end) = (start, end);
                            if faults && r.chance(1, 10) {
                                match r.below(3) {
                                    0 => end = 53,
                                    1 => std::mem::swap(&mut start, &mut end),
                                    _ => {
                                        values.pop();
                                    }
                                }
                            }
                            AdminOp::Range { start, end, values }
                        }
                        8..=10 => {
                            let n = r.usize(1, 6);
                            let mut idx: Vec<u8> = (0..n)
                                .map(|_| {
                                    let any = r.range(0, 52) as u8;
                                    *r.pick(&[0u8, 1, 2, 51, 52, any])
                                })
                                .collect();
                            let mut values: Vec<U> = (0..n).map(|_| U(log_apy(&mut r))).collect();
                            if faults && r.chance(1, 3) {
                                let k = r.usize(0, n - 1);
                                values[k] = U(bad_apy(&mut r));
                            }
                            if faults && r.chance(1, 10) {
                                if r.bool() {
                                    idx[0] = 53;
                                } else {
                                    values.pop();
                                }
                            }
                            AdminOp::Sparse { idx, values }
                        }
                        _ => match r.below(8) {
                            0 | 1 => AdminOp::Disable { market: r.range(0, 1) as u8 },
                            2 => AdminOp::Staleness(*r.pick(&[0u32, 1, 60, 300, 3600, u32::MAX])),
                            3 | 4 => AdminOp::TransferAuthority,
                            5 => AdminOp::AcceptAuthority,
                            6 => AdminOp::CreateController { market: r.range(0, 1) as u8, index: r.range(0, 2) as u8 },
                            _ => AdminOp::SetClaim(r.bool()),
                        },
                    };
                    if let AdminOp::SetClaim(e) = &op {
                        if !stranger {
                            claim_on = *e;
                        }
                    }
                    Step::Admin { op, stranger }
                }
                5 => Step::Dust { pos: pick_open(&mut r, &open), amount: if r.chance(2, 3) { r.range(1, 1000) } else { r.log_u64(1_000_000_000_000) } },
                _ => Step::Price { token: r.range(0, 2) as u8, bps: r.range(5_000, 20_000) as u32 },
            };
            steps.push(step);
        }
        (cfg, steps)
    }

    fn execute(&self, cfg: &Cfg, steps: &[Step], obs: &mut Obs) {
        let b = base();
        let mut w = b.world.clone();
        let gt = GtParams { decimals: 7, cost: cfg.gt_cost.0, grow_factor: cfg.gt_grow_factor.0, grow_step: cfg.gt_grow_step.max(1) };
        deploy_lp(&mut w, &b.dep, &b.lp, &gt, cfg.min_stake_value.0, 0);
        let mut grad = [0u128; BUCKETS];
        for (i, g) in cfg.gradient.iter().take(BUCKETS).enumerate() {
            grad[i] = g.0.min(APY_CAP);
        }
        chainsim::deploy::expect_ok("initial gradient", w.process(gradient_range_ix(&b.lp, &b.lp.authority, 0, (BUCKETS - 1) as u8, grad.to_vec())));
        if cfg.claim_enabled {
            chainsim::deploy::expect_ok("initial claim flag", w.process(set_claim_enabled_ix(&b.lp, &b.lp.authority, true)));
        }
        let cfgn = Cfg { n_users: cfg.n_users.clamp(1, 3), n_markets: cfg.n_markets.clamp(1, N_MARKETS as u8), n_pids: cfg.n_pids.clamp(1, N_PIDS as u8), ..cfg.clone() };
        let mut sim = Sim {
            w,
            d: &b.dep,
            a: &b.lp,
            cfg: &cfgn,
            pos: BTreeMap::new(),
            grad,
            claim_enabled: cfg.claim_enabled,
            min_stake: cfg.min_stake_value.0,
            gt: [0; N_USERS],
            disabled: [None; N_MARKETS],
            bps: [10_000; 3],
            gm_total: [0; N_MARKETS],
            pending: Vec::new(),
            auth: b.lp.authority,
            pending_auth: None,
            staleness: 300,
        };
        for m in 0..N_MARKETS {
            sim.gm_total[m] = (0..N_USERS).map(|u| sim.gm_balance(u, m)).sum();
        }
        let n = steps.len();
        // one extra round at the end flushes everything still in flight
        for i in 0..=n {
            obs.set_step(i.min(n.saturating_sub(1)));
            let due: Vec<(usize, Op, Who, u8)> = if i == n {
                std::mem::take(&mut sim.pending)
            } else {
                let (d, keep): (Vec<_>, Vec<_>) = sim.pending.drain(..).partition(|x| x.0 <= i);
                sim.pending = keep;
                d
            };
            for (_, op, who, fail_cpi) in due {
                obs.fault("late_delivery");
                sim.deliver(obs, op, who, fail_cpi, None);
                if obs.should_stop() {
                    return;
                }
            }
            if i == n {
                sim.invariants(obs);
                break;
            }
            match &steps[i] {
                Step::Clock { dt } => sim.clock(obs, *dt),
                Step::Align { pos, weeks, off } => {
                    let p = sim.norm(*pos);
                    let target = sim.pos.get(&p).map(|mp| mp.start + *weeks as i64 * WEEK as i64 + *off as i64);
                    match target {
                        Some(t) if t > sim.now() => {
                            obs.probe("clock_align_week_boundary");
                            let dt = t - sim.now();
                            sim.clock(obs, dt)
                        }
                        _ => sim.clock(obs, 1),
                    }
                }
                Step::Price { token, bps } => {
                    let t = (*token as usize) % 3;
                    sim.bps[t] = (*bps).clamp(1_000, 100_000);
                    let ok = post_prices(&mut sim.w, sim.d, &sim.bps);
                    obs.outcome("keeper", "price", if ok { "ok" } else { "failed" });
                    obs.event(|| format!("price token {t} bps {bps} ok={ok}"));
                }
                Step::User { op, who, deliver, fail_cpi, probe } => match deliver {
                    Deliver::Now => sim.deliver(obs, *op, *who, *fail_cpi, *probe),
                    Deliver::Lost => {
                        obs.fault("tx_loss");
                        obs.event(|| format!("lost {op:?}"));
                    }
                    Deliver::Dup(k) => {
                        sim.deliver(obs, *op, *who, *fail_cpi, *probe);
                        obs.fault("duplication");
                        sim.pending.push((i + *k as usize, *op, *who, 0));
                    }
                    Deliver::Delay(k) => {
                        obs.fault("delay");
                        sim.pending.push((i + *k as usize, *op, *who, *fail_cpi));
                    }
                },
                Step::Admin { op, stranger } => sim.admin(obs, op, *stranger),
                Step::Dust { pos, amount } => {
                    let p = sim.norm(*pos);
                    sim.dust(obs, p, *amount)
                }
            }
            if obs.should_stop() {
                return;
            }
            sim.invariants(obs);
            if obs.should_stop() {
                return;
            }
            let open = sim.pos.len() as u64;
            let dusty = sim.pos.values().filter(|p| p.dust > 0).count() as u64;
            obs.fingerprint(&[open, dusty, sim.claim_enabled as u64, sim.disabled.iter().filter(|x| x.is_some()).count() as u64, (sim.min_stake > 0) as u64]);
        }
    }

    fn simplify_step(&self, step: &Step) -> Vec<Step> {
        let mut v = Vec::new();
        match step {
            Step::Clock { dt } if *dt != 0 => {
                v.push(Step::Clock { dt: dt / 2 });
                if *dt > WEEK as i64 {
                    v.push(Step::Clock { dt: dt / WEEK as i64 * WEEK as i64 });
                }
            }
            Step::Align { pos, weeks, off } => {
                if *off != 0 {
                    v.push(Step::Align { pos: *pos, weeks: *weeks, off: 0 });
                }
                if *weeks > 1 {
                    v.push(Step::Align { pos: *pos, weeks: weeks / 2, off: *off });
                }
            }
            Step::User { op, who, deliver, fail_cpi, probe } => {
                if *deliver != Deliver::Now {
                    v.push(Step::User { op: *op, who: *who, deliver: Deliver::Now, fail_cpi: *fail_cpi, probe: *probe });
                }
                if *fail_cpi != 0 {
                    v.push(Step::User { op: *op, who: *who, deliver: *deliver, fail_cpi: 0, probe: *probe });
                }
                if *who != Who::Owner {
                    v.push(Step::User { op: *op, who: Who::Owner, deliver: *deliver, fail_cpi: *fail_cpi, probe: *probe });
                }
                if probe.is_some() {
                    v.push(Step::User { op: *op, who: *who, deliver: *deliver, fail_cpi: *fail_cpi, probe: None });
                }
                match op {
                    Op::Stake { pos, amount } if *amount > 1 => {
                        v.push(Step::User { op: Op::Stake { pos: *pos, amount: amount / 2 }, who: *who, deliver: *deliver, fail_cpi: *fail_cpi, probe: *probe });
                    }
                    Op::Unstake { pos, amt } if *amt != Amt::Full => {
                        v.push(Step::User { op: Op::Unstake { pos: *pos, amt: Amt::Full }, who: *who, deliver: *deliver, fail_cpi: *fail_cpi, probe: *probe });
                        v.push(Step::User { op: Op::Unstake { pos: *pos, amt: Amt::Frac(128) }, who: *who, deliver: *deliver, fail_cpi: *fail_cpi, probe: *probe });
                    }
                    _ => {}
                }
            }
            Step::Admin { op, stranger } => {
                if *stranger {
                    v.push(Step::Admin { op: op.clone(), stranger: false });
                }
                match op {
                    AdminOp::Range { start, end, values } if values.len() > 1 && start < end => {
                        v.push(Step::Admin { op: AdminOp::Range { start: *start, end: *start, values: values[..1].to_vec() }, stranger: *stranger });
                    }
                    AdminOp::Sparse { idx, values } if idx.len() > 1 && values.len() > 1 => {
                        v.push(Step::Admin { op: AdminOp::Sparse { idx: idx[..1].to_vec(), values: values[..1].to_vec() }, stranger: *stranger });
                    }
                    _ => {}
                }
            }
            Step::Dust { pos, amount } if *amount > 1 => v.push(Step::Dust { pos: *pos, amount: 1 }),
            _ => {}
        }
        v
    }

    fn simplify_cfg(&self, cfg: &Cfg) -> Vec<Cfg> {
        let mut v = Vec::new();
        if cfg.faults {
            v.push(Cfg { faults: false, ..cfg.clone() });
        }
        if cfg.c19 {
            v.push(Cfg { c19: false, ..cfg.clone() });
        }
        if cfg.n_users > 1 {
            v.push(Cfg { n_users: cfg.n_users - 1, ..cfg.clone() });
        }
        if cfg.n_markets > 1 {
            v.push(Cfg { n_markets: 1, ..cfg.clone() });
        }
        if cfg.n_pids > 1 {
            v.push(Cfg { n_pids: 1, ..cfg.clone() });
        }
        if cfg.min_stake_value.0 != 0 {
            v.push(Cfg { min_stake_value: U(0), ..cfg.clone() });
        }
        if cfg.gt_grow_factor.0 != UNIT {
            v.push(Cfg { gt_grow_factor: U(UNIT), ..cfg.clone() });
        }
        let first = cfg.gradient.first().copied().unwrap_or(U(0));
        if cfg.gradient.iter().any(|g| *g != first) {
            // two-level gradient: bucket 0 value, then the last value
            let last = cfg.gradient.last().copied().unwrap_or(U(0));
            let mut g = vec![last; BUCKETS];
            g[0] = first;
            if g != cfg.gradient {
                v.push(Cfg { gradient: g, ..cfg.clone() });
            }
            v.push(Cfg { gradient: vec![first; BUCKETS], ..cfg.clone() });
        }
        v
    }

    fn components(&self) -> Components {
        Components {
            real: vec![
                "gmsol_liquidity_provider program entrypoint (initialize, create_lp_token_controller, stake_gm, claim_gt, unstake_lp, update_apy_gradient_range/sparse, set_claim_enabled, update_min_stake_value, disable_lp_token_controller)".into(),
                "gmsol_store program entrypoint (GT state: initialize_gt, update_gt_cumulative_inv_cost_factor, mint_gt_reward; get_market_token_value with price feeds; roles; deposits creating the GM tokens)".into(),
                "gmsol_mock_chainlink_verifier, SPL Token, Associated Token Account programs".into(),
            ],
            stub: vec![
                "chainsim runtime (accounts db, loader, CPI, sysvars, system program)".into(),
                "forged `staked_value_usd` / `cum_inv_cost` of a position account inside discarded fork probes (monotonicity what-ifs)".into(),
                "custom Chainlink reports signed for the mock verifier".into(),
            ],
        }
    }

    fn rule(&self) -> String {
        "1-3 stakers (+1 outsider), 1-2 GM markets, 1-3 position ids per (staker, market); GT minting cost / growth and the 53-bucket APY gradient (flat, random, log-random, step, spikes at buckets 0-3/51/52, ramp) drawn per run; \
         steps = stake(amount) with fresh prices, claim, unstake(full / fraction / full±k / absolute / zero), clock (stall, seconds, hours, days, exact weeks ±1 s, months, > 53 weeks, years, aligned to start+k·week±1 s; the clock never moves backwards), \
         gradient range/sparse updates (within, exactly at, above the 200 % cap; malformed ranges), claim toggle, min-stake updates (also exactly at a partial unstake's remaining value ±1), pricing staleness, authority transfer / accept, extra controllers, controller disable, dust transfers into position vaults, price moves. \
         Odd runs inject faults: tx loss, duplication and delayed delivery of user txs, strangers signing claims/unstakes/admin ops, injected CPI failures, misconfiguration. \
         The private reward functions are observed through the GT actually minted to the owner's store user account by claim_gt / unstake_lp; the reference interval is computed in big integers from (stake value from the store's MarketTokenValue event, stake start, accrual end, gradient table kept by the model, cumulative inverse-cost factor read from the store account before/after). \
         C19 twins (focus C19 and every 16th run): each landed stake_gm / claim_gt / unstake_lp / authority-gated instruction is re-run on a fork of its pre-state re-signed by the outsider, by another staker (with their own and with the victim's accounts), by the pending authority between transfer_authority and accept_authority, and accept_authority by the current authority; each twin must fail and leave all accounts unchanged. \
         A case is distinct by (operation trigram, duration class, open positions, dust, claim flag)."
            .into()
    }
}
