//! Development smoke test of the LP deployment (not part of the checks).
use chainsim::deploy::{ata, token_balance};
use scn_lp::lpdeploy::*;

fn main() {
    let b = base();
    let mut w = b.world.clone();
    let d = &b.dep;
    let a = &b.lp;
    let gt = GtParams { decimals: 7, cost: 500_000_000_000, grow_factor: 101 * 10u128.pow(18), grow_step: 1_000_000_000_000 };
    deploy_lp(&mut w, d, a, &gt, 10u128.pow(21), 10u128.pow(20));
    let u = d.users[0];
    let mt = d.markets[0].market_token;
    eprintln!("user GM = {}", token_balance(&w, &ata(&u, &mt)));
    assert!(post_prices(&mut w, d, &[10_000; 3]));
    let pos = a.positions[0][0][0];
    let out = w.process(stake_ix(d, a, &u, &a.gm_atas[0][0], 0, &pos, 0, 1_000_000_000_000));
    eprintln!("stake: {} {:?} {:?} ev={:?}", out.class(), out.panic, out.runtime_rule, market_token_value_event(&out));
    let p = read_position(&w, &pos.0).unwrap();
    eprintln!("pos amount={} value={} start={} cum={}", p.staked_amount, p.staked_value_usd, p.stake_start_time, p.cum_inv_cost);
    let g = read_gt(&w, d);
    eprintln!("gt cum={} last={} cost={}", g.cum, g.last_ts, g.cost);
    w.advance(100, 86_400 * 10);
    let out = w.process(claim_ix(d, a, &u, &a.gt_users[0], 0, &pos, 0));
    eprintln!("claim (disabled): {}", out.class());
    let out = w.process(set_claim_enabled_ix(a, &a.authority, true));
    eprintln!("enable: {}", out.class());
    let out = w.process(claim_ix(d, a, &u, &a.gt_users[0], 0, &pos, 0));
    eprintln!("claim: {} gt={}", out.class(), user_gt_amount(&w, &a.gt_users[0]));
    let out = w.process(unstake_ix(d, a, &u, &a.gt_users[0], &a.gm_atas[0][0], 0, &pos, 0, 400_000_000_000));
    eprintln!("partial: {} vault={}", out.class(), token_balance(&w, &pos.1));
    let out = w.process(unstake_ix(d, a, &u, &a.gt_users[0], &a.gm_atas[0][0], 0, &pos, 0, 600_000_000_000));
    eprintln!("full: {} pos exists={} vault exists={}", out.class(), w.get(&pos.0).is_some(), w.get(&pos.1).is_some());
    let t0 = std::time::Instant::now();
    for _ in 0..1000 { let _ = w.clone(); }
    eprintln!("clone: {:?}/1000", t0.elapsed());
}
