//! Deployment of the liquidity-provider program on top of the chainsim fixture, and its instruction client.

use std::sync::OnceLock;

use anchor_lang::AccountDeserialize;
use chainsim::deploy::{any_ix, ata, deploy_full, expect_ok, read_pod, store_ix, Dep, DeployOpts, TokenSpec};
use chainsim::ex;
use chainsim::report::ReportSpec;
use chainsim::rt::{TxOpts, World};
use gmsol_liquidity_provider as lp;
use solana_program::{
    instruction::{AccountMeta, Instruction},
    pubkey::Pubkey,
    system_program,
};

pub const N_USERS: usize = 4; // 3 stakers + 1 outsider (dust sender / stranger)
pub const N_MARKETS: usize = 2;
pub const N_PIDS: usize = 4;
pub const START_TS: i64 = 1_700_000_000;
pub const E18: i128 = 1_000_000_000_000_000_000;
/// Base prices of the fixture tokens (SOL, USDC, BTC) in whole USD.
pub const BASE_PRICE: [i128; 3] = [150, 1, 60_000];

/// Addresses that are a deterministic function of the fixture.
#[derive(Clone, Debug)]
pub struct LpAddrs {
    pub global_state: Pubkey,
    pub authority: Pubkey,
    /// Second administrator key (target of authority hand-overs).
    pub authority2: Pubkey,
    pub oracle: Pubkey,
    /// controller per market
    pub controllers: Vec<Pubkey>,
    /// [user][market][pid] -> (position, vault)
    pub positions: Vec<Vec<Vec<(Pubkey, Pubkey)>>>,
    /// store user (GT) account per user
    pub gt_users: Vec<Pubkey>,
    /// feeds (remaining accounts) per market in the order the store expects
    pub feeds: Vec<Vec<AccountMeta>>,
    /// [user][market] -> the user's GM (market token) associated token account
    pub gm_atas: Vec<Vec<Pubkey>>,
}

pub struct Base {
    pub world: World,
    pub dep: Dep,
    pub lp: LpAddrs,
}

pub fn price_report(d: &Dep, token: usize, ts: i64, price_e18: i128) -> ReportSpec {
    let t = &d.tokens[token];
    let delta = price_e18 * 2 / 10_000;
    ReportSpec {
        schema: t.schema,
        feed_id: t.feed_id,
        valid_from: ts as u32,
        observations_ts: ts as u32,
        expires_at: (ts + 3600) as u32,
        price: price_e18,
        bid: price_e18 - delta,
        ask: price_e18 + delta,
        market_status: 2,
        last_update_ns: (ts as u64).wrapping_mul(1_000_000_000),
    }
}

/// Post fresh reports for every token at the world's current time; `bps[i]` scales the base price.
pub fn post_prices(w: &mut World, d: &Dep, bps: &[u32; 3]) -> bool {
    let now = w.clock.unix_timestamp;
    let mut all = true;
    for i in 0..d.tokens.len() {
        let p = BASE_PRICE[i] * E18 * bps[i] as i128 / 10_000;
        let out = w.process(ex::update_feed_ix(d, i, &price_report(d, i, now, p), false));
        all &= out.ok;
    }
    all
}

fn lp_pda(seeds: &[&[u8]]) -> Pubkey {
    Pubkey::find_program_address(seeds, &lp::ID).0
}

fn build_base() -> Base {
    let mut w = World::new(START_TS, 1000);
    let mut opts = DeployOpts::default();
    opts.tokens.push(TokenSpec { name: "BTC", decimals: 8, precision: 2, synthetic: true, schema: 3, heartbeat: 120 });
    opts.markets = vec![(0, 0, 1), (2, 0, 1)];
    opts.n_users = N_USERS;
    opts.start_ts = START_TS;
    let d = deploy_full(&mut w, &opts);
    assert!(post_prices(&mut w, &d, &[10_000; 3]), "initial prices");
    // Every user deposits into every market so that they hold GM tokens.
    for (ui, u) in d.users.clone().iter().enumerate() {
        for m in 0..N_MARKETS {
            let mut nonce = [0u8; 32];
            nonce[0] = ui as u8 + 1;
            nonce[1] = m as u8 + 1;
            let (ixs, dep) = ex::create_deposit_tx(
                &d,
                &ex::DepositArgs {
                    owner: *u,
                    market: m,
                    nonce,
                    long_amount: 100_000_000_000, // 100 SOL
                    short_amount: 15_000_000_000, // 15 000 USDC
                    min_market_token: 0,
                    execution_lamports: 5_000_000,
                    initial_long_token: None,
                    initial_short_token: None,
                    long_path: vec![],
                    short_path: vec![],
                },
            );
            expect_ok("create_deposit", w.process_tx(&ixs, &TxOpts::default()));
            let ix = ex::execute_deposit_ix(&w, &d, &dep, true, 5000).expect("deposit");
            expect_ok("execute_deposit", w.process(ix));
            let ix = ex::close_deposit_ix(&w, &d, &dep, u).expect("deposit");
            expect_ok("close_deposit", w.process(ix));
        }
        expect_ok("prepare_user", w.process(ex::prepare_user_ix(&d, u)));
    }
    let authority = w.new_key("lp_authority");
    w.fund(&authority, 1_000_000_000_000);
    let oracle = w.new_key("lp_oracle");
    let authority2 = w.new_key("lp_authority2");
    w.fund(&authority2, 1_000_000_000_000);
    let global_state = lp_pda(&[lp::GLOBAL_STATE_SEED]);
    let controllers: Vec<Pubkey> = d
        .markets
        .iter()
        .map(|m| lp_pda(&[lp::LP_TOKEN_CONTROLLER_SEED, global_state.as_ref(), m.market_token.as_ref(), &0u64.to_le_bytes()]))
        .collect();
    let positions = d
        .users
        .iter()
        .map(|u| {
            controllers
                .iter()
                .map(|c| {
                    (0..N_PIDS as u64)
                        .map(|pid| {
                            let p = lp_pda(&[lp::POSITION_SEED, c.as_ref(), u.as_ref(), &pid.to_le_bytes()]);
                            let v = lp_pda(&[lp::VAULT_SEED, p.as_ref()]);
                            (p, v)
                        })
                        .collect()
                })
                .collect()
        })
        .collect();
    let gt_users = d.users.iter().map(|u| ex::user_pda(&d, u)).collect();
    let feeds = d
        .markets
        .iter()
        .map(|m| ex::feeds_and_markets(&d, &ex::market_feed_tokens(&d, m), &[], &[]))
        .collect();
    let gm_atas = d.users.iter().map(|u| d.markets.iter().map(|m| ata(u, &m.market_token)).collect()).collect();
    let lp = LpAddrs { global_state, authority, authority2, oracle, controllers, positions, gt_users, feeds, gm_atas };
    Base { world: w, dep: d, lp }
}

pub fn base() -> &'static Base {
    static BASE: OnceLock<Base> = OnceLock::new();
    let b = BASE.get_or_init(build_base);
    chainsim::deploy::init_thread();
    b
}

pub struct GtParams {
    pub decimals: u8,
    pub cost: u128,
    pub grow_factor: u128,
    pub grow_step: u64,
}

/// GT at the store, LP program initialisation, role, LP oracle, controllers.
pub fn deploy_lp(w: &mut World, d: &Dep, a: &LpAddrs, gt: &GtParams, min_stake_value: u128, initial_apy: u128) {
    expect_ok(
        "initialize_gt",
        w.process(store_ix(
            gmsol_store::accounts::InitializeGt { authority: d.keeper, store: d.store, system_program: system_program::ID },
            gmsol_store::instruction::InitializeGt {
                decimals: gt.decimals,
                initial_minting_cost: gt.cost,
                grow_factor: gt.grow_factor,
                grow_step: gt.grow_step,
                ranks: vec![],
            },
        )),
    );
    expect_ok(
        "lp initialize",
        w.process(any_ix(
            lp::ID,
            lp::accounts::Initialize { global_state: a.global_state, authority: a.authority, system_program: system_program::ID },
            lp::instruction::Initialize { min_stake_value, initial_apy },
        )),
    );
    expect_ok(
        "grant GT_CONTROLLER",
        w.process(store_ix(
            gmsol_store::accounts::GrantRole { authority: d.admin, store: d.store },
            gmsol_store::instruction::GrantRole { user: a.global_state, role: "GT_CONTROLLER".to_string() },
        )),
    );
    w.create_raw_account(&a.oracle, &gmsol_store::ID, 8 + std::mem::size_of::<gmsol_store::states::Oracle>());
    expect_ok(
        "initialize lp oracle",
        w.process(store_ix(
            gmsol_store::accounts::InitializeOracle {
                payer: d.keeper,
                authority: a.global_state,
                store: d.store,
                oracle: a.oracle,
                system_program: system_program::ID,
            },
            gmsol_store::instruction::InitializeOracle {},
        )),
    );
    for (m, c) in d.markets.iter().zip(a.controllers.iter()) {
        expect_ok(
            "create controller",
            w.process(any_ix(
                lp::ID,
                lp::accounts::CreateLpTokenController {
                    global_state: a.global_state,
                    controller: *c,
                    authority: a.authority,
                    system_program: system_program::ID,
                },
                lp::instruction::CreateLpTokenController { lp_token_mint: m.market_token, controller_index: 0 },
            )),
        );
    }
}

// ------------------------------------------------------------------ instructions

pub fn stake_ix(d: &Dep, a: &LpAddrs, owner: &Pubkey, lp_token: &Pubkey, market: usize, pos: &(Pubkey, Pubkey), pid: u64, amount: u64) -> Instruction {
    let m = &d.markets[market];
    let mut ix = any_ix(
        lp::ID,
        lp::accounts::StakeGm {
            global_state: a.global_state,
            controller: a.controllers[market],
            lp_mint: m.market_token,
            position: pos.0,
            position_vault: pos.1,
            gt_store: d.store,
            gt_program: gmsol_store::ID,
            owner: *owner,
            user_lp_token: *lp_token,
            token_map: d.token_map,
            oracle: a.oracle,
            market: m.market,
            event_authority: d.event_authority,
            system_program: system_program::ID,
            token_program: spl_token::ID,
        },
        lp::instruction::StakeGm { position_id: pid, gm_staked_amount: amount },
    );
    ix.accounts.extend(a.feeds[market].iter().cloned());
    ix
}

/// `signer` signs as the position owner; `gt_user` / token accounts are the signer's.
pub fn claim_ix(d: &Dep, a: &LpAddrs, signer: &Pubkey, gt_user: &Pubkey, market: usize, pos: &(Pubkey, Pubkey), pid: u64) -> Instruction {
    any_ix(
        lp::ID,
        lp::accounts::ClaimGt {
            global_state: a.global_state,
            controller: a.controllers[market],
            store: d.store,
            gt_program: gmsol_store::ID,
            position: pos.0,
            owner: *signer,
            gt_user: *gt_user,
            event_authority: d.event_authority,
        },
        lp::instruction::ClaimGt { _position_id: pid },
    )
}

pub fn unstake_ix(
    d: &Dep,
    a: &LpAddrs,
    signer: &Pubkey,
    gt_user: &Pubkey,
    lp_token: &Pubkey,
    market: usize,
    pos: &(Pubkey, Pubkey),
    pid: u64,
    amount: u64,
) -> Instruction {
    let m = &d.markets[market];
    any_ix(
        lp::ID,
        lp::accounts::UnstakeLp {
            global_state: a.global_state,
            controller: a.controllers[market],
            lp_mint: m.market_token,
            store: d.store,
            gt_program: gmsol_store::ID,
            position: pos.0,
            position_vault: pos.1,
            owner: *signer,
            gt_user: *gt_user,
            user_lp_token: *lp_token,
            event_authority: d.event_authority,
            token_program: spl_token::ID,
        },
        lp::instruction::UnstakeLp { _position_id: pid, unstake_amount: amount },
    )
}

pub fn set_claim_enabled_ix(a: &LpAddrs, signer: &Pubkey, enabled: bool) -> Instruction {
    any_ix(
        lp::ID,
        lp::accounts::SetClaimEnabled { global_state: a.global_state, authority: *signer },
        lp::instruction::SetClaimEnabled { enabled },
    )
}

pub fn min_stake_ix(a: &LpAddrs, signer: &Pubkey, v: u128) -> Instruction {
    any_ix(
        lp::ID,
        lp::accounts::UpdateMinStakeValue { global_state: a.global_state, authority: *signer },
        lp::instruction::UpdateMinStakeValue { new_min_stake_value: v },
    )
}

pub fn gradient_range_ix(a: &LpAddrs, signer: &Pubkey, start: u8, end: u8, values: Vec<u128>) -> Instruction {
    any_ix(
        lp::ID,
        lp::accounts::UpdateApyGradient { global_state: a.global_state, authority: *signer },
        lp::instruction::UpdateApyGradientRange { start_bucket: start, end_bucket: end, apy_values: values },
    )
}

pub fn gradient_sparse_ix(a: &LpAddrs, signer: &Pubkey, idx: Vec<u8>, values: Vec<u128>) -> Instruction {
    any_ix(
        lp::ID,
        lp::accounts::UpdateApyGradient { global_state: a.global_state, authority: *signer },
        lp::instruction::UpdateApyGradientSparse { bucket_indices: idx, apy_values: values },
    )
}

pub fn staleness_ix(a: &LpAddrs, signer: &Pubkey, secs: u32) -> Instruction {
    any_ix(
        lp::ID,
        lp::accounts::SetPricingStaleness { global_state: a.global_state, authority: *signer },
        lp::instruction::SetPricingStaleness { staleness_seconds: secs },
    )
}

pub fn transfer_authority_ix(a: &LpAddrs, signer: &Pubkey, new_authority: &Pubkey) -> Instruction {
    any_ix(
        lp::ID,
        lp::accounts::TransferAuthority { global_state: a.global_state, authority: *signer },
        lp::instruction::TransferAuthority { new_authority: *new_authority },
    )
}

pub fn accept_authority_ix(a: &LpAddrs, signer: &Pubkey) -> Instruction {
    any_ix(
        lp::ID,
        lp::accounts::AcceptAuthority { global_state: a.global_state, pending_authority: *signer },
        lp::instruction::AcceptAuthority {},
    )
}

pub fn create_controller_ix(a: &LpAddrs, signer: &Pubkey, mint: &Pubkey, index: u64) -> Instruction {
    let controller = lp_pda(&[lp::LP_TOKEN_CONTROLLER_SEED, a.global_state.as_ref(), mint.as_ref(), &index.to_le_bytes()]);
    any_ix(
        lp::ID,
        lp::accounts::CreateLpTokenController { global_state: a.global_state, controller, authority: *signer, system_program: system_program::ID },
        lp::instruction::CreateLpTokenController { lp_token_mint: *mint, controller_index: index },
    )
}

pub fn disable_controller_ix(d: &Dep, a: &LpAddrs, signer: &Pubkey, market: usize) -> Instruction {
    any_ix(
        lp::ID,
        lp::accounts::DisableLpTokenController {
            global_state: a.global_state,
            controller: a.controllers[market],
            gt_store: d.store,
            gt_program: gmsol_store::ID,
            authority: *signer,
        },
        lp::instruction::DisableLpTokenController {},
    )
}

// ------------------------------------------------------------------ account views

pub fn read_position(w: &World, k: &Pubkey) -> Option<lp::Position> {
    let acc = w.get(k)?;
    if acc.owner != lp::ID {
        return None;
    }
    lp::Position::try_deserialize(&mut &acc.data[..]).ok()
}

pub fn read_global(w: &World, a: &LpAddrs) -> Option<lp::GlobalState> {
    let acc = w.get(&a.global_state)?;
    lp::GlobalState::try_deserialize(&mut &acc.data[..]).ok()
}

pub fn read_controller(w: &World, k: &Pubkey) -> Option<lp::LpTokenController> {
    let acc = w.get(k)?;
    lp::LpTokenController::try_deserialize(&mut &acc.data[..]).ok()
}

/// GT state of the store, through the IDL-generated mirror (all fields public).
pub struct GtView {
    pub cum: u128,
    pub last_ts: i64,
    pub cost: u128,
    pub total_minted: u64,
    pub grow_step: u64,
}

pub fn read_gt(w: &World, d: &Dep) -> GtView {
    let s: gmsol_programs::gmsol_store::accounts::Store = read_pod(w, &d.store).expect("store");
    GtView {
        cum: s.gt.cumulative_inv_cost_factor,
        last_ts: s.gt.last_cumulative_inv_cost_factor_ts,
        cost: s.gt.minting_cost,
        total_minted: s.gt.total_minted,
        grow_step: s.gt.grow_step_amount,
    }
}

pub fn user_gt_amount(w: &World, gt_user: &Pubkey) -> u64 {
    let u: gmsol_programs::gmsol_store::accounts::UserHeader = read_pod(w, gt_user).expect("gt user");
    u.gt.amount
}

/// Overwrite `staked_value_usd` / `cum_inv_cost` of a position account (fork probes only).
pub fn forge_position(w: &mut World, k: &Pubkey, value: Option<u128>, cum: Option<u128>) -> bool {
    use anchor_lang::AccountSerialize;
    let Some(mut p) = read_position(w, k) else { return false };
    if let Some(v) = value {
        p.staked_value_usd = v;
    }
    if let Some(c) = cum {
        p.cum_inv_cost = c;
    }
    let mut buf: Vec<u8> = Vec::new();
    if p.try_serialize(&mut buf).is_err() {
        return false;
    }
    let acc = w.accounts.get_mut(k).expect("position");
    if buf.len() > acc.data.len() {
        return false;
    }
    acc.data[..buf.len()].copy_from_slice(&buf);
    true
}

/// `value` of the store's `MarketTokenValue` event emitted during a stake (amount, value).
pub fn market_token_value_event(out: &chainsim::rt::TxOutcome) -> Option<(u64, u128)> {
    const DISC: [u8; 8] = [192, 52, 115, 189, 105, 44, 254, 121];
    for e in out.cpi_events(&gmsol_store::ID) {
        if e.len() >= 97 && e[..8] == DISC {
            let amount = u64::from_le_bytes(e[73..81].try_into().unwrap());
            let value = u128::from_le_bytes(e[81..97].try_into().unwrap());
            return Some((amount, value));
        }
    }
    None
}
