//! Scenario crate `scn-lp` (chain-level simulation on the chainsim runtime).

pub const PROPERTIES: &[&str] = &[];

pub fn registry(_property: &str) -> Option<simcore::CheckSpec> {
    None
}
