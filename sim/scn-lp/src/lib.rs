//! Scenario crate `scn-lp` (chain-level simulation on the chainsim runtime): C38 LP staking.

pub mod lpdeploy;
pub mod refm;
pub mod scenario;
pub mod ser;

use simcore::{CheckSpec, Part};

pub const PROPERTIES: &[&str] = &["C38", "C19"];

pub fn registry(property: &str) -> Option<CheckSpec> {
    match property {
        "C38" => Some(CheckSpec {
            property: "C38",
            level: "exploration",
            parts: vec![Part::new(scenario::LpStaking, 15_000, 300_000)],
            assumptions: vec![
                "the private reward functions are observed through the GT minted by claim_gt / unstake_lp; the reference allows every intermediate quantity (average APY, per-second rate, two products) to be rounded either down or up".into(),
                "a year is 365.25 days (31 557 600 s) and amounts/APYs are 1e20 fixed point, as the program defines".into(),
                "GM (market token) staking only; stake_glv differs from stake_gm only in the pricing CPI and is not exercised".into(),
                "for a disabled controller the accrual window ends at the disabling time, as the program documents".into(),
                "a full exit is required to succeed unless the GT mint at the store would overflow its cost-growth loop".into(),
            ],
        }),
        "C19" => Some(CheckSpec {
            property: "C19",
            level: "fault_enumeration",
            parts: vec![Part::new(scenario::LpStaking, 2_000, 40_000)],
            assumptions: vec![
                "liquidity-provider program only: privileges are the global-state authority (set_claim_enabled, set_pricing_staleness, update_apy_gradient_range/sparse, update_min_stake_value, transfer_authority, create/disable_lp_token_controller), the pending authority (accept_authority) and position / token-account ownership (claim_gt, unstake_lp, stake_gm)".into(),
                "twins are executed on a fork of the pre-state of a transaction that landed with the legitimate signer, so every twin is otherwise well-formed".into(),
                "initialize (first caller becomes authority) and calculate_gt_reward (read-only) are permissionless by design and not twinned".into(),
            ],
        }),
        _ => None,
    }
}
