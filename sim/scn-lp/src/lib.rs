//! Scenario crate `scn-lp` (chain-level simulation on the chainsim runtime): C38 LP staking.

pub mod lpdeploy;
pub mod refm;
pub mod scenario;
pub mod ser;

use simcore::{CheckSpec, Part};

pub const PROPERTIES: &[&str] = &["C38"];

pub fn registry(property: &str) -> Option<CheckSpec> {
    match property {
        "C38" => Some(CheckSpec {
            property: "C38",
            level: "exploration",
            parts: vec![Part::new(scenario::LpStaking, 15_000, 300_000)],
            assumptions: vec![
                "the private reward functions are observed through the GT minted by claim_gt / unstake_lp; the reference allows every intermediate quantity (average APY, per-second rate, two products) to be rounded either down or up".into(),
                "a year is 365.25 days (31 557 600 s) and amounts/APYs are 1e20 fixed point, as the program defines".into(),
                "GM (market token) staking only; stake_glv differs from stake_gm only in the pricing CPI and is not exercised".into(),
                "for a disabled controller the accrual window ends at the disabling time, as the program documents".into(),
                "a full exit is required to succeed unless the accrual window is negative (clock regression) or the GT mint at the store would overflow its cost-growth loop".into(),
            ],
        }),
        _ => None,
    }
}
