//! C27 (chain part) — market openness follows the per-feed status policy and freshness.
//!
//! v8 / v11 (and v2 / v3 / v7) reports with market status and last-update time are posted to custom feeds, the
//! keeper toggles the per-feed policy flags (`set_feed_config_market_status_flag`), changes the feed config
//! (`set_feed_config_v2`, which keeps the flags) or re-pushes the token config (which resets them), the clock is
//! advanced or jumped between update and use. Openness is observed where the program consumes it:
//! `set_prices_from_price_feed` (error `MarketNotOpen` vs. accepted with the stored `is_open` flag) and
//! `update_closed_state` (the market's closed flag follows the index token's openness).

use chainsim::deploy::{self, read_pod, store_ix, Dep};
use chainsim::report::ReportSpec;
use gmsol_store::CoreError;
use serde::{Deserialize, Serialize};
use simcore::rng::hash_str;
use simcore::{Components, Obs, Rng, Scenario, Tier};
use solana_program::instruction::Instruction;

use crate::common::*;

#[derive(Clone, Debug, Serialize, Deserialize)]
pub struct Cfg {
    /// token 0: long, token 1: short (both without market status), token 2: synthetic index (v8 / v11), 3..: extra
    pub tokens: Vec<Tok>,
    pub max_excess: u64,
    pub faults: bool,
}

#[derive(Clone, Debug, Serialize, Deserialize)]
pub enum Step {
    Post { token: usize, rep: RelReport },
    SetFlag { token: usize, flag: u8, enable: bool },
    /// `set_feed_config_v2` with the same feed id (flags must survive).
    TouchFeedCfg { token: usize, adj: u32 },
    /// `push_to_token_map(_synthetic)` update of the existing config (flags are documented to be reset).
    Repush { token: usize },
    Clock { dsec: i64 },
    Use { token: usize },
    UpdateClosed,
}

pub struct Openness;

#[derive(Clone, Debug)]
struct TokState {
    flags: u8,
    last: Option<ReportSpec>,
}

/// The reference predicate of the statement, evaluated in i128.
fn ref_open(schema: u16, heartbeat: u32, st: &TokState, now: i64) -> bool {
    let Some(rep) = &st.last else {
        // a feed that never received a report carries no open flag
        return false;
    };
    let flag = |k: u8| st.flags & (1 << k) != 0;
    // 1. status under the policy flags
    let status_open = match schema {
        8 => match rep.market_status {
            0 => flag(0),  // unknown
            1 => flag(5),  // closed
            _ => !flag(2), // open = regular hours
        },
        11 => match rep.market_status {
            0 => flag(0),
            1 => flag(1),
            2 => !flag(2),
            3 => flag(3),
            4 => flag(4),
            _ => flag(5),
        },
        _ => true, // no status information: not closed
    };
    if !status_open {
        return false;
    }
    // 2. open flag: set by the conversion unless the last-update difference does not fit 32 bits (unreachable with
    //    32-bit report timestamps)
    // 3. freshness, when last-update tracking is enabled
    match last_update_diff_secs(rep) {
        None => true,
        Some(lu) => {
            let age = now as i128 - rep.observations_ts as i128;
            let timeout = heartbeat as i128;
            age <= timeout && age + lu <= timeout
        }
    }
}

fn update_closed_ix(d: &Dep) -> Instruction {
    let m = &d.markets[0];
    let mut ix = store_ix(
        gmsol_store::accounts::UpdateClosedState {
            authority: d.keeper,
            store: d.store,
            token_map: d.token_map,
            oracle: d.oracle,
            market: m.market,
        },
        gmsol_store::instruction::UpdateClosedState {},
    );
    ix.accounts.extend(chainsim::ex::feeds_and_markets(d, &chainsim::ex::market_feed_tokens(d, m), &[], &[]));
    ix
}

impl Scenario for Openness {
    type Cfg = Cfg;
    type Step = Step;

    fn name(&self) -> &'static str {
        "openness"
    }

    fn generate(&self, seed: u64, run: u64, tier: Tier, _focus: &str) -> (Cfg, Vec<Step>) {
        let mut r = Rng::derive(seed, run, "open.cfg");
        let faults = !r.chance(1, 5);
        let hb = |r: &mut Rng| *r.pick(&[0u32, 1, 5, 30, 120, 120, 3600, u32::MAX]);
        let mut tokens = vec![
            Tok { decimals: 9, precision: 4, synthetic: false, schema: *r.pick(&[3u16, 3, 2, 7]), heartbeat: *r.pick(&[120u32, 3600, u32::MAX]) },
            Tok { decimals: 6, precision: 6, synthetic: false, schema: 3, heartbeat: *r.pick(&[120u32, 3600, u32::MAX]) },
            Tok { decimals: 8, precision: 2, synthetic: true, schema: *r.pick(&[8u16, 11, 11]), heartbeat: hb(&mut r) },
        ];
        for _ in 0..r.usize(0, 2) {
            tokens.push(Tok { decimals: 8, precision: 2, synthetic: true, schema: *r.pick(&[8u16, 11, 11, 3]), heartbeat: hb(&mut r) });
        }
        let n = tokens.len();
        let max_excess = if faults { *r.pick(&[0u64, 0, 30, 3600]) } else { 0 };
        let mut r = Rng::derive(seed, run, "open.steps");
        let m = match (tier, r.below(14)) {
            (Tier::Thorough, 0) => r.usize(120, 300),
            (_, 0) => r.usize(60, 140),
            _ => r.usize(8, 50),
        };
        let mut steps = vec![];
        // the pool tokens of the market receive a report first (they carry no market status)
        for t in 0..2 {
            let p = if t == 0 { 150 * E18 } else { E18 };
            steps.push(Step::Post { token: t, rep: RelReport { obs_off: 0, exp_off: 100_000, price: p, bid: p - p / 10_000, ask: p + p / 10_000, status: 0, lu_back_ns: 0 } });
        }
        // last posted last-update difference per token (generation-time guess, to aim at the boundary)
        let mut lu_guess = vec![0i64; n];
        for _ in 0..m {
            // status-carrying tokens get most of the attention
            let t = if r.chance(2, 3) { r.usize(2, n - 1) } else { r.usize(0, n - 1) };
            let schema = tokens[t].schema;
            let h = tokens[t].heartbeat as i64;
            match r.below(100) {
                0..=29 => {
                    let status = match schema {
                        8 => *r.pick(&[0u32, 1, 2, 2, 2]),
                        11 => *r.pick(&[0u32, 1, 2, 2, 2, 3, 4, 5]),
                        _ => 0,
                    };
                    let lu_back_ns: i128 = match r.below(10) {
                        0 => 0,
                        1 => -(r.range(1, 999_999_999) as i128),
                        2 => r.range(1, 999_999_999) as i128,
                        3 => (h.min(100_000) as i128) * 1_000_000_000 + r.range_i64(-1_500_000_000, 1_500_000_000) as i128,
                        4 => r.log_u128(4_000_000_000_000_000_000) as i128,
                        5 if faults => -(r.range(1_000_000_000, 3_000_000_000) as i128), // invalid: ahead by ≥ 1 s
                        _ => r.range(0, 20_000_000_000) as i128,
                    };
                    lu_guess[t] = ((lu_back_ns.max(0) + 999_999_999) / 1_000_000_000).min(1 << 40) as i64;
                    let obs_off = match r.below(8) {
                        0 if max_excess > 0 => r.range(1, max_excess.min(600)) as i64,
                        1 => -(r.range(1, 200) as i64),
                        2 => -(h.min(100_000) + r.range_i64(-2, 2)).max(0),
                        _ => 0,
                    };
                    let base = match t {
                        0 => 150,
                        1 => 1,
                        _ => 60_000,
                    };
                    let p = base * E18 + r.range(0, 1_000_000) as i128 * 1_000_000_000;
                    steps.push(Step::Post { token: t, rep: RelReport { obs_off, exp_off: 100_000, price: p, bid: p - p / 10_000, ask: p + p / 10_000, status, lu_back_ns } });
                }
                30..=44 => steps.push(Step::SetFlag { token: t, flag: if faults && r.chance(1, 12) { r.range(6, 9) as u8 } else { r.range(0, 5) as u8 }, enable: r.chance(3, 5) }),
                45..=47 => steps.push(Step::TouchFeedCfg { token: t, adj: r.range(0, 3) as u32 }),
                48..=49 => steps.push(Step::Repush { token: t }),
                50..=69 => {
                    // around the closing boundary: timeout − last-update difference, timeout, and beyond
                    let dsec = match r.below(10) {
                        0 => 0,
                        1 | 2 => (h.min(1 << 33) - lu_guess[t] + r.range_i64(-2, 2)).max(0),
                        3 => (h.min(1 << 33) + r.range_i64(-2, 2)).max(0),
                        4 if faults && r.chance(1, 3) => r.range(3_600, 86_400 * 365) as i64,
                        5 if faults && r.chance(1, 10) => *r.pick(&[1i64 << 31, 1 << 32, (1 << 32) + 5, i64::MAX / 2]),
                        _ => r.range(1, 30) as i64,
                    };
                    steps.push(Step::Clock { dsec });
                }
                70..=92 => steps.push(Step::Use { token: t }),
                _ => steps.push(Step::UpdateClosed),
            }
        }
        (Cfg { tokens, max_excess, faults }, steps)
    }

    fn execute(&self, cfg: &Cfg, steps: &[Step], obs: &mut Obs) {
        run_steps(cfg, steps, obs)
    }

    fn simplify_step(&self, step: &Step) -> Vec<Step> {
        match step {
            Step::Clock { dsec } if *dsec > 0 => vec![Step::Clock { dsec: dsec / 2 }, Step::Clock { dsec: dsec - 1 }],
            Step::Post { token, rep } if rep.lu_back_ns != 0 || rep.obs_off != 0 => {
                let mut v = vec![];
                let mut r2 = rep.clone();
                r2.lu_back_ns = 0;
                r2.obs_off = 0;
                v.push(Step::Post { token: *token, rep: r2 });
                v
            }
            _ => vec![],
        }
    }

    fn components(&self) -> Components {
        Components {
            real: vec![
                "gmsol_store entrypoint: update_price_feed_with_chainlink, set_feed_config_market_status_flag, set_feed_config_v2, push_to_token_map(_synthetic) update, set_prices_from_price_feed, clear_all_prices, update_closed_state, insert_amount".into(),
                "PriceFeedPrice::from_chainlink_report (status + last-update conversion), PriceFeed::check_and_get_price -> PriceFeedPrice::is_market_open, MarketStatus::openness (inside the store)".into(),
                "gmsol_mock_chainlink_verifier".into(),
            ],
            stub: vec![
                "chainsim runtime (accounts db, loader, CPI, sysvars, system program)".into(),
                "report provider (own ABI encoder)".into(),
                "report timestamps are u32 and the clock is non-decreasing: the 64-bit extremes of is_market_open are covered by the unit-level timeline simulation in unitsim, not here".into(),
            ],
        }
    }

    fn rule(&self) -> String {
        "one case = one consumption of a stored feed price (set_prices_from_price_feed on one token, or update_closed_state on the \
         market whose index token carries the status) after a history of reports, policy-flag changes, config re-pushes and clock \
         advances; distinct = (schema, reported status, policy flag set, report age vs. timeout {<,=,>}, age+last-update difference vs. \
         timeout {<,=,>}, observed openness, outcome class). Reference (i128): open <=> status open under the flags (no status = not \
         closed) AND feed has received a report AND (no last-update tracking OR (now-ts <= heartbeat AND now-ts+ceil(last-update \
         difference) <= heartbeat)); observed openness = instruction does not fail with MarketNotOpen / market closed flag"
            .into()
    }
}

fn run_steps(cfg: &Cfg, steps: &[Step], obs: &mut Obs) {
    let (mut w, d) = world_for(&cfg.tokens, &[(2, 0, 1)], 0);
    let nt = d.tokens.len();
    if cfg.max_excess != 0 {
        let o = w.process(insert_amount_ix(&d, "oracle_max_future_timestamp_excess", cfg.max_excess));
        assert!(o.ok);
    }
    // freshness limits of the validator are not the subject here: make them permissive
    for (k, v) in [("oracle_max_age", u32::MAX as u64), ("oracle_max_timestamp_range", u32::MAX as u64)] {
        let o = w.process(insert_amount_ix(&d, k, v));
        assert!(o.ok);
    }
    let not_open = code(CoreError::MarketNotOpen);
    let mut st: Vec<TokState> = (0..nt).map(|_| TokState { flags: 0, last: None }).collect();
    for (i, s) in steps.iter().enumerate() {
        obs.set_step(i);
        match s {
            Step::Clock { dsec } => {
                let dsec = (*dsec).max(0);
                if dsec == 0 {
                    obs.fault("clock_stall");
                } else if dsec > 3_600 {
                    obs.fault("clock_jump");
                }
                let before = w.clock.unix_timestamp;
                w.clock.unix_timestamp = w.clock.unix_timestamp.saturating_add(dsec);
                w.clock.slot = w.clock.slot.saturating_add((dsec as u64).min(1 << 40) * 2 + 1);
                obs.sim_seconds += (w.clock.unix_timestamp - before).min(86_400 * 365) as u64;
                obs.event(|| format!("clock -> {}", w.clock.unix_timestamp));
            }
            Step::Post { token, rep } => {
                let t = token % nt;
                let tk = &d.tokens[t];
                let now = w.clock.unix_timestamp;
                let spec = rep.to_spec(tk.schema, tk.feed_id, now);
                let o = w.process(chainsim::ex::update_feed_ix(&d, t, &spec, false));
                obs.outcome("keeper", "update_feed", &o.class());
                obs.event(|| {
                    format!(
                        "post token={t} schema={} status={} obs={} lu_diff={:?} -> {}",
                        tk.schema,
                        spec.market_status,
                        spec.observations_ts,
                        last_update_diff_secs(&spec),
                        o.class()
                    )
                });
                if o.ok {
                    st[t].last = Some(spec);
                } else if !report_well_formed(&spec) {
                    obs.fault("malformed_report_rejected");
                }
            }
            Step::SetFlag { token, flag, enable } => {
                let t = token % nt;
                let o = w.process(set_status_flag_ix(&d, &d.tokens[t].mint, 0, *flag, *enable));
                obs.outcome("keeper", "set_status_flag", &o.class());
                if o.ok {
                    if *flag < 8 {
                        if *enable {
                            st[t].flags |= 1 << *flag;
                        } else {
                            st[t].flags &= !(1 << *flag);
                        }
                    }
                    if *flag > 5 {
                        obs.probe("undefined_flag_index_accepted");
                    }
                }
                obs.event(|| format!("set_flag token={t} flag={flag} {enable} -> {} (model flags {:#08b})", o.class(), st[t].flags));
            }
            Step::TouchFeedCfg { token, adj } => {
                let t = token % nt;
                let tk = &d.tokens[t];
                let o = w.process(set_feed_config_ix(&d, &tk.mint, 0, Some(solana_program::pubkey::Pubkey::new_from_array(tk.feed_id)), Some(*adj), None));
                obs.outcome("keeper", "set_feed_config", &o.class());
                obs.event(|| format!("set_feed_config token={t} -> {}", o.class()));
            }
            Step::Repush { token } => {
                let t = token % nt;
                let tk = &d.tokens[t];
                let o = w.process(deploy::push_token_ix(&d, tk, &tk.name, false, true));
                obs.outcome("keeper", "push_to_token_map_update", &o.class());
                if o.ok {
                    // documented: the feeds are rebuilt, market status flags are reset
                    st[t].flags = 0;
                    obs.fault("token_config_repushed");
                }
                obs.event(|| format!("repush token={t} -> {}", o.class()));
            }
            Step::Use { token } => {
                let t = token % nt;
                let tk = &d.tokens[t];
                let now = w.clock.unix_timestamp;
                let expect = ref_open(tk.schema, tk.heartbeat, &st[t], now);
                let o = w.process(set_prices_ix(&d, &[tk.mint], &[tk.price_feed]));
                obs.outcome("keeper", "set_prices", &o.class());
                let observed_open = o.custom_code() != Some(not_open);
                obs.event(|| format!("use token={t} now={now} expect_open={expect} -> {}", out_summary(&o)));
                let key = |what: &str| {
                    format!(
                        "observed_open={observed_open},schema={},status={},via={what}",
                        tk.schema,
                        st[t].last.as_ref().map(|r| r.market_status as i64).unwrap_or(-1)
                    )
                };
                if o.panic.is_some() {
                    obs.violation("C27", "panic", key("set_prices"), format!("set_prices panicked: {:?}", o.panic));
                    return;
                }
                obs.require(observed_open == expect, "C27", "openness_matches_reference", || key("set_prices"), || {
                    format!(
                        "token {t} (schema {} heartbeat {} flags {:#08b}) at now={now}: reference open={expect} but the instruction returned {} (last report {:?})",
                        tk.schema,
                        tk.heartbeat,
                        st[t].flags,
                        o.class(),
                        st[t].last.as_ref().map(|r| (r.market_status, r.observations_ts, last_update_diff_secs(r)))
                    )
                });
                if obs.should_stop() {
                    return;
                }
                if o.ok {
                    let view = read_oracle(&w, &d);
                    let flag = view.price(&tk.mint).map(|p| p.is_open);
                    obs.require(flag == Some(true), "C27", "stored_open_flag", || key("oracle_flag"), || format!("accepted with stored is_open={flag:?}"));
                    let c = w.process(clear_prices_ix(&d));
                    assert!(c.ok);
                    obs.probe("use_accepted_open");
                } else if !observed_open {
                    obs.probe("use_rejected_closed");
                } else {
                    obs.probe(&format!("use_open_but_rejected:{}", o.class()));
                }
                let cls = |r: &ReportSpec| {
                    let age = now as i128 - r.observations_ts as i128;
                    let lu = last_update_diff_secs(r).unwrap_or(0);
                    let h = tk.heartbeat as i128;
                    ((age - h).signum() + 1) as u64 * 3 + ((age + lu - h).signum() + 1) as u64
                };
                obs.fingerprint(&[
                    0xC27,
                    tk.schema as u64,
                    st[t].last.as_ref().map(|r| r.market_status as u64 + 1).unwrap_or(0),
                    st[t].flags as u64,
                    st[t].last.as_ref().map(cls).unwrap_or(99),
                    observed_open as u64,
                    hash_str(&o.class()),
                ]);
            }
            Step::UpdateClosed => {
                let now = w.clock.unix_timestamp;
                let idx = d.markets[0].index;
                let expect_open = ref_open(d.tokens[idx].schema, d.tokens[idx].heartbeat, &st[idx], now);
                let o = w.process(update_closed_ix(&d));
                obs.outcome("keeper", "update_closed_state", &o.class());
                obs.event(|| format!("update_closed_state now={now} expect_index_open={expect_open} -> {}", out_summary(&o)));
                if o.panic.is_some() {
                    obs.violation("C27", "panic", "via=update_closed_state".into(), format!("panicked: {:?}", o.panic));
                    return;
                }
                if o.ok {
                    let m: gmsol_store::states::Market = read_pod(&w, &d.markets[0].market).unwrap();
                    let closed = m.is_closed();
                    obs.require(
                        closed == !expect_open,
                        "C27",
                        "openness_matches_reference",
                        || format!("observed_open={},schema={},status={},via=update_closed_state", !closed, d.tokens[idx].schema, st[idx].last.as_ref().map(|r| r.market_status as i64).unwrap_or(-1)),
                        || format!("market closed flag = {closed} but the index token's reference openness is {expect_open} at now={now}"),
                    );
                    obs.probe(if closed { "market_marked_closed" } else { "market_marked_open" });
                    let (cleared, _) = oracle_is_cleared(&w, &d);
                    assert!(cleared, "oracle not cleared after update_closed_state");
                }
            }
        }
        if obs.should_stop() {
            return;
        }
    }
}
