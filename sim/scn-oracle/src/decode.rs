//! C28 — Chainlink reports are decoded safely and converted faithfully (fault enumeration on bytes).
//!
//! One run = one valid report (schema v2/v3/v7/v8/v11, prices up to the int192 range, own ABI encoder) and a list
//! of byte-level damages applied by the transport. Every damaged report is fed to the decoders directly
//! (`decode_compressed_full_report`, `decode_full_report`, `decode` + `PriceFeedPrice::from_chainlink_report`, each
//! under `catch_unwind`) and — for the cases marked `onchain` — through `update_price_feed_with_chainlink` on a fork
//! of a deployed world.

use std::panic::{catch_unwind, AssertUnwindSafe};

use chainsim::report::{compress, full_report_of, word_big};
use gmsol_chainlink_datastreams::report::{decode, decode_compressed_full_report, decode_full_report};
use gmsol_chainlink_datastreams::FromChainlinkReport;
use gmsol_store::states::PriceFeedPrice;
use num_bigint::{BigInt, BigUint};
use num_traits::{Signed, ToPrimitive, Zero};
use serde::{Deserialize, Serialize};
use simcore::rng::hash_str;
use simcore::{Components, Obs, Rng, Scenario, Tier};

use crate::common::*;

pub const SCHEMAS: [u16; 5] = [2, 3, 7, 8, 11];

/// A report with arbitrary-precision prices (decimal strings so that it can live in a plan).
#[derive(Clone, Debug, Serialize, Deserialize)]
pub struct BlobSpec {
    pub schema: u16,
    pub valid_from: u32,
    pub obs: u32,
    pub expires: u32,
    pub price: String,
    pub bid: String,
    pub ask: String,
    pub status: u32,
    pub last_update_ns: u64,
}

fn big(s: &str) -> BigInt {
    s.parse::<BigInt>().expect("decimal big integer in plan")
}

fn word_u64(v: u64) -> [u8; 32] {
    let mut w = [0u8; 32];
    w[24..].copy_from_slice(&v.to_be_bytes());
    w
}

impl BlobSpec {
    pub fn blob(&self, feed_id: &[u8; 32]) -> Vec<u8> {
        let (p, b, a) = (big(&self.price), big(&self.bid), big(&self.ask));
        let mut out = Vec::with_capacity(32 * 14);
        out.extend_from_slice(feed_id);
        out.extend_from_slice(&word_u64(self.valid_from as u64));
        out.extend_from_slice(&word_u64(self.obs as u64));
        out.extend_from_slice(&word_u64(0));
        out.extend_from_slice(&word_u64(0));
        out.extend_from_slice(&word_u64(self.expires as u64));
        match self.schema {
            3 => {
                out.extend_from_slice(&word_big(&p));
                out.extend_from_slice(&word_big(&b));
                out.extend_from_slice(&word_big(&a));
            }
            8 => {
                out.extend_from_slice(&word_u64(self.last_update_ns));
                out.extend_from_slice(&word_big(&p));
                out.extend_from_slice(&word_u64(self.status as u64));
            }
            11 => {
                out.extend_from_slice(&word_big(&p));
                out.extend_from_slice(&word_u64(self.last_update_ns));
                out.extend_from_slice(&word_big(&b));
                out.extend_from_slice(&word_u64(0));
                out.extend_from_slice(&word_big(&a));
                out.extend_from_slice(&word_u64(0));
                out.extend_from_slice(&word_big(&p));
                out.extend_from_slice(&word_u64(self.status as u64));
            }
            _ => {
                out.extend_from_slice(&word_big(&p));
            }
        }
        out
    }
}

#[derive(Clone, Copy, Debug, Serialize, Deserialize, PartialEq, Eq)]
pub enum Which {
    Offset,
    Length,
}

#[derive(Clone, Debug, Serialize, Deserialize, PartialEq, Eq)]
pub enum Dmg {
    Intact,
    /// Flip one bit of the uncompressed payload.
    FlipBit(u32),
    /// Keep the first n bytes of the uncompressed payload.
    Truncate(u32),
    /// Append bytes to the payload.
    Extend(Vec<u8>),
    /// Overwrite the ABI offset / length word (32 bytes, big endian).
    SetWord(Which, Vec<u8>),
    /// Overwrite `len` bytes at `to` with the bytes at `from` (both modulo the payload length).
    Splice { from: u32, to: u32, len: u32 },
    /// Overwrite bytes at `at` with the given ones.
    Poke { at: u32, bytes: Vec<u8> },
    /// Replace the feed id inside the blob.
    FeedId(Vec<u8>),
    /// Replace the schema id (first two bytes of the feed id inside the blob).
    Schema(u16),
    /// Damage of the snappy frame (applied to the compressed bytes).
    SnapFlip(u32),
    SnapTruncate(u32),
    SnapAppend(Vec<u8>),
    /// Replace the varint length prefix of the snappy frame by this value.
    SnapLen(u32),
    /// An arbitrary byte string, given to every decoder as is.
    Raw(Vec<u8>),
}

#[derive(Clone, Debug, Serialize, Deserialize)]
pub struct Step {
    pub dmg: Dmg,
    pub onchain: bool,
}

#[derive(Clone, Debug, Serialize, Deserialize)]
pub struct Cfg {
    pub spec: BlobSpec,
    /// Complete enumeration run (all header / offset / length bit flips, all word-boundary truncations, all word
    /// rewrites) as opposed to a random-damage run.
    pub enumerate: bool,
}

pub struct DecodeFaults;

fn tokens() -> Vec<Tok> {
    SCHEMAS
        .iter()
        .map(|s| Tok { decimals: 9, precision: 4, synthetic: true, schema: *s, heartbeat: 120 })
        .collect()
}

fn schema_index(schema: u16) -> usize {
    SCHEMAS.iter().position(|s| *s == schema).unwrap_or(0)
}

fn gen_spec(r: &mut Rng) -> BlobSpec {
    let schema = *r.pick(&SCHEMAS);
    // magnitude: from tiny up to the int192 limit (2^191 − 1), so that the u128 storage conversion divides
    let bits = match r.below(10) {
        0..=3 => r.range(1, 100),
        4..=6 => r.range(100, 128),
        7 | 8 => r.range(128, 191),
        _ => 191,
    } as u32;
    let mut mag = BigUint::from_bytes_be(&r.bytes(24));
    mag >>= 192 - bits;
    if mag.is_zero() {
        mag = BigUint::from(1u32);
    }
    let price = BigInt::from(mag);
    let spread: BigInt = if r.chance(1, 4) { BigInt::zero() } else { &price / BigInt::from(r.range(50, 100_000)) };
    let max192: BigInt = (BigInt::from(1) << 191u32) - 1;
    let mut bid = &price - &spread;
    let mut ask = (&price + &spread).min(max192.clone());
    let mut mid = price.clone();
    // malformed value sets (the conversion must reject them)
    match r.below(14) {
        0 => std::mem::swap(&mut bid, &mut ask),
        1 => mid = &ask + 1,
        2 => mid = &bid - 1,
        3 => mid = -mid,
        4 => bid = -bid - 1,
        5 => ask = -ask - 1,
        6 => {
            mid = BigInt::zero();
            bid = BigInt::zero();
            ask = BigInt::zero();
        }
        7 => {
            bid = -(BigInt::from(1) << 191u32);
        }
        8 | 9 => {
            // one-sided, very wide spread: bid many orders of magnitude below the ask
            bid = &price >> (r.range(1, 120) as u32);
        }
        _ => {}
    }
    if mid > max192 {
        mid = max192.clone();
    }
    let obs = (START_TS - r.range(0, 5) as i64) as u32;
    let status = match schema {
        8 => *r.pick(&[0u32, 1, 2, 2, 2, 3, u32::MAX]),
        11 => *r.pick(&[0u32, 1, 2, 2, 3, 4, 5, 6, 255]),
        _ => 0,
    };
    let last_update_ns = match r.below(8) {
        0 => 0,
        1 => u64::MAX,
        2 => obs as u64 * 1_000_000_000 + r.range(0, 1_999_999_999),
        _ => obs as u64 * 1_000_000_000 - r.range(0, 10_000_000_000),
    };
    BlobSpec {
        schema,
        valid_from: obs,
        obs,
        expires: (START_TS + 3600) as u32,
        price: mid.to_string(),
        bid: bid.to_string(),
        ask: ask.to_string(),
        status,
        last_update_ns,
    }
}

fn interesting_words(r: &mut Rng, payload_len: usize, blob_len: usize) -> Vec<Vec<u8>> {
    let mut v: Vec<BigUint> = vec![];
    let n = payload_len as u64;
    let l = blob_len as u64;
    for x in [0u64, 1, 31, 32, 64, 95, 96, 97, 127, 128, 129, 159, 160, 161, 192, l.saturating_sub(1), l, l + 1, l + 32, n.saturating_sub(160), n.saturating_sub(64), n.saturating_sub(33), n.saturating_sub(32), n.saturating_sub(31), n.saturating_sub(1), n, n + 1, n + 32] {
        v.push(BigUint::from(x));
    }
    for k in [0u64, 1, 31, 32, 33, 63, 64, 127, 128, 159, 160, 161, l, n] {
        v.push(BigUint::from(u64::MAX - k));
    }
    v.push(BigUint::from(i64::MAX as u64));
    v.push(BigUint::from(1u64 << 63));
    v.push(BigUint::from(u32::MAX));
    v.push(BigUint::from(1u64 << 32));
    // values whose low 64 bits look harmless but whose high bits are set
    for low in [128u64, l, 0, 160] {
        for sh in [64u32, 65, 128, 191, 192, 255] {
            v.push((BigUint::from(1u32) << sh) + BigUint::from(low));
        }
    }
    v.push((BigUint::from(1u32) << 256) - BigUint::from(1u32));
    v.push((BigUint::from(1u32) << 256) - BigUint::from(128u32));
    for _ in 0..4 {
        v.push(BigUint::from_bytes_be(&r.bytes(32)));
    }
    v.into_iter()
        .map(|x| {
            let b = x.to_bytes_be();
            let mut w = vec![0u8; 32];
            let n = b.len().min(32);
            w[32 - n..].copy_from_slice(&b[b.len() - n..]);
            w
        })
        .collect()
}

fn random_damage(r: &mut Rng, payload_len: usize) -> Dmg {
    let n = payload_len as u32;
    match r.below(20) {
        0 => Dmg::Intact,
        1 | 2 => Dmg::FlipBit(r.below(n as u64 * 8) as u32),
        3 => Dmg::Truncate(r.below(n as u64 + 1) as u32),
        4 => {
            let k = r.usize(1, 70);
            Dmg::Extend(r.bytes(k))
        }
        5 | 6 => Dmg::Splice { from: r.below(n as u64) as u32, to: r.below(n as u64) as u32, len: r.range(1, 96) as u32 },
        7 | 8 => {
            let k = r.usize(1, 40);
            Dmg::Poke { at: r.below(n as u64) as u32, bytes: r.bytes(k) }
        }
        9 => Dmg::FeedId(r.bytes(32)),
        10 => Dmg::Schema(*r.pick(&[0u16, 1, 2, 3, 4, 5, 6, 7, 8, 9, 10, 11, 12, 13, 14, 255, 256, 0x0300, u16::MAX])),
        11 | 12 => Dmg::SnapFlip(r.u64() as u32),
        13 => Dmg::SnapTruncate(r.u64() as u32),
        14 => {
            let k = r.usize(1, 40);
            Dmg::SnapAppend(r.bytes(k))
        }
        15 => Dmg::SnapLen(*r.pick(&[0u32, 1, 127, 128, n - 1, n + 1, n * 2, 1 << 16, 1 << 24])),
        16 | 17 => {
            let len = match r.below(6) {
                0 => r.usize(0, 8),
                1 => r.usize(120, 170),
                2 => r.usize(0, 700),
                _ => r.usize(0, 300),
            };
            let mut b = r.bytes(len);
            if r.chance(1, 2) && b.len() >= 128 {
                // make the offset word plausible so that deeper code is reached
                for x in b[96..127].iter_mut() {
                    *x = 0;
                }
                b[127] = 128;
            }
            Dmg::Raw(b)
        }
        _ => Dmg::SetWord(*r.pick(&[Which::Offset, Which::Length]), {
            let mut w = vec![0u8; 32];
            let v = r.log_u64(u64::MAX);
            w[24..].copy_from_slice(&v.to_be_bytes());
            w
        }),
    }
}

impl Scenario for DecodeFaults {
    type Cfg = Cfg;
    type Step = Step;

    fn name(&self) -> &'static str {
        "decode_faults"
    }

    fn generate(&self, seed: u64, run: u64, tier: Tier, _focus: &str) -> (Cfg, Vec<Step>) {
        let mut r = Rng::derive(seed, run, "decode.cfg");
        let spec = gen_spec(&mut r);
        let enumerate = r.chance(1, 6);
        let fid = chainsim::deploy::feed_id_for(spec.schema, schema_index(spec.schema) as u8 + 1);
        let blob_len = spec.blob(&fid).len();
        let payload_len = full_report_of(&spec.blob(&fid)).len();
        let mut r = Rng::derive(seed, run, "decode.steps");
        let mut steps = vec![Step { dmg: Dmg::Intact, onchain: true }];
        if enumerate {
            // every single-bit flip in the three context words, the offset word and the length word
            for bit in 0..(160 * 8) as u32 {
                let onchain = bit >= 96 * 8 || bit % 16 == (run % 16) as u32;
                steps.push(Step { dmg: Dmg::FlipBit(bit), onchain });
            }
            // truncation at every word boundary, plus unaligned ones
            let mut w = 0;
            while w <= payload_len {
                steps.push(Step { dmg: Dmg::Truncate(w as u32), onchain: true });
                w += 32;
            }
            for _ in 0..6 {
                steps.push(Step { dmg: Dmg::Truncate(r.below(payload_len as u64) as u32), onchain: true });
            }
            for k in [1u32, 31, 33] {
                steps.push(Step { dmg: Dmg::Truncate(payload_len as u32 - k), onchain: true });
                steps.push(Step { dmg: Dmg::Truncate(128 + k), onchain: true });
                steps.push(Step { dmg: Dmg::Truncate(160 + k), onchain: true });
            }
            // rewritten offset / length words
            for which in [Which::Offset, Which::Length] {
                for w in interesting_words(&mut r, payload_len, blob_len) {
                    steps.push(Step { dmg: Dmg::SetWord(which, w), onchain: true });
                }
            }
            // wrong schema ids / feed ids
            for s in [0u16, 1, 2, 3, 4, 5, 6, 7, 8, 9, 10, 11, 12, 13, 0x0100, u16::MAX] {
                steps.push(Step { dmg: Dmg::Schema(s), onchain: true });
            }
            for _ in 0..4 {
                steps.push(Step { dmg: Dmg::FeedId(r.bytes(32)), onchain: true });
            }
            for _ in 0..60 {
                steps.push(Step { dmg: random_damage(&mut r, payload_len), onchain: r.chance(1, 2) });
            }
        } else {
            let n = match (tier, r.below(10)) {
                (Tier::Thorough, 0) => r.usize(200, 600),
                (_, 0) => r.usize(100, 250),
                _ => r.usize(10, 80),
            };
            for _ in 0..n {
                steps.push(Step { dmg: random_damage(&mut r, payload_len), onchain: r.chance(1, 2) });
            }
        }
        (Cfg { spec, enumerate }, steps)
    }

    fn execute(&self, cfg: &Cfg, steps: &[Step], obs: &mut Obs) {
        let (base, d) = world_for(&tokens(), &[], 0);
        let mut w = base.clone();
        let ti = schema_index(cfg.spec.schema);
        let fid = d.tokens[ti].feed_id;
        let blob = cfg.spec.blob(&fid);
        let payload = full_report_of(&blob);
        for (i, st) in steps.iter().enumerate() {
            obs.set_step(i);
            let (raw_payload, compressed): (Option<Vec<u8>>, Vec<u8>) = match &st.dmg {
                Dmg::SnapFlip(_) | Dmg::SnapTruncate(_) | Dmg::SnapAppend(_) | Dmg::SnapLen(_) => {
                    obs.fault("snappy_frame_damaged");
                    (None, damage_compressed(&st.dmg, &compress(&payload)))
                }
                Dmg::Raw(b) => {
                    obs.fault("arbitrary_bytes");
                    (Some(b.clone()), b.clone())
                }
                dmg => {
                    if *dmg != Dmg::Intact {
                        obs.fault(match dmg {
                            Dmg::FlipBit(_) => "bit_flip",
                            Dmg::Truncate(_) => "truncation",
                            Dmg::Extend(_) => "extension",
                            Dmg::SetWord(..) => "offset_length_rewritten",
                            Dmg::Splice { .. } | Dmg::Poke { .. } => "splice",
                            Dmg::FeedId(_) => "wrong_feed_id",
                            Dmg::Schema(_) => "wrong_schema",
                            _ => "other",
                        });
                    }
                    let p = damage_payload(dmg, &payload);
                    let c = compress(&p);
                    (Some(p), c)
                }
            };
            let kind = dmg_kind(&st.dmg);

            // ---- A. compressed entry point
            let a = guarded(|| decode_compressed_full_report(&compressed).map(|r| describe(&r)));
            match &a {
                Err((loc, msg)) => {
                    report_panic(obs, "decode_compressed_full_report", kind, loc, msg);
                }
                Ok(res) => {
                    obs.checked("no_panic");
                    obs.event(|| format!("{kind} compressed -> {}", if res.is_ok() { "ok" } else { "err" }));
                }
            }
            if obs.should_stop() {
                return;
            }
            // For a damaged snappy frame, continue with whatever it decompresses to (own decompression call —
            // the decompressor is third-party code and only provides the input of the next stage).
            let p: Vec<u8> = match raw_payload {
                Some(p) => p,
                None => match guarded(|| gmsol_chainlink_datastreams::utils::Compressor::decompress(&compressed)) {
                    Ok(Ok(p)) => {
                        obs.probe("damaged_frame_still_decompresses");
                        p
                    }
                    Ok(Err(_)) => {
                        obs.outcome("transport", kind, "undecompressable");
                        if st.onchain {
                            onchain(&mut w, &base, &d, ti, &compressed, None, kind, obs);
                            if obs.should_stop() {
                                return;
                            }
                        }
                        continue;
                    }
                    Err((loc, msg)) => {
                        report_panic(obs, "decompress", kind, &loc, &msg);
                        if obs.should_stop() {
                            return;
                        }
                        continue;
                    }
                },
            };

            // ---- B. full report: the blob is exactly the ABI-described slice
            let refslice = abi_slice(&p);
            let b = guarded(|| decode_full_report(&p).map(|(ctx, blob)| (ctx, blob.to_vec())));
            let mut decoded_blob: Option<Vec<u8>> = None;
            match b {
                Err((loc, msg)) => report_panic(obs, "decode_full_report", kind, &loc, &msg),
                Ok(Err(_)) => {
                    obs.checked("no_panic");
                    obs.outcome("decoder", kind, "full_report_err");
                    if refslice.is_ok() {
                        obs.probe("well_described_slice_rejected");
                    }
                }
                Ok(Ok((ctx, got))) => {
                    obs.outcome("decoder", kind, "full_report_ok");
                    match &refslice {
                        Ok((s, e)) => {
                            obs.require(
                                got[..] == p[*s..*e],
                                "C28",
                                "blob_is_abi_slice",
                                || format!("ref=in_range,kind={kind}"),
                                || format!("blob of {} bytes differs from payload[{s}..{e}]", got.len()),
                            );
                            let ctx_ok = (0..3).all(|k| ctx[k][..] == p[k * 32..(k + 1) * 32]);
                            obs.require(ctx_ok, "C28", "context_words", || format!("kind={kind}"), || "report context differs from the first three words".into());
                        }
                        Err(why) => {
                            // Does the blob at least equal the slice described by the low 64 bits of the two words?
                            let low = match abi_slice_low64(&p) {
                                Some((s, e)) if got[..] == p[s..e] => "match",
                                _ => "mismatch",
                            };
                            obs.require(
                                false,
                                "C28",
                                "blob_is_abi_slice",
                                || format!("ref={why},low64_slice={low},kind={kind}"),
                                || {
                                    format!(
                                        "decode_full_report succeeded ({} bytes) although the 256-bit ABI words describe no in-range slice: {why}; offset word={} length word(at low-64 offset)={}",
                                        got.len(),
                                        hex(&p[96..128]),
                                        low64_len_word(&p)
                                    )
                                },
                            );
                        }
                    }
                    decoded_blob = Some(got);
                }
            }
            if obs.should_stop() {
                return;
            }
            // ---- C. blob decoding + conversion (on the decoded blob; for arbitrary bytes also on the bytes themselves)
            let mut conv_ok = None;
            if let Some(bl) = &decoded_blob {
                conv_ok = Some(check_blob(bl, kind, obs));
                if obs.should_stop() {
                    return;
                }
            }
            if matches!(st.dmg, Dmg::Raw(_)) {
                check_blob(&p, "raw_as_blob", obs);
            }
            if obs.should_stop() {
                return;
            }
            if st.onchain {
                onchain(&mut w, &base, &d, ti, &compressed, Some(&p), kind, obs);
                if obs.should_stop() {
                    return;
                }
            }
            obs.fingerprint(&[0xC28, hash_str(kind), cfg.spec.schema as u64, refslice.is_ok() as u64, decoded_blob.is_some() as u64, conv_ok.map(|b| b as u64 + 1).unwrap_or(0), p.len().min(700) as u64 / 32]);
        }
    }

    fn simplify_step(&self, step: &Step) -> Vec<Step> {
        let mut v = vec![];
        if step.onchain {
            v.push(Step { dmg: step.dmg.clone(), onchain: false });
        }
        v
    }

    fn components(&self) -> Components {
        Components {
            real: vec![
                "gmsol_chainlink_datastreams::report::{decode_compressed_full_report, decode_full_report, decode}".into(),
                "PriceFeedPrice::from_chainlink_report (crates/chainlink-datastreams/src/gmsol.rs), gmsol_utils::price::find_divisor_decimals".into(),
                "gmsol_store entrypoint: update_price_feed_with_chainlink; gmsol_mock_chainlink_verifier entrypoint".into(),
                "snap, chainlink-data-streams-report (third party)".into(),
            ],
            stub: vec![
                "chainsim runtime (accounts db, loader, CPI, sysvars, system program)".into(),
                "report provider and transport damage: own ABI encoder with big-integer prices".into(),
            ],
        }
    }

    fn rule(&self) -> String {
        "one case = one damaged byte string derived from a valid report (or an arbitrary byte string) given to the three \
         decoders + the conversion directly and, for the cases marked onchain, to update_price_feed_with_chainlink on a fork; \
         enumeration runs contain every single-bit flip of the 3 context words + offset word + length word (1280), truncation \
         at every word boundary, ~70 rewritten offset and length words each; distinct = (damage kind, schema, reference slice \
         in range?, full report accepted?, conversion accepted?, payload words). Reference: the ABI slice is recomputed from \
         the 256-bit offset/length words with big integers; bid/price/ask are re-parsed from the blob bytes with an own reader"
            .into()
    }
}

fn dmg_kind(d: &Dmg) -> &'static str {
    match d {
        Dmg::Intact => "intact",
        Dmg::FlipBit(b) => {
            if *b < 96 * 8 {
                "flip_context"
            } else if *b < 128 * 8 {
                "flip_offset_word"
            } else if *b < 160 * 8 {
                "flip_length_word"
            } else {
                "flip_blob"
            }
        }
        Dmg::Truncate(_) => "truncate",
        Dmg::Extend(_) => "extend",
        Dmg::SetWord(Which::Offset, _) => "set_offset_word",
        Dmg::SetWord(Which::Length, _) => "set_length_word",
        Dmg::Splice { .. } => "splice",
        Dmg::Poke { .. } => "poke",
        Dmg::FeedId(_) => "feed_id",
        Dmg::Schema(_) => "schema",
        Dmg::SnapFlip(_) => "snap_flip",
        Dmg::SnapTruncate(_) => "snap_truncate",
        Dmg::SnapAppend(_) => "snap_append",
        Dmg::SnapLen(_) => "snap_len",
        Dmg::Raw(_) => "raw",
    }
}

fn damage_payload(d: &Dmg, payload: &[u8]) -> Vec<u8> {
    let mut p = payload.to_vec();
    let n = p.len();
    match d {
        Dmg::FlipBit(b) => {
            let b = *b as usize % (n * 8);
            p[b / 8] ^= 0x80 >> (b % 8);
        }
        Dmg::Truncate(k) => p.truncate((*k as usize).min(n)),
        Dmg::Extend(x) => p.extend_from_slice(x),
        Dmg::SetWord(Which::Offset, w) => p[96..128].copy_from_slice(&w[..32]),
        Dmg::SetWord(Which::Length, w) => p[128..160].copy_from_slice(&w[..32]),
        Dmg::Splice { from, to, len } => {
            let from = *from as usize % n;
            let to = *to as usize % n;
            let len = (*len as usize).min(n - from).min(n - to);
            let chunk = p[from..from + len].to_vec();
            p[to..to + len].copy_from_slice(&chunk);
        }
        Dmg::Poke { at, bytes } => {
            let at = *at as usize % n;
            let len = bytes.len().min(n - at);
            p[at..at + len].copy_from_slice(&bytes[..len]);
        }
        Dmg::FeedId(f) => p[160..192].copy_from_slice(&f[..32]),
        Dmg::Schema(s) => p[160..162].copy_from_slice(&s.to_be_bytes()),
        _ => {}
    }
    p
}

fn damage_compressed(d: &Dmg, c: &[u8]) -> Vec<u8> {
    let mut c = c.to_vec();
    match d {
        Dmg::SnapFlip(b) => {
            let b = *b as usize % (c.len() * 8);
            c[b / 8] ^= 1 << (b % 8);
        }
        Dmg::SnapTruncate(k) => {
            let k = *k as usize % c.len();
            c.truncate(k);
        }
        Dmg::SnapAppend(x) => c.extend_from_slice(x),
        Dmg::SnapLen(v) => {
            // strip the varint prefix, write a new one
            let mut i = 0;
            while i < c.len() && c[i] & 0x80 != 0 {
                i += 1;
            }
            let rest = c[(i + 1).min(c.len())..].to_vec();
            let mut out = vec![];
            let mut v = *v;
            loop {
                let byte = (v & 0x7f) as u8;
                v >>= 7;
                if v == 0 {
                    out.push(byte);
                    break;
                }
                out.push(byte | 0x80);
            }
            out.extend_from_slice(&rest);
            c = out;
        }
        _ => {}
    }
    c
}

fn guarded<T>(f: impl FnOnce() -> T) -> Result<T, (String, String)> {
    match catch_unwind(AssertUnwindSafe(f)) {
        Ok(v) => Ok(v),
        Err(_) => Err(simcore::panic_loc::take().unwrap_or_default()),
    }
}

fn crate_of(loc: &str) -> &'static str {
    if loc.contains("chainlink-datastreams/") {
        "chainlink-datastreams"
    } else if loc.contains("crates/utils/") {
        "gmsol-utils"
    } else if loc.contains("programs/store/") {
        "store"
    } else if loc.contains("mock-chainlink-verifier") {
        "mock-verifier"
    } else if loc.contains("chainlink-data-streams-report") {
        "third-party:chainlink-data-streams-report"
    } else if loc.contains("/snap-") {
        "third-party:snap"
    } else {
        "other"
    }
}

fn report_panic(obs: &mut Obs, entry: &str, kind: &str, loc: &str, msg: &str) {
    obs.violation(
        "C28",
        "panic",
        format!("entry={entry},crate={}", crate_of(loc)),
        format!("{entry} panicked at {loc}: {msg} (damage {kind})"),
    );
}

fn hex(b: &[u8]) -> String {
    b.iter().map(|x| format!("{x:02x}")).collect()
}

fn low64_len_word(p: &[u8]) -> String {
    if p.len() < 128 {
        return "-".into();
    }
    let off = u64::from_be_bytes(p[120..128].try_into().unwrap()) as usize;
    match off.checked_add(32) {
        Some(e) if e <= p.len() => hex(&p[off..e]),
        _ => "-".into(),
    }
}

/// The slice `(start, end)` of the payload described by the ABI encoding `(bytes32[3], bytes)`, recomputed from the
/// full 256-bit words; `Err(reason)` when the words describe no in-range slice.
pub fn abi_slice(p: &[u8]) -> Result<(usize, usize), &'static str> {
    if p.len() < 128 {
        return Err("payload_shorter_than_head");
    }
    let n = BigUint::from(p.len());
    let off = BigUint::from_bytes_be(&p[96..128]);
    if off < BigUint::from(128u32) {
        return Err("offset_inside_head");
    }
    let len_end = &off + BigUint::from(32u32);
    if len_end > n {
        return Err(if off.bits() > 64 { "offset_high_bits_set" } else { "length_word_out_of_range" });
    }
    let o = off.to_usize().unwrap();
    let len = BigUint::from_bytes_be(&p[o..o + 32]);
    let end = &len_end + &len;
    if end > n {
        return Err(if len.bits() > 64 { "length_high_bits_set" } else { "blob_out_of_range" });
    }
    Ok((o + 32, end.to_usize().unwrap()))
}

/// The slice described when only the low 64 bits of the offset and length words are honoured (used to classify a
/// deviation, never as the reference).
fn abi_slice_low64(p: &[u8]) -> Option<(usize, usize)> {
    if p.len() < 128 {
        return None;
    }
    let off = u64::from_be_bytes(p[120..128].try_into().unwrap()) as u128;
    if off < 128 || off + 32 > p.len() as u128 {
        return None;
    }
    let o = off as usize;
    let len = u64::from_be_bytes(p[o + 24..o + 32].try_into().unwrap()) as u128;
    if off + 32 + len > p.len() as u128 {
        return None;
    }
    Some((o + 32, o + 32 + len as usize))
}

/// Own reader of a report blob: `(bid, price, ask)` as the schema defines them (int192 = low 24 bytes, signed).
struct Parsed {
    bid: BigInt,
    price: BigInt,
    ask: BigInt,
}

fn i192(b: &[u8], word: usize) -> BigInt {
    BigInt::from_signed_bytes_be(&b[word * 32 + 8..word * 32 + 32])
}

fn parse_blob(b: &[u8]) -> Option<Parsed> {
    if b.len() < 32 {
        return None;
    }
    let schema = u16::from_be_bytes([b[0], b[1]]);
    let words = b.len() / 32;
    match schema {
        2 | 7 if words >= 7 => {
            let p = i192(b, 6);
            Some(Parsed { bid: p.clone(), price: p.clone(), ask: p })
        }
        3 if words >= 9 => Some(Parsed { price: i192(b, 6), bid: i192(b, 7), ask: i192(b, 8) }),
        8 if words >= 9 => {
            let p = i192(b, 7);
            Some(Parsed { bid: p.clone(), price: p.clone(), ask: p })
        }
        11 if words >= 14 => Some(Parsed { price: i192(b, 6), bid: i192(b, 8), ask: i192(b, 10) }),
        _ => None,
    }
}

fn describe(r: &gmsol_chainlink_datastreams::Report) -> (u32, bool) {
    (r.observations_timestamp, r.non_negative_price().is_some())
}

struct Conv {
    decimals: u8,
    price: u128,
    min: u128,
    max: u128,
}

/// Decode a blob and convert it; returns whether the conversion succeeded.
fn check_blob(blob: &[u8], kind: &str, obs: &mut Obs) -> bool {
    let res = guarded(|| {
        decode(blob).ok().map(|rep| {
            PriceFeedPrice::from_chainlink_report(&rep).ok().map(|p| {
                let bytes = bytemuck::bytes_of(&p);
                Conv { decimals: bytes[0], price: *p.price(), min: *p.min_price(), max: *p.max_price() }
            })
        })
    });
    let conv = match res {
        Err((loc, msg)) => {
            report_panic(obs, "decode+from_chainlink_report", kind, &loc, &msg);
            return false;
        }
        Ok(None) => {
            obs.checked("no_panic");
            obs.outcome("decoder", kind, "blob_err");
            return false;
        }
        Ok(Some(c)) => c,
    };
    obs.checked("no_panic");
    let parsed = match parse_blob(blob) {
        Some(p) => p,
        None => {
            // the third-party schema decoders accepted something my reader considers too short / unsupported
            obs.probe("decoded_but_reference_reader_declines");
            return conv.is_some();
        }
    };
    let negative = parsed.bid.is_negative() || parsed.price.is_negative() || parsed.ask.is_negative();
    let misordered = parsed.bid > parsed.price || parsed.price > parsed.ask;
    match conv {
        None => {
            obs.outcome("decoder", kind, "conversion_err");
            if !negative && !misordered {
                obs.probe("well_formed_prices_rejected_by_conversion");
            } else {
                obs.probe("malformed_prices_rejected");
            }
            false
        }
        Some(c) => {
            obs.outcome("decoder", kind, "conversion_ok");
            obs.require(
                !negative,
                "C28",
                "negative_rejected",
                || format!("kind={kind}"),
                || format!("accepted bid={} price={} ask={}", parsed.bid, parsed.price, parsed.ask),
            );
            obs.require(
                !misordered,
                "C28",
                "misordered_rejected",
                || format!("kind={kind},neg={negative}"),
                || format!("accepted bid={} price={} ask={}", parsed.bid, parsed.price, parsed.ask),
            );
            obs.require(
                c.min <= c.price && c.price <= c.max,
                "C28",
                "order_preserved",
                || format!("kind={kind}"),
                || format!("min={} price={} max={}", c.min, c.price, c.max),
            );
            if !negative {
                let ok_dec = c.decimals <= 18;
                let k = 18u32.saturating_sub(c.decimals as u32);
                let div = BigInt::from(10u32).pow(k);
                let same = ok_dec
                    && BigInt::from(c.price) == &parsed.price / &div
                    && BigInt::from(c.min) == &parsed.bid / &div
                    && BigInt::from(c.max) == &parsed.ask / &div;
                obs.require(
                    same,
                    "C28",
                    "same_power_of_ten",
                    || format!("kind={kind},k={k}"),
                    || {
                        format!(
                            "decimals={} (k={k}): stored min/price/max = {}/{}/{} but report bid/price/ask = {}/{}/{}",
                            c.decimals, c.min, c.price, c.max, parsed.bid, parsed.price, parsed.ask
                        )
                    },
                );
                if k > 0 {
                    obs.probe("divisor_applied");
                }
            }
            true
        }
    }
}

/// The same bytes through the on-chain instruction, on a fork of the deployed world.
fn onchain(
    w: &mut chainsim::rt::World,
    base: &chainsim::rt::World,
    d: &chainsim::deploy::Dep,
    token: usize,
    compressed: &[u8],
    payload: Option<&[u8]>,
    kind: &str,
    obs: &mut Obs,
) {
    let key = d.tokens[token].price_feed;
    let before = w.data(&key).unwrap().to_vec();
    let out = w.process(chainsim::ex::update_feed_raw_ix(d, token, compressed.to_vec(), false));
    obs.outcome("keeper", "update_feed_damaged", &out.class());
    obs.event(|| format!("{kind} onchain -> {}", out_summary(&out)));
    if let Some((loc, msg)) = &out.panic {
        let c = crate_of(loc);
        if matches!(c, "chainlink-datastreams" | "gmsol-utils" | "store") {
            obs.violation(
                "C28",
                "panic",
                format!("entry=update_price_feed_with_chainlink,crate={c}"),
                format!("the instruction panicked at {loc}: {msg} (damage {kind})"),
            );
            return;
        }
        obs.probe(&format!("onchain_panic_outside_scope:{c}"));
    }
    let after = w.data(&key).unwrap().to_vec();
    if !out.ok {
        obs.require(after == before, "C28", "failed_update_changes_nothing", || kind.to_string(), || "feed changed by a failed update".into());
        return;
    }
    obs.probe("onchain_accepted");
    // every case starts from the same deployed state: restore it after an accepted update
    let after_world = std::mem::replace(w, base.clone());
    let _ = after_world;
    // accepted on chain ⇒ the ABI words describe an in-range slice and the stored price is the faithful conversion
    let Some(p) = payload else { return };
    match abi_slice(p) {
        Err(why) => {
            let low = if abi_slice_low64(p).is_some() { "match" } else { "mismatch" };
            obs.violation(
                "C28",
                "blob_is_abi_slice",
                format!("ref={why},low64_slice={low},kind={kind},path=onchain"),
                format!("update accepted although the 256-bit ABI words describe no in-range slice: {why}"),
            );
        }
        Ok((s, e)) => {
            let fv = feed_view_of(&after).unwrap();
            if let Some(parsed) = parse_blob(&p[s..e]) {
                let k = 18u32.saturating_sub(fv.decimals as u32);
                let div = BigInt::from(10u32).pow(k);
                let good = !parsed.bid.is_negative()
                    && parsed.bid <= parsed.price
                    && parsed.price <= parsed.ask
                    && fv.decimals <= 18
                    && BigInt::from(fv.price) == &parsed.price / &div
                    && BigInt::from(fv.min) == &parsed.bid / &div
                    && BigInt::from(fv.max) == &parsed.ask / &div;
                obs.require(
                    good,
                    "C28",
                    "stored_price_faithful",
                    || format!("kind={kind},k={k}"),
                    || {
                        format!(
                            "feed stores decimals={} min/price/max={}/{}/{} for report bid/price/ask={}/{}/{}",
                            fv.decimals, fv.min, fv.price, fv.max, parsed.bid, parsed.price, parsed.ask
                        )
                    },
                );
            }
        }
    }
}
