//! Scenario crate `scn-oracle` (chain-level simulation on the chainsim runtime): oracle, custom price feeds,
//! Chainlink report decoding, price decimals, price adjustment, market openness (C24–C29).

pub mod accept;
pub mod common;
pub mod decimals;
pub mod decode;
pub mod feed;
pub mod openness;

use simcore::{CheckSpec, Part};

pub const PROPERTIES: &[&str] = &["C25", "C28", "C26", "C24", "C29", "C27"];

pub fn registry(property: &str) -> Option<CheckSpec> {
    match property {
        "C25" => Some(CheckSpec {
            property: "C25",
            level: "exploration",
            parts: vec![Part::new(feed::FeedHistory, 45_000, 700_000)],
            assumptions: vec![
                "reports are unsigned: the mock Chainlink verifier program accepts every well-framed report".into(),
                "report timestamps are u32 (Chainlink schema), so feed timestamps beyond 2106 are unreachable on chain".into(),
            ],
        }),
        "C28" => Some(CheckSpec {
            property: "C28",
            level: "fault_enumeration",
            parts: vec![Part::new(decode::DecodeFaults, 4_000, 80_000)],
            assumptions: vec![
                "the ABI-described slice of `(bytes32[3], bytes)` is payload[offset+32 .. offset+32+length] with the full 256-bit offset and length words, offset >= 128 (dynamic data cannot overlap the four head words)".into(),
                "snappy length prefixes above 2^24 are not injected (a 4 GiB zeroed allocation is the decompressor's, not the decoder's, behaviour)".into(),
                "panics located in the mock verifier program or in third-party crates during the on-chain path are outside the property".into(),
            ],
        }),
        "C26" => Some(CheckSpec {
            property: "C26",
            level: "exploration",
            parts: vec![Part::new(decimals::DecimalSweep, 28_000, 420_000)],
            assumptions: vec![
                "on chain the provider price is an 18-decimals Chainlink report value (< 2^127); other provider decimals (0..40) and the full u128 range are only driven through direct calls of Decimal::try_from_price".into(),
                "the precision step of a token is 10^(20 - token decimals - precision) in unit-price terms (price per base unit scaled by 10^20)".into(),
            ],
        }),
        "C24" => Some(CheckSpec {
            property: "C24",
            level: "exploration",
            parts: vec![Part::new(accept::OracleUse, 9_000, 135_000)],
            assumptions: vec![
                "only custom Chainlink Data Streams feeds are simulated (Pyth / Switchboard accounts are not), so the reference price is always the report's own mid price".into(),
                "the configured deviation is floor(reference unit price x factor / 10^20) rounded up to one precision step of the token; when that floor is 0 the program documents that the check is skipped and no demand is made".into(),
                "'expected feed' means the configured feed id: a feed account of another PRICE_KEEPER carrying the configured feed id is a legitimate source".into(),
                "an executing instruction whose transaction fails is rolled back by the runtime, so 'cleared after use' is demanded after completed and soft-failed executions and 'unchanged' after rolled-back ones".into(),
            ],
        }),
        "C29" => Some(CheckSpec {
            property: "C29",
            level: "exploration",
            parts: vec![Part::new(accept::OracleUse, 8_500, 128_000)],
            assumptions: vec![
                "only the explicit-reference path (the report's own mid price) is reachable with custom feeds; the implicit mid-of-min/max reference of Pyth / Switchboard feeds is not simulated".into(),
                "adjusted prices are observed through set_prices_from_price_feed (the Oracle account keeps them); inside executing instructions they are not observable".into(),
            ],
        }),
        "C27" => Some(CheckSpec {
            property: "C27",
            level: "exploration",
            parts: vec![Part::new(openness::Openness, 30_000, 450_000)],
            assumptions: vec![
                "chain part only: report timestamps are u32 and the cluster clock is non-decreasing, so the 64-bit extremes of is_market_open are covered by the unit-level timeline simulation (unitsim), not here".into(),
                "on chain the close timeout is the token's heartbeat_duration and the last-update difference is stored in whole seconds (ceil)".into(),
                "a report without market status (v2/v3/v7) counts as 'not closed'; a feed that never received a report carries no open flag".into(),
            ],
        }),
        _ => None,
    }
}
