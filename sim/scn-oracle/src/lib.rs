//! Scenario crate `scn-oracle` (chain-level simulation on the chainsim runtime): oracle, custom price feeds,
//! Chainlink report decoding, price decimals, price adjustment, market openness (C24–C29).

pub mod common;
pub mod decode;
pub mod feed;

use simcore::{CheckSpec, Part};

pub const PROPERTIES: &[&str] = &["C25"];

pub fn registry(property: &str) -> Option<CheckSpec> {
    match property {
        "C25" => Some(CheckSpec {
            property: "C25",
            level: "exploration",
            parts: vec![Part::new(feed::FeedHistory, 40_000, 800_000)],
            assumptions: vec![
                "reports are unsigned: the mock Chainlink verifier program accepts every well-framed report".into(),
                "report timestamps are u32 (Chainlink schema), so feed timestamps beyond 2106 are unreachable on chain".into(),
            ],
        }),
        _ => None,
    }
}
