//! Scenario crate `scn-oracle` (chain-level simulation on the chainsim runtime): oracle, custom price feeds,
//! Chainlink report decoding, price decimals, price adjustment, market openness (C24–C29).

pub mod common;
pub mod decimals;
pub mod decode;
pub mod feed;

use simcore::{CheckSpec, Part};

pub const PROPERTIES: &[&str] = &["C25", "C28", "C26"];

pub fn registry(property: &str) -> Option<CheckSpec> {
    match property {
        "C25" => Some(CheckSpec {
            property: "C25",
            level: "exploration",
            parts: vec![Part::new(feed::FeedHistory, 15_000, 300_000)],
            assumptions: vec![
                "reports are unsigned: the mock Chainlink verifier program accepts every well-framed report".into(),
                "report timestamps are u32 (Chainlink schema), so feed timestamps beyond 2106 are unreachable on chain".into(),
            ],
        }),
        "C28" => Some(CheckSpec {
            property: "C28",
            level: "fault_enumeration",
            parts: vec![Part::new(decode::DecodeFaults, 6_000, 120_000)],
            assumptions: vec![
                "the ABI-described slice of `(bytes32[3], bytes)` is payload[offset+32 .. offset+32+length] with the full 256-bit offset and length words, offset >= 128 (dynamic data cannot overlap the four head words)".into(),
                "snappy length prefixes above 2^24 are not injected (a 4 GiB zeroed allocation is the decompressor's, not the decoder's, behaviour)".into(),
                "panics located in the mock verifier program or in third-party crates during the on-chain path are outside the property".into(),
            ],
        }),
        "C26" => Some(CheckSpec {
            property: "C26",
            level: "exploration",
            parts: vec![Part::new(decimals::DecimalSweep, 15_000, 300_000)],
            assumptions: vec![
                "on chain the provider price is an 18-decimals Chainlink report value (< 2^127); other provider decimals (0..40) and the full u128 range are only driven through direct calls of Decimal::try_from_price".into(),
                "the precision step of a token is 10^(20 - token decimals - precision) in unit-price terms (price per base unit scaled by 10^20)".into(),
            ],
        }),
        _ => None,
    }
}
