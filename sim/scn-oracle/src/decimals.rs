//! C26 — price decimal conversion never rounds up and never silently truncates.
//!
//! Tokens with swarm-drawn decimals (0–20, rarely more) and precision (0–20, rarely more) are pushed to the token
//! map; reports with exactly known 18-decimals prices are posted to their custom feeds and consumed with
//! `set_prices_from_price_feed`; the `Decimal` stored in the `Oracle` account is compared with big-integer
//! reference arithmetic. The same triples additionally drive `Decimal::try_from_price` / `to_unit_price` /
//! `with_unit_price` directly (also with provider decimals other than 18).

use chainsim::deploy::{self, Dep, TokenInfo};
use chainsim::report::ReportSpec;
use chainsim::rt::World;
use gmsol_utils::price::Decimal;
use num_bigint::BigUint;
use num_traits::{ToPrimitive, Zero};
use serde::{Deserialize, Serialize};
use simcore::big::pow10;
use simcore::rng::hash_str;
use simcore::{Components, Obs, Rng, Scenario, Tier};

use crate::common::*;

#[derive(Clone, Debug, Serialize, Deserialize)]
pub struct Cfg {
    pub tokens: Vec<Tok>,
}

#[derive(Clone, Debug, Serialize, Deserialize)]
pub enum Step {
    /// Post a report with these exact 18-decimals values, then use the feed once and clear the oracle.
    Quote {
        token: usize,
        #[serde(with = "s128")]
        price: u128,
        #[serde(with = "s128")]
        bid: u128,
        #[serde(with = "s128")]
        ask: u128,
    },
    /// Use several feeds in one `set_prices_from_price_feed`.
    UseMany { tokens: Vec<usize> },
    /// Direct call of `Decimal::try_from_price(price, price_decimals, token decimals, precision)`.
    Direct {
        token: usize,
        #[serde(with = "s128")]
        price: u128,
        price_decimals: u8,
    },
    Clock { dsec: u32 },
}

pub struct DecimalSweep;

/// Add a token (mint or synthetic), its config and its custom feed to a deployed world.
pub fn add_token(w: &mut World, d: &mut Dep, t: &Tok, name: &str) -> Result<usize, String> {
    let i = d.tokens.len();
    let mint = if t.synthetic { w.new_key("synthetic") } else { deploy::create_mint(w, &d.admin, t.decimals, "mint") };
    let feed_id = deploy::feed_id_for(t.schema, i as u8 + 1);
    let price_feed = deploy::price_feed_of(&d.store, &d.keeper, 0, deploy::PROVIDER_CHAINLINK_DS, &mint);
    let info = TokenInfo {
        mint,
        decimals: t.decimals,
        precision: t.precision,
        name: name.to_string(),
        feed_id,
        price_feed,
        synthetic: t.synthetic,
        schema: t.schema,
        heartbeat: t.heartbeat,
    };
    let o = w.process(deploy::push_token_ix(d, &info, name, true, true));
    if !o.ok {
        return Err(format!("push_to_token_map: {}", out_summary(&o)));
    }
    let (ix, pf) = init_feed_ix(d, &d.keeper, 0, deploy::PROVIDER_CHAINLINK_DS, &mint, feed_id);
    assert_eq!(pf, price_feed);
    let o = w.process(ix);
    if !o.ok {
        return Err(format!("initialize_price_feed: {}", out_summary(&o)));
    }
    d.tokens.push(info);
    Ok(i)
}

/// Reference: is `(value, multiplier)` the exact price truncated to the precision step?
/// exact unit price = price · 10^(20 − price_decimals − token_decimals) (rational); step = 10^multiplier.
/// Returns (never_above, error_below_one_step).
fn compare_with_exact(value: u32, multiplier: u8, price: u128, price_decimals: u8, token_decimals: u8) -> (bool, bool) {
    // scale everything by 10^(price_decimals + token_decimals) to stay in integers
    let den = pow10(price_decimals as u32 + token_decimals as u32);
    let num = BigUint::from(price) * pow10(20);
    let unit = BigUint::from(value) * pow10(multiplier as u32);
    let lhs = &unit * &den;
    let never_above = lhs <= num;
    let below_step = never_above && (&num - &lhs) < pow10(multiplier as u32) * &den;
    (never_above, below_step)
}

/// floor(price · 10^(precision − price_decimals)) if the settings are supported and it fits `u32`.
fn expected_value(price: u128, price_decimals: u8, token_decimals: u8, precision: u8) -> Option<u32> {
    if token_decimals > 20 || precision > 20 || price_decimals > 20 || token_decimals as u32 + precision as u32 > 20 {
        return None;
    }
    let v = if precision >= price_decimals {
        BigUint::from(price) * pow10((precision - price_decimals) as u32)
    } else {
        BigUint::from(price) / pow10((price_decimals - precision) as u32)
    };
    v.to_u32()
}

fn draw_price(r: &mut Rng, precision: u8) -> u128 {
    // aim at the stored value v (0 … beyond u32) plus a fractional part, for this precision
    let v: u128 = match r.below(12) {
        0 => 0,
        1 => 1,
        2 => u32::MAX as u128,
        3 => u32::MAX as u128 + 1,
        4 => u32::MAX as u128 - 1,
        5 => r.range128(u32::MAX as u128, u64::MAX as u128),
        _ => r.log_u128(u32::MAX as u128),
    };
    let frac: u128 = match r.below(6) {
        0 => 0,
        1 => 999_999_999_999_999_999,
        2 => 1,
        _ => r.below128(1_000_000_000_000_000_000),
    };
    // x = v.frac with 18 extra digits; price(18 dec) = x / 10^precision
    let x = BigUint::from(v) * pow10(18) + BigUint::from(frac);
    let p = x / pow10(precision.min(38) as u32);
    match r.below(30) {
        0 => r.log_u128(u128::MAX >> 1),
        1 => i128::MAX as u128,
        _ => p.to_u128().unwrap_or(u128::MAX >> 1).min(i128::MAX as u128),
    }
}

impl Scenario for DecimalSweep {
    type Cfg = Cfg;
    type Step = Step;

    fn name(&self) -> &'static str {
        "decimal_sweep"
    }

    fn generate(&self, seed: u64, run: u64, tier: Tier, _focus: &str) -> (Cfg, Vec<Step>) {
        let mut r = Rng::derive(seed, run, "dec.cfg");
        let n = r.usize(1, 4);
        let tokens: Vec<Tok> = (0..n)
            .map(|_| {
                let decimals = match r.below(12) {
                    0 => r.range(21, 30) as u8,
                    1 => 20,
                    2 => 0,
                    _ => r.range(0, 20) as u8,
                };
                let precision = match r.below(12) {
                    0 => r.range(21, 26) as u8,
                    1 => 20u8.saturating_sub(decimals.min(20)), // exactly at the limit
                    2 => 21u8.saturating_sub(decimals.min(20)), // one beyond the limit
                    3 => 0,
                    _ => r.range(0, 20) as u8,
                };
                Tok { decimals, precision, synthetic: r.chance(1, 2), schema: *r.pick(&[2u16, 3, 3, 7, 8, 11, 11]), heartbeat: 120 }
            })
            .collect();
        let mut r = Rng::derive(seed, run, "dec.steps");
        let m = match (tier, r.below(12)) {
            (Tier::Thorough, 0) => r.usize(80, 300),
            (_, 0) => r.usize(60, 150),
            _ => r.usize(5, 50),
        };
        let mut steps = vec![];
        for _ in 0..m {
            let t = r.usize(0, n - 1);
            let prec = tokens[t].precision;
            match r.below(20) {
                0 => steps.push(Step::Clock { dsec: r.range(0, 30) as u32 }),
                1 | 2 => {
                    let k = r.usize(1, n);
                    let mut v: Vec<usize> = (0..n).collect();
                    r.shuffle(&mut v);
                    v.truncate(k);
                    steps.push(Step::UseMany { tokens: v });
                }
                3..=7 => {
                    let pd = match r.below(8) {
                        0 => r.range(21, 40) as u8,
                        1 => 18,
                        _ => r.range(0, 20) as u8,
                    };
                    // a price that lands near the representable range for these provider decimals
                    let p18 = draw_price(&mut r, prec);
                    let p = if pd >= 18 {
                        BigUint::from(p18) * pow10((pd - 18).min(30) as u32)
                    } else {
                        BigUint::from(p18) / pow10((18 - pd) as u32)
                    };
                    let price = if r.chance(1, 20) { r.u128() } else { p.to_u128().unwrap_or(u128::MAX) };
                    steps.push(Step::Direct { token: t, price, price_decimals: pd });
                }
                _ => {
                    let price = draw_price(&mut r, prec);
                    let spread = match r.below(4) {
                        0 => 0,
                        1 => 1,
                        _ => price / r.range(100, 1_000_000) as u128,
                    };
                    steps.push(Step::Quote { token: t, price, bid: price - spread.min(price), ask: price.saturating_add(spread).min(i128::MAX as u128) });
                }
            }
        }
        (Cfg { tokens }, steps)
    }

    fn execute(&self, cfg: &Cfg, steps: &[Step], obs: &mut Obs) {
        let (mut w, mut d) = world_for(&[], &[], 0);
        for (i, t) in cfg.tokens.iter().enumerate() {
            if let Err(e) = add_token(&mut w, &mut d, t, &format!("T{i}")) {
                // rejected at token-config time: nothing can be priced with this token — a legitimate outcome
                obs.event(|| format!("token {i} ({t:?}) rejected at config time: {e}"));
                obs.probe("token_rejected_at_config_time");
                return;
            }
        }
        let nt = d.tokens.len();
        // last successfully posted (bid, ask) per token
        let mut posted: Vec<Option<(u128, u128, u32)>> = vec![None; nt];
        for (i, st) in steps.iter().enumerate() {
            obs.set_step(i);
            match st {
                Step::Clock { dsec } => {
                    w.advance(*dsec as u64 * 2, *dsec as i64);
                    obs.sim_seconds += *dsec as u64;
                }
                Step::Quote { token, price, bid, ask } => {
                    let t = token % nt;
                    let now = w.clock.unix_timestamp;
                    let tk = &d.tokens[t];
                    let spec = ReportSpec {
                        schema: tk.schema,
                        feed_id: tk.feed_id,
                        valid_from: now as u32,
                        observations_ts: now as u32,
                        expires_at: (now + 3600) as u32,
                        price: *price as i128,
                        bid: *bid as i128,
                        ask: *ask as i128,
                        market_status: 2,
                        last_update_ns: now as u64 * 1_000_000_000,
                    };
                    let (eb, _, ea) = spec.effective_prices();
                    let o = w.process(chainsim::ex::update_feed_ix(&d, t, &spec, false));
                    obs.outcome("keeper", "update_feed", &o.class());
                    if o.ok {
                        posted[t] = Some((eb as u128, ea as u128, now as u32));
                    }
                    obs.event(|| format!("quote token={t} d={} prec={} bid={eb} ask={ea} -> post {}", tk.decimals, tk.precision, o.class()));
                    if o.ok {
                        use_tokens(&mut w, &d, &[t], &posted, obs);
                    }
                    // the same triple directly
                    direct(*bid, 18, tk.decimals, tk.precision, obs);
                    direct(*ask, 18, tk.decimals, tk.precision, obs);
                }
                Step::UseMany { tokens } => {
                    let mut ts: Vec<usize> = vec![];
                    for t in tokens {
                        let t = t % nt;
                        if !ts.contains(&t) {
                            ts.push(t);
                        }
                    }
                    use_tokens(&mut w, &d, &ts, &posted, obs);
                }
                Step::Direct { token, price, price_decimals } => {
                    let tk = &d.tokens[token % nt];
                    direct(*price, *price_decimals, tk.decimals, tk.precision, obs);
                }
            }
            if obs.should_stop() {
                return;
            }
        }
    }

    fn simplify_step(&self, step: &Step) -> Vec<Step> {
        match step {
            Step::Quote { token, price, bid, ask } if bid != price || ask != price => {
                vec![Step::Quote { token: *token, price: *price, bid: *price, ask: *price }]
            }
            Step::UseMany { tokens } if tokens.len() > 1 => vec![Step::UseMany { tokens: tokens[..1].to_vec() }],
            _ => vec![],
        }
    }

    fn simplify_cfg(&self, cfg: &Cfg) -> Vec<Cfg> {
        let mut v = vec![];
        if cfg.tokens.len() > 1 {
            let mut c = cfg.clone();
            c.tokens.pop();
            v.push(c);
        }
        v
    }

    fn components(&self) -> Components {
        Components {
            real: vec![
                "gmsol_store entrypoint: push_to_token_map(_synthetic), initialize_price_feed, update_price_feed_with_chainlink, set_prices_from_price_feed, clear_all_prices".into(),
                "PriceFeedPrice::try_to_price -> Decimal::try_from_price (inside the store), SmallPrices::from_price".into(),
                "gmsol_utils::price::Decimal::{try_from_price, to_unit_price, with_unit_price} called directly".into(),
                "gmsol_mock_chainlink_verifier, spl-token (mints)".into(),
            ],
            stub: vec!["chainsim runtime (accounts db, loader, CPI, sysvars, system program)".into(), "report provider (own ABI encoder)".into()],
        }
    }

    fn rule(&self) -> String {
        "one case = one (price, provider decimals, token decimals, precision) conversion, either observed on chain (report with an \
         exactly known 18-decimals bid/ask posted to a custom feed, consumed by set_prices_from_price_feed, Decimal read back from \
         the Oracle account) or by calling Decimal::try_from_price / to_unit_price / with_unit_price directly with the triples the \
         simulation produced and with provider decimals 0..40; distinct = (token decimals, precision, provider decimals, path, \
         magnitude class of the stored value, outcome). Reference in big integers: exact unit price = p*10^(20-pd-d); stored \
         value*10^m must be <= exact and exact - stored < 10^m with m = 20-d-precision; unsupported settings or values beyond u32 \
         must not be accepted"
            .into()
    }
}

fn use_tokens(w: &mut World, d: &Dep, ts: &[usize], posted: &[Option<(u128, u128, u32)>], obs: &mut Obs) {
    let mints: Vec<_> = ts.iter().map(|t| d.tokens[*t].mint).collect();
    let feeds: Vec<_> = ts.iter().map(|t| d.tokens[*t].price_feed).collect();
    let o = w.process(set_prices_ix(d, &mints, &feeds));
    obs.outcome("keeper", "set_prices", &o.class());
    obs.event(|| format!("set_prices {ts:?} -> {}", out_summary(&o)));
    if !o.ok {
        // one direction only: a rejected price is never an alarm. Reach accounting:
        let all_repr = ts.iter().all(|t| {
            let tk = &d.tokens[*t];
            match posted[*t] {
                Some((b, a, _)) => matches!(expected_value(b, 18, tk.decimals, tk.precision), Some(v) if v > 0) && expected_value(a, 18, tk.decimals, tk.precision).is_some(),
                None => false,
            }
        });
        if all_repr {
            obs.probe(&format!("representable_but_rejected:{}", o.class()));
        } else {
            obs.probe("unrepresentable_rejected");
        }
        return;
    }
    let view = read_oracle(w, d);
    for t in ts {
        let tk = &d.tokens[*t];
        let Some((bid, ask, _)) = posted[*t] else {
            obs.violation("C26", "accepted_without_report", format!("d={},prec={}", tk.decimals, tk.precision), "a price was accepted for a feed that never received a report".into());
            return;
        };
        let Some(sp) = view.price(&tk.mint) else {
            obs.violation("C26", "price_missing", "ok".into(), format!("token {t} has no stored price after a successful set_prices"));
            return;
        };
        let supported = tk.decimals <= 20 && tk.precision <= 20 && tk.decimals as u32 + tk.precision as u32 <= 20;
        if !obs.require(
            supported,
            "C26",
            "unsupported_settings_accepted",
            || format!("d={},prec={}", tk.decimals, tk.precision),
            || format!("price accepted with token decimals {} and precision {}", tk.decimals, tk.precision),
        ) {
            return;
        }
        let m = 20 - tk.decimals - tk.precision;
        for (side, stored, mult, exact) in [("min", sp.min, sp.min_multiplier, bid), ("max", sp.max, sp.max_multiplier, ask)] {
            let (never_above, below_step) = compare_with_exact(stored, mult, exact, 18, tk.decimals);
            let fits = expected_value(exact, 18, tk.decimals, tk.precision);
            obs.require(
                mult == m && never_above && below_step && fits == Some(stored),
                "C26",
                "stored_is_exact_truncated",
                || format!("side={side},above={},lt_step={},mult_ok={},fits={}", !never_above, below_step, mult == m, fits.is_some()),
                || {
                    format!(
                        "token d={} prec={}: report {side} price {exact} (18 dec) stored as value={stored} multiplier={mult}; expected value {:?} multiplier {m}",
                        tk.decimals, tk.precision, fits
                    )
                },
            );
            obs.fingerprint(&[0xC26, 1, tk.decimals as u64, tk.precision as u64, 18, (32 - stored.leading_zeros()) as u64]);
        }
        obs.probe("onchain_price_checked");
    }
    let o = w.process(clear_prices_ix(d));
    assert!(o.ok, "clear_all_prices: {}", out_summary(&o));
}

/// Direct calls (same oracle).
fn direct(price: u128, pd: u8, d: u8, prec: u8, obs: &mut Obs) {
    let res = std::panic::catch_unwind(|| Decimal::try_from_price(price, pd, d, prec));
    let res = match res {
        Ok(r) => r,
        Err(_) => {
            let (loc, msg) = simcore::panic_loc::take().unwrap_or_default();
            obs.violation("C26", "panic", format!("pd={pd},d={d},prec={prec}"), format!("try_from_price({price},{pd},{d},{prec}) panicked at {loc}: {msg}"));
            return;
        }
    };
    let fits = expected_value(price, pd, d, prec);
    let supported = pd <= 20 && d <= 20 && prec <= 20 && d as u32 + prec as u32 <= 20;
    obs.outcome("direct", "try_from_price", if res.is_ok() { "ok" } else { "err" });
    match res {
        Err(_) => {
            if fits.is_some() {
                obs.probe("direct_representable_but_rejected");
            }
        }
        Ok(dec) => {
            if !obs.require(
                supported,
                "C26",
                "unsupported_settings_accepted",
                || format!("pd={pd},d={d},prec={prec},path=direct"),
                || format!("try_from_price({price},{pd},{d},{prec}) = {dec:?}"),
            ) {
                return;
            }
            let m = 20 - d - prec;
            let (never_above, below_step) = compare_with_exact(dec.value, dec.decimal_multiplier, price, pd, d);
            obs.require(
                dec.decimal_multiplier == m && never_above && below_step && fits == Some(dec.value),
                "C26",
                "stored_is_exact_truncated",
                || format!("side=direct,above={},lt_step={},mult_ok={},fits={}", !never_above, below_step, dec.decimal_multiplier == m, fits.is_some()),
                || format!("try_from_price({price},{pd},{d},{prec}) = {dec:?}; expected value {fits:?} multiplier {m}"),
            );
            // to_unit_price / with_unit_price on the produced decimal
            let unit = BigUint::from(dec.value) * pow10(dec.decimal_multiplier as u32);
            let got = dec.to_unit_price();
            obs.require(
                BigUint::from(got) == unit,
                "C26",
                "to_unit_price",
                || format!("m={}", dec.decimal_multiplier),
                || format!("{dec:?}.to_unit_price() = {got}, expected {unit}"),
            );
            // re-quantise the exact unit price (when it is an integer that fits u128) both ways
            let e = 20i32 - pd as i32 - d as i32;
            let exact_unit: Option<BigUint> = if e >= 0 {
                Some(BigUint::from(price) * pow10(e as u32))
            } else {
                let den = pow10((-e) as u32);
                let p = BigUint::from(price);
                if (&p % &den).is_zero() {
                    Some(p / den)
                } else {
                    None
                }
            };
            if let Some(u) = exact_unit.and_then(|u| u.to_u128()) {
                let step = pow10(dec.decimal_multiplier as u32);
                let down = BigUint::from(u) / &step;
                let up = (BigUint::from(u) + &step - BigUint::from(1u32)) / &step;
                for (round_up, want) in [(false, down), (true, up)] {
                    let got = dec.with_unit_price(u, round_up);
                    let want32 = want.to_u32();
                    obs.require(
                        got.map(|g| (g.value, g.decimal_multiplier)) == want32.map(|v| (v, dec.decimal_multiplier)),
                        "C26",
                        "with_unit_price",
                        || format!("round_up={round_up},fits={}", want32.is_some()),
                        || format!("{dec:?}.with_unit_price({u},{round_up}) = {got:?}, expected value {want32:?}"),
                    );
                }
            }
            obs.fingerprint(&[0xC26, 2, d as u64, prec as u64, pd as u64, (32 - dec.value.leading_zeros()) as u64, hash_str("direct")]);
        }
    }
}
