//! C24 / C29 — only fresh, well-formed, in-band oracle prices are used; the oracle is cleared after use; an adjusted
//! price stays inside the allowed band.
//!
//! One market (index possibly synthetic), custom Chainlink feeds, look-alike feeds of a second price keeper, keeper
//! configuration changes (store amounts, per-feed timestamp adjustment and deviation factor, adjustment toggle,
//! expected provider, token toggle), clocks that stall / jump (never backwards), and the consumers of the oracle:
//! `set_prices_from_price_feed` (prices stay observable in the `Oracle` account) and the executing instructions
//! (deposit, market-increase order, fee and ADL state updates).

use chainsim::deploy::{read_pod, Dep};
use chainsim::ex::{self, DepositArgs, OrderArgs};
use chainsim::rt::{TxOpts, World};
use gmsol_utils::order::OrderKind;
use num_bigint::BigInt;
use num_traits::{Signed, ToPrimitive, Zero};
use serde::{Deserialize, Serialize};
use simcore::{Components, Obs, Rng, Scenario, Tier};
use solana_program::pubkey::Pubkey;

use crate::common::*;
use crate::feed::ClockMode;

#[derive(Clone, Debug, Serialize, Deserialize)]
pub struct Cfg {
    pub tokens: Vec<Tok>,
    /// (index, long, short)
    pub market: (usize, usize, usize),
    /// Per-token initial feed configuration.
    pub adj: Vec<u32>,
    #[serde(with = "s128::vec")]
    pub factor: Vec<u128>,
    pub adjust: Vec<bool>,
    pub max_age: u64,
    pub max_range: u64,
    pub max_excess: u64,
    pub faults: bool,
    pub clock: ClockMode,
}

#[derive(Clone, Copy, Debug, Serialize, Deserialize, PartialEq, Eq)]
pub enum FeedSel {
    Own,
    /// The feed account of another token of the run.
    OtherToken(usize),
    /// Feed account of the second price keeper for this token with the configured feed id.
    TwinSameId,
    /// Feed account of the second price keeper for this token with a different feed id.
    TwinOtherId,
    /// Not a price feed at all (0: oracle account, 1: token map, 2: store, 3: a system account).
    NotAFeed(u8),
}

#[derive(Clone, Copy, Debug, Serialize, Deserialize, PartialEq, Eq)]
pub enum ExecKind {
    Deposit,
    Increase,
    UpdateFees,
    UpdateAdl,
}

#[derive(Clone, Debug, Serialize, Deserialize)]
pub enum Step {
    Post { token: usize, rep: RelReport, idem: bool, to: FeedSel },
    /// Post a report whose bid/ask sit exactly k precision steps from the reference, where k is derived at execution
    /// time from the configured deviation (boundary of the band): `dk` is added to the boundary step count.
    PostBand {
        token: usize,
        #[serde(with = "s128")]
        mid: i128,
        dk_bid: i32,
        dk_ask: i32,
        frac: u64,
    },
    Clock { dslot: i64, dsec: i64 },
    SetAmount { which: u8, value: u64 },
    SetFeedCfg {
        token: usize,
        adj: Option<u32>,
        #[serde(with = "s128::opt")]
        factor: Option<u128>,
    },
    ToggleAdjust { token: usize, enable: bool },
    ToggleToken { token: usize, enable: bool },
    SetProvider { token: usize, provider: u8 },
    Use { tokens: Vec<usize>, feeds: Vec<FeedSel>, leave_set: bool },
    /// The user creates an action (deposit / market-increase order); it stays pending until a `Run` executes it.
    Create { kind: ExecKind, soft_fail: bool },
    /// The keeper executes pending action #idx (modulo the number of pending ones) — or, for `UpdateFees` /
    /// `UpdateAdl`, the market housekeeping instruction. `refresh`: mid prices (one per token) the keeper posts for the
    /// tokens of the action right before executing.
    Run {
        kind: ExecKind,
        idx: usize,
        throw: bool,
        sub: Option<(usize, FeedSel)>,
        #[serde(with = "s128::optvec")]
        refresh: Option<Vec<i128>>,
    },
    Clear,
}

pub struct OracleUse;

#[derive(Clone, Debug)]
struct TokModel {
    enabled: bool,
    provider: u8,
    adj: u32,
    /// max deviation ratio (factor / 10^12), 0 = none
    ratio: u32,
    adjust: bool,
}

struct Model {
    toks: Vec<TokModel>,
    max_age: u64,
    max_range: u64,
    max_excess: u64,
}

const AMOUNT_KEYS: [&str; 3] = ["oracle_max_age", "oracle_max_timestamp_range", "oracle_max_future_timestamp_excess"];

/// Base price (18 decimals) that fits the token's precision comfortably.
fn base_price(t: &Tok, r: &mut Rng) -> i128 {
    // stored value = price · 10^precision must stay below 2^32: aim at 10^3 … 10^8 stored units
    let v = r.range(2_000, 400_000_000) as i128;
    v * 10i128.pow(18 - t.precision as u32)
}

fn gen_rep(r: &mut Rng, t: &Tok, faults: bool, ages: &[i64], excess: u64) -> RelReport {
    let mid = base_price(t, r);
    let spread = match r.below(5) {
        0 => 0,
        1 => mid / 1_000_000,
        2 => mid / 10_000,
        3 => mid / 500,
        _ => mid / r.range(20, 100_000) as i128,
    };
    let mut rep = RelReport {
        obs_off: -(r.range(0, 3) as i64),
        exp_off: 3600,
        price: mid,
        bid: mid - spread,
        ask: mid + spread,
        status: 2,
        lu_back_ns: r.range(0, 2_000_000_000) as i128,
    };
    // ages around the interesting thresholds of this run
    if r.chance(1, 3) {
        rep.obs_off = -*r.pick(ages) + r.range_i64(-2, 2);
    }
    if faults {
        match r.below(14) {
            0 => rep.obs_off = r.range(0, excess.min(100_000)) as i64,
            1 => rep.obs_off = excess.min(1 << 40) as i64 + r.range(1, 50) as i64,
            2 => {
                // one-sided / wide spreads
                rep.ask = mid + mid / r.range(2, 50) as i128;
            }
            3 => {
                rep.bid = mid - mid / r.range(2, 50) as i128;
            }
            4 => {
                rep.bid = 0;
            }
            5 => std::mem::swap(&mut rep.bid, &mut rep.ask),
            6 => rep.price = -rep.price,
            7 => {
                rep.ask = mid * 3;
                rep.bid = mid / 3;
            }
            8 => {
                // below one precision step: stored value 0
                rep.price = 10i128.pow(17 - t.precision.min(17) as u32);
                rep.bid = rep.price;
                rep.ask = rep.price;
            }
            _ => {}
        }
    }
    rep
}

impl Scenario for OracleUse {
    type Cfg = Cfg;
    type Step = Step;

    fn name(&self) -> &'static str {
        "oracle_use"
    }

    fn generate(&self, seed: u64, run: u64, tier: Tier, focus: &str) -> (Cfg, Vec<Step>) {
        let mut r = Rng::derive(seed, run, "use.cfg");
        let faults = !r.chance(1, 5);
        let c29 = focus == "C29";
        let synthetic_index = r.chance(1, 2);
        let hb = *r.pick(&[60u32, 120, 120, 600, 3600]);
        let pick_schema = |r: &mut Rng| *r.pick(&[3u16, 3, 3, 2, 7, 8, 11, 11]);
        let mut tokens = vec![
            Tok { decimals: *r.pick(&[9u8, 8, 6]), precision: *r.pick(&[2u8, 3, 4]), synthetic: false, schema: pick_schema(&mut r), heartbeat: hb },
            Tok { decimals: 6, precision: *r.pick(&[4u8, 6]), synthetic: false, schema: pick_schema(&mut r), heartbeat: hb },
        ];
        if synthetic_index {
            tokens.push(Tok { decimals: *r.pick(&[8u8, 10, 18, 0]), precision: *r.pick(&[1u8, 2]), synthetic: true, schema: pick_schema(&mut r), heartbeat: hb });
        }
        let market = if synthetic_index { (2, 0, 1) } else { (0, 0, 1) };
        let n = tokens.len();
        let max_age = *r.pick(&[10u64, 30, 60, 100, 3600, 3600]);
        let max_excess = if faults { *r.pick(&[0u64, 0, 5, 60, 3600]) } else { 0 };
        let same_adj = r.chance(1, 3);
        let a0 = *r.pick(&[0u32, 0, 1, 2, 5, 10, 20, 50]);
        let adj: Vec<u32> = (0..n)
            .map(|_| {
                let a = if same_adj { a0 } else { *r.pick(&[0u32, 0, 1, 2, 5, 10, 20, 50]) };
                // mostly leave room below the age limit
                if a as u64 * 2 > max_age && r.chance(3, 4) {
                    (max_age / 4) as u32
                } else {
                    a
                }
            })
            .collect();
        let spread = (*adj.iter().max().unwrap() - *adj.iter().min().unwrap()) as u64;
        let mut max_range = *r.pick(&[0u64, 2, 10, 60, 300, 300]);
        if max_range < spread && r.chance(2, 3) {
            // mostly the range admits simultaneously observed prices (sometimes exactly)
            max_range = spread + *r.pick(&[0u64, 0, 1, 5]);
        }
        let factor_choices: [u128; 9] = [
            0,
            0,
            1_000_000_000_000,             // the smallest configurable: 10^-8
            50_000_000_000_000,            // 5·10^-7
            10_000_000_000_000_000,        // 0.01 %
            1_000_000_000_000_000_000,     // 1 %
            5_000_000_000_000_000_000,     // 5 %
            100_000_000_000_000_000_000,   // 100 %
            250_000_000_000_000_000_000,   // 250 %
        ];
        let factor: Vec<u128> = (0..n)
            .map(|_| if c29 || r.chance(2, 3) { *r.pick(&factor_choices[if c29 { 2 } else { 0 }..]) } else { 0 })
            .collect();
        let adjust: Vec<bool> = (0..n).map(|_| if c29 { r.chance(4, 5) } else { r.chance(1, 3) }).collect();
        let clock = if !faults {
            ClockMode::Normal
        } else {
            *r.pick(&[ClockMode::Normal, ClockMode::Normal, ClockMode::Stall, ClockMode::Jumpy, ClockMode::Coarse])
        };
        let cfg = Cfg { tokens: tokens.clone(), market, adj: adj.clone(), factor: factor.clone(), adjust, max_age, max_range, max_excess, faults, clock };

        let mut r = Rng::derive(seed, run, "use.steps");
        let m = match (tier, r.below(16)) {
            (Tier::Thorough, 0) => r.usize(120, 300),
            (_, 0) => r.usize(60, 150),
            _ => r.usize(6, 50),
        };
        let mut steps = vec![];
        // warm-up: every feed receives a well-formed fresh report
        for t in 0..n {
            if !faults || r.chance(9, 10) {
                let mid = base_price(&tokens[t], &mut r);
                let spread = mid / r.range(2_000, 1_000_000) as i128;
                steps.push(Step::Post {
                    token: t,
                    rep: RelReport { obs_off: 0, exp_off: 3600, price: mid, bid: mid - spread, ask: mid + spread, status: 2, lu_back_ns: 0 },
                    idem: false,
                    to: FeedSel::Own,
                });
            }
        }
        // generation-time view of the configuration (to aim at the thresholds)
        let mut g_age = max_age;
        let mut g_excess = max_excess;
        let mut g_adj = adj.clone();
        let market_tokens: Vec<usize> = {
            let mut v = vec![market.0, market.1, market.2];
            v.sort();
            v.dedup();
            v
        };
        for _ in 0..m {
            let t = r.usize(0, n - 1);
            let ages: Vec<i64> = vec![
                0,
                1,
                g_age as i64 - g_adj[t] as i64,
                g_age as i64,
                g_age as i64 + g_adj[t] as i64,
                hb as i64,
                (g_age as i64 - g_adj[t] as i64).min(hb as i64),
            ]
            .into_iter()
            .map(|a| a.clamp(0, 100_000))
            .collect();
            let k = r.below(100);
            if k < 34 {
                let rep = gen_rep(&mut r, &tokens[t], faults, &ages, g_excess);
                let to = if faults {
                    match r.below(14) {
                        0 => FeedSel::TwinSameId,
                        1 => FeedSel::TwinOtherId,
                        _ => FeedSel::Own,
                    }
                } else {
                    FeedSel::Own
                };
                steps.push(Step::Post { token: t, rep, idem: r.chance(1, 3), to });
            } else if k < 40 || (c29 && k < 52) {
                let mid = base_price(&tokens[t], &mut r);
                steps.push(Step::PostBand { token: t, mid, dk_bid: r.range_i64(-2, 2) as i32, dk_ask: r.range_i64(-2, 2) as i32, frac: r.below(1_000_000) });
            } else if k < 42 && g_excess > 0 {
                // a report dated inside the allowed future excess, then the keeper lowers the excess
                let mut rep = gen_rep(&mut r, &tokens[t], false, &ages, g_excess);
                rep.obs_off = r.range(1, g_excess.min(600)) as i64;
                steps.push(Step::Post { token: t, rep, idem: false, to: FeedSel::Own });
                if r.chance(1, 2) {
                    g_excess = *r.pick(&[0u64, 0, 1]);
                    steps.push(Step::SetAmount { which: 2, value: g_excess });
                    steps.push(Step::Use { tokens: vec![t], feeds: vec![FeedSel::Own], leave_set: false });
                }
            } else if k < 58 {
                let (dslot, dsec) = match clock {
                    ClockMode::Normal => {
                        let s = if r.chance(1, 4) { *r.pick(&ages) + r.range_i64(-1, 1) } else { r.range(1, 10) as i64 }.max(0);
                        (s * 2, s)
                    }
                    ClockMode::Stall => {
                        if r.chance(1, 3) {
                            (1, 1)
                        } else {
                            (0, 0)
                        }
                    }
                    ClockMode::Jumpy => match r.below(30) {
                        0..=3 => (r.range(1, 100_000) as i64, r.range(600, 86_400 * 400) as i64),
                        4 => (1, i64::MAX / 2),
                        _ => {
                            let s = r.range(1, 40) as i64;
                            (s * 2, s)
                        }
                    },
                    ClockMode::Coarse => match r.below(4) {
                        0 => (r.range(5, 40) as i64, r.range(5, 20) as i64),
                        _ => (r.range(1, 3) as i64, 0),
                    },
                };
                steps.push(Step::Clock { dslot, dsec });
            } else if k < 63 {
                let which = r.below(3) as u8;
                let value = match which {
                    0 => *r.pick(&[0u64, 5, 10, 30, 60, 100, 3600, u64::MAX]),
                    1 => *r.pick(&[0u64, 1, 2, 10, 60, 300, u64::MAX]),
                    _ => *r.pick(&[0u64, 0, 1, 5, 60, 3600, u64::MAX]),
                };
                if which == 0 {
                    g_age = value.min(1 << 40);
                }
                if which == 2 {
                    g_excess = value;
                }
                steps.push(Step::SetAmount { which, value });
            } else if k < 69 {
                let adj = r.chance(1, 2).then(|| *r.pick(&[0u32, 1, 3, 10, 30, 100, 1000, u32::MAX]));
                let factor = r.chance(1, 2).then(|| if r.chance(1, 10) { r.u128() >> r.range(0, 100) } else { *r.pick(&factor_choices) });
                if let Some(a) = adj {
                    g_adj[t] = a.min(1 << 20);
                }
                steps.push(Step::SetFeedCfg { token: t, adj, factor });
            } else if k < 72 {
                steps.push(Step::ToggleAdjust { token: t, enable: r.chance(2, 3) });
            } else if k < 74 && faults {
                steps.push(Step::ToggleToken { token: t, enable: r.chance(3, 4) });
            } else if k < 75 && faults {
                steps.push(Step::SetProvider { token: t, provider: *r.pick(&[0u8, 0, 0, 0, 1, 3, 2]) });
            } else if k < 90 {
                let kk = r.usize(1, n);
                let mut ts: Vec<usize> = (0..n).collect();
                r.shuffle(&mut ts);
                ts.truncate(kk);
                let feeds = ts
                    .iter()
                    .map(|_| {
                        if faults && r.chance(1, 6) {
                            match r.below(5) {
                                0 => FeedSel::OtherToken(r.usize(0, n - 1)),
                                1 | 2 => FeedSel::TwinSameId,
                                3 => FeedSel::TwinOtherId,
                                _ => FeedSel::NotAFeed(r.below(4) as u8),
                            }
                        } else {
                            FeedSel::Own
                        }
                    })
                    .collect();
                steps.push(Step::Use { tokens: ts, feeds, leave_set: faults && r.chance(1, 25) });
            } else if k < 93 {
                steps.push(Step::Create { kind: *r.pick(&[ExecKind::Deposit, ExecKind::Deposit, ExecKind::Increase]), soft_fail: r.chance(1, 4) });
                if !faults || r.chance(1, 2) {
                    // time passes between the request and its execution (at least the timestamp adjustments)
                    let s = g_adj.iter().copied().max().unwrap_or(0).min(200) as i64 + r.range(1, 5) as i64;
                    steps.push(Step::Clock { dslot: s * 2, dsec: s });
                }
            } else if k < 99 {
                let kind = *r.pick(&[ExecKind::Deposit, ExecKind::Deposit, ExecKind::Deposit, ExecKind::UpdateFees, ExecKind::UpdateAdl]);
                let sub = (faults && r.chance(1, 8)).then(|| {
                    (
                        *r.pick(&market_tokens),
                        match r.below(4) {
                            0 => FeedSel::OtherToken(r.usize(0, n - 1)),
                            1 => FeedSel::TwinSameId,
                            2 => FeedSel::TwinOtherId,
                            _ => FeedSel::NotAFeed(r.below(4) as u8),
                        },
                    )
                });
                // the keeper normally refreshes the prices it needs right before executing
                let refresh = r.chance(3, 4).then(|| (0..n).map(|t| base_price(&tokens[t], &mut r)).collect::<Vec<i128>>());
                steps.push(Step::Run { kind, idx: r.usize(0, 3), throw: r.chance(1, 2), sub, refresh });
            } else {
                steps.push(Step::Clear);
            }
        }
        (cfg, steps)
    }

    fn execute(&self, cfg: &Cfg, steps: &[Step], obs: &mut Obs) {
        let (mut w, d) = world_for(&cfg.tokens, &[cfg.market], 1);
        let nt = d.tokens.len();
        let user = d.users[0];
        // second price keeper with look-alike feeds
        let other = w.new_key("other_keeper");
        w.fund(&other, 1_000_000_000_000);
        must(&mut w, grant_role_ix(&d, &other, "PRICE_KEEPER"), "grant");
        let mut twin_same = vec![];
        let mut twin_other = vec![];
        let mut other_ids = vec![];
        for (i, t) in d.tokens.iter().enumerate() {
            let (ix, k) = init_feed_ix(&d, &other, 0, 0, &t.mint, t.feed_id);
            must(&mut w, ix, "twin feed");
            twin_same.push(k);
            let oid = chainsim::deploy::feed_id_for(t.schema, 100 + i as u8);
            let (ix, k) = init_feed_ix(&d, &other, 1, 0, &t.mint, oid);
            must(&mut w, ix, "twin feed (other id)");
            twin_other.push(k);
            other_ids.push(oid);
        }
        let stray = w.new_key("stray");
        w.fund(&stray, 1_000_000);
        // initial configuration
        let mut model = Model {
            toks: (0..nt).map(|_| TokModel { enabled: true, provider: 0, adj: 0, ratio: 0, adjust: false }).collect(),
            max_age: 3600,
            max_range: 300,
            max_excess: 0,
        };
        for (which, value) in [(0u8, cfg.max_age), (1, cfg.max_range), (2, cfg.max_excess)] {
            apply_amount(&mut w, &d, &mut model, which, value, obs);
        }
        for t in 0..nt {
            apply_feed_cfg(&mut w, &d, &mut model, t, Some(cfg.adj[t % cfg.adj.len()]), Some(cfg.factor[t % cfg.factor.len()]), obs);
            if cfg.adjust[t % cfg.adjust.len()] {
                let o = w.process(toggle_adjustment_ix(&d, &d.tokens[t].mint, true));
                if o.ok {
                    model.toks[t].adjust = true;
                }
            }
        }
        let env = Env { twin_same, twin_other, other_ids, other, stray };
        let mut nonce: u64 = 0;
        let mut pending: Vec<PendingAction> = vec![];

        for (i, st) in steps.iter().enumerate() {
            obs.set_step(i);
            match st {
                Step::Clock { dslot, dsec } => {
                    let (dsec, dslot) = (&(*dsec).max(0), &(*dslot).max(0));
                    if *dsec == 0 {
                        obs.fault("clock_stall");
                    } else if *dsec > 3_600 {
                        obs.fault("clock_jump");
                    }
                    let before = w.clock.unix_timestamp;
                    w.clock.unix_timestamp = w.clock.unix_timestamp.saturating_add(*dsec).max(0);
                    w.clock.slot = (w.clock.slot as i128 + *dslot as i128).clamp(0, u64::MAX as i128) as u64;
                    if *dsec > 0 {
                        obs.sim_seconds += (w.clock.unix_timestamp - before).min(86_400 * 365) as u64;
                    }
                    obs.event(|| format!("clock -> ts={} slot={}", w.clock.unix_timestamp, w.clock.slot));
                }
                Step::Post { token, rep, idem, to } => {
                    let t = token % nt;
                    post(&mut w, &d, &env, t, rep, *idem, *to, obs);
                }
                Step::PostBand { token, mid, dk_bid, dk_ask, frac } => {
                    let t = token % nt;
                    let tk = &d.tokens[t];
                    // reference value in stored units and the number of steps the deviation allows
                    let unit = 10i128.pow(18 - tk.precision as u32);
                    let refv = mid / unit;
                    let mult = 20 - tk.decimals as u32 - tk.precision as u32;
                    let factor = model.toks[t].ratio as u128 * 1_000_000_000_000;
                    let dev = BigInt::from(refv) * BigInt::from(10u32).pow(mult) * BigInt::from(factor) / BigInt::from(10u32).pow(20);
                    let step = BigInt::from(10u32).pow(mult);
                    let k_big: BigInt = (&dev + &step - 1) / &step;
                    let k_up = k_big.to_i128().unwrap_or(i128::MAX / 4).min(1 << 40);
                    let f = (*frac as i128 * unit / 1_000_000).min(unit - 1);
                    let bid_value = (refv - k_up - *dk_bid as i128).clamp(0, refv);
                    let ask_value = (refv + k_up + *dk_ask as i128).max(refv);
                    let rep = RelReport {
                        obs_off: 0,
                        exp_off: 3600,
                        price: refv * unit + f,
                        bid: bid_value * unit,
                        ask: ask_value.saturating_mul(unit).saturating_add(f),
                        status: 2,
                        lu_back_ns: 0,
                    };
                    obs.probe("band_boundary_report");
                    post(&mut w, &d, &env, t, &rep, false, FeedSel::Own, obs);
                }
                Step::SetAmount { which, value } => apply_amount(&mut w, &d, &mut model, *which % 3, *value, obs),
                Step::SetFeedCfg { token, adj, factor } => apply_feed_cfg(&mut w, &d, &mut model, token % nt, *adj, *factor, obs),
                Step::ToggleAdjust { token, enable } => {
                    let t = token % nt;
                    let o = w.process(toggle_adjustment_ix(&d, &d.tokens[t].mint, *enable));
                    obs.outcome("keeper", "toggle_adjustment", &o.class());
                    if o.ok {
                        model.toks[t].adjust = *enable;
                    }
                    obs.event(|| format!("toggle_adjustment token={t} {enable} -> {}", o.class()));
                }
                Step::ToggleToken { token, enable } => {
                    let t = token % nt;
                    let o = w.process(toggle_token_ix(&d, &d.tokens[t].mint, *enable));
                    obs.outcome("keeper", "toggle_token", &o.class());
                    if o.ok {
                        model.toks[t].enabled = *enable;
                    }
                    if !*enable {
                        obs.fault("token_disabled");
                    }
                    obs.event(|| format!("toggle_token token={t} {enable} -> {}", o.class()));
                }
                Step::SetProvider { token, provider } => {
                    let t = token % nt;
                    let o = w.process(set_expected_provider_ix(&d, &d.tokens[t].mint, *provider));
                    obs.outcome("keeper", "set_expected_provider", &o.class());
                    if o.ok {
                        model.toks[t].provider = *provider;
                        if *provider != 0 {
                            obs.fault("expected_provider_changed");
                        }
                    }
                    obs.event(|| format!("set_expected_provider token={t} {provider} -> {}", o.class()));
                }
                Step::Clear => {
                    let o = w.process(clear_prices_ix(&d));
                    obs.outcome("keeper", "clear_all_prices", &o.class());
                    if o.ok {
                        let (cleared, n) = oracle_is_cleared(&w, &d);
                        obs.require(cleared && n == 0, "C24", "clear_all_prices_clears", || "ok".into(), || format!("cleared={cleared} prices={n}"));
                    }
                }
                Step::Use { tokens, feeds, leave_set } => {
                    let mut ts: Vec<usize> = vec![];
                    let mut fs: Vec<FeedSel> = vec![];
                    for (k, t) in tokens.iter().enumerate() {
                        let t = t % nt;
                        if !ts.contains(&t) {
                            ts.push(t);
                            fs.push(feeds.get(k).copied().unwrap_or(FeedSel::Own));
                        }
                    }
                    let pairs: Vec<(usize, Pubkey)> = ts.iter().zip(fs.iter()).map(|(t, f)| (*t, resolve(&d, &env, *t, *f))).collect();
                    if fs.iter().any(|f| *f != FeedSel::Own) {
                        obs.fault("feed_account_substituted");
                    }
                    let mints: Vec<Pubkey> = ts.iter().map(|t| d.tokens[*t].mint).collect();
                    let keys: Vec<Pubkey> = pairs.iter().map(|p| p.1).collect();
                    let (was_cleared, _) = oracle_is_cleared(&w, &d);
                    let now = w.clock.unix_timestamp;
                    let o = w.process(set_prices_ix(&d, &mints, &keys));
                    obs.outcome("keeper", "set_prices", &o.class());
                    obs.probe(&format!("out:set_prices:{}", o.class()));
                    obs.event(|| format!("set_prices tokens={ts:?} feeds={fs:?} now={now} -> {}", out_summary(&o)));
                    if o.ok {
                        obs.probe("set_prices_accepted");
                        obs.require(was_cleared, "C24", "set_over_existing_prices", || "ok".into(), || "prices were set although the oracle was not cleared".into());
                        check_accepted(&w, &d, &model, now, &pairs, true, obs);
                        if obs.should_stop() {
                            return;
                        }
                        if *leave_set {
                            obs.fault("keeper_crash_before_clear");
                        } else {
                            must(&mut w, clear_prices_ix(&d), "clear");
                        }
                    }
                }
                Step::Create { kind, soft_fail } => {
                    nonce += 1;
                    if let Some(key) = create_action(&mut w, &d, user, nonce, *kind, *soft_fail, obs) {
                        pending.push(PendingAction { kind: *kind, key, soft_fail: *soft_fail });
                    }
                }
                Step::Run { kind, idx, throw, sub, refresh } => {
                    run_action(&mut w, &d, &env, &model, &mut pending, *kind, *idx, *throw, *sub, refresh.as_deref(), obs);
                }
            }
            if obs.should_stop() {
                return;
            }
        }
    }

    fn simplify_step(&self, step: &Step) -> Vec<Step> {
        match step {
            Step::Use { tokens, feeds, leave_set } => {
                let mut v = vec![];
                if *leave_set {
                    v.push(Step::Use { tokens: tokens.clone(), feeds: feeds.clone(), leave_set: false });
                }
                if tokens.len() > 1 {
                    for k in 0..tokens.len() {
                        let mut t = tokens.clone();
                        let mut f = feeds.clone();
                        t.remove(k);
                        if k < f.len() {
                            f.remove(k);
                        }
                        v.push(Step::Use { tokens: t, feeds: f, leave_set: *leave_set });
                    }
                }
                v
            }
            Step::Post { token, rep, idem, to } => {
                let mut v = vec![];
                if *idem || *to != FeedSel::Own {
                    v.push(Step::Post { token: *token, rep: rep.clone(), idem: false, to: FeedSel::Own });
                }
                if rep.lu_back_ns != 0 {
                    let mut r2 = rep.clone();
                    r2.lu_back_ns = 0;
                    v.push(Step::Post { token: *token, rep: r2, idem: *idem, to: *to });
                }
                v
            }
            Step::Clock { dslot, dsec } if *dsec != 0 || *dslot != 0 => vec![Step::Clock { dslot: dslot / 2, dsec: dsec / 2 }],
            Step::Run { kind, idx, throw, sub, refresh } => {
                let mut v = vec![];
                if sub.is_some() {
                    v.push(Step::Run { kind: *kind, idx: *idx, throw: *throw, sub: None, refresh: refresh.clone() });
                }
                if *idx != 0 {
                    v.push(Step::Run { kind: *kind, idx: 0, throw: *throw, sub: *sub, refresh: refresh.clone() });
                }
                v
            }
            Step::Create { kind, soft_fail } if *soft_fail => vec![Step::Create { kind: *kind, soft_fail: false }],
            _ => vec![],
        }
    }

    fn components(&self) -> Components {
        Components {
            real: vec![
                "gmsol_store entrypoint: set_prices_from_price_feed, clear_all_prices, update_price_feed_with_chainlink(_idempotent), initialize_price_feed, insert_amount, set_feed_config_v2, toggle_token_config, toggle_token_price_adjustment, set_expected_provider, create/execute deposit, create/execute market-increase order, update_fees_state, update_adl_state".into(),
                "Oracle::set_prices_from_remaining_accounts / with_prices_opts, PriceValidator, PriceFeed::check_and_get_price, try_adjust_price_with_max_deviation_factor (inside the store)".into(),
                "gmsol_mock_chainlink_verifier, spl-token, associated-token-account".into(),
            ],
            stub: vec![
                "chainsim runtime (accounts db, loader, CPI, sysvars, system program)".into(),
                "report provider (own ABI encoder, unsigned reports)".into(),
                "only custom Chainlink Data Streams feeds: Pyth / Switchboard accounts are not simulated, so the implicit mid-price reference of the adjustment and of the deviation check is unreachable".into(),
            ],
        }
    }

    fn rule(&self) -> String {
        "one case = one consumer transaction of the oracle (set_prices_from_price_feed over 1..3 tokens, or an executing instruction) \
         on a history-dependent state of feeds, clock and keeper configuration; distinct = (consumer kind, outcome class, per-token \
         relation of the adjusted timestamp to the age limit / future limit, deviation class, adjustment on/off, feed selection, clock \
         mode). Oracles: accepted => reference predicate (enabled token, expected provider, configured feed id, adjusted age <= max age, \
         ts <= now + future excess, spread of adjusted timestamps <= max range, deviation from the report's own mid price within the \
         configured band (C24: band rounded up to one precision step; C29 with adjustment on: exact band, clamped bounds stay between the \
         original bound and the reference), 0 < min <= max, equal multipliers); oracle account cleared after every executing instruction \
         whose transaction succeeded (completed or soft-failed) and unchanged after a rolled-back one. Only the explicit-reference path of \
         the adjustment is reachable with custom feeds"
            .into()
    }
}

struct Env {
    twin_same: Vec<Pubkey>,
    twin_other: Vec<Pubkey>,
    other_ids: Vec<[u8; 32]>,
    other: Pubkey,
    stray: Pubkey,
}

fn must(w: &mut World, ix: solana_program::instruction::Instruction, what: &str) {
    let o = w.process(ix);
    assert!(o.ok, "{what}: {}", out_summary(&o));
}

fn resolve(d: &Dep, env: &Env, t: usize, f: FeedSel) -> Pubkey {
    match f {
        FeedSel::Own => d.tokens[t].price_feed,
        FeedSel::OtherToken(o) => d.tokens[o % d.tokens.len()].price_feed,
        FeedSel::TwinSameId => env.twin_same[t],
        FeedSel::TwinOtherId => env.twin_other[t],
        FeedSel::NotAFeed(k) => match k % 4 {
            0 => d.oracle,
            1 => d.token_map,
            2 => d.store,
            _ => env.stray,
        },
    }
}

fn apply_amount(w: &mut World, d: &Dep, model: &mut Model, which: u8, value: u64, obs: &mut Obs) {
    let o = w.process(insert_amount_ix(d, AMOUNT_KEYS[which as usize % 3], value));
    obs.outcome("keeper", "insert_amount", &o.class());
    if o.ok {
        match which % 3 {
            0 => model.max_age = value,
            1 => model.max_range = value,
            _ => model.max_excess = value,
        }
    }
    obs.event(|| format!("insert_amount {}={value} -> {}", AMOUNT_KEYS[which as usize % 3], o.class()));
}

fn apply_feed_cfg(w: &mut World, d: &Dep, model: &mut Model, t: usize, adj: Option<u32>, factor: Option<u128>, obs: &mut Obs) {
    if adj.is_none() && factor.is_none() {
        return;
    }
    let o = w.process(set_feed_config_ix(d, &d.tokens[t].mint, 0, None, adj, factor));
    obs.outcome("keeper", "set_feed_config", &o.class());
    if o.ok {
        if let Some(a) = adj {
            model.toks[t].adj = a;
        }
        if let Some(f) = factor {
            // documented: the factor is stored as a u32 ratio with 10^12 granularity; 0 disables the check
            model.toks[t].ratio = (f / 1_000_000_000_000) as u32;
        }
    }
    obs.event(|| format!("set_feed_config token={t} adj={adj:?} factor={factor:?} -> {}", o.class()));
}

#[allow(clippy::too_many_arguments)]
fn post(w: &mut World, d: &Dep, env: &Env, t: usize, rep: &RelReport, idem: bool, to: FeedSel, obs: &mut Obs) {
    let tk = &d.tokens[t];
    let now = w.clock.unix_timestamp;
    let (authority, account, fid) = match to {
        FeedSel::TwinSameId => (env.other, env.twin_same[t], tk.feed_id),
        FeedSel::TwinOtherId => (env.other, env.twin_other[t], env.other_ids[t]),
        _ => (d.keeper, tk.price_feed, tk.feed_id),
    };
    let spec = rep.to_spec(tk.schema, fid, now);
    let o = w.process(update_feed_as_ix(d, &authority, &account, spec.compressed(), idem));
    obs.outcome(if authority == d.keeper { "keeper" } else { "other_keeper" }, "update_feed", &o.class());
    obs.event(|| {
        format!(
            "post token={t} to={to:?} obs_ts={} (now{:+}) bid/mid/ask={}/{}/{} -> {}",
            spec.observations_ts,
            spec.observations_ts as i64 - now,
            spec.bid,
            spec.price,
            spec.ask,
            o.class()
        )
    });
}

/// floor(p · 10^(precision − decimals)) — the stored value of a feed price (own conversion).
fn to_value(p: u128, feed_decimals: u8, precision: u8) -> BigInt {
    let p = BigInt::from(p);
    if precision >= feed_decimals {
        p * BigInt::from(10u32).pow((precision - feed_decimals) as u32)
    } else {
        p / BigInt::from(10u32).pow((feed_decimals - precision) as u32)
    }
}

/// The reference predicate of C24 / C29 for a set of (token, feed account) pairs that were accepted at `now`.
fn check_accepted(w: &World, d: &Dep, model: &Model, now: i64, pairs: &[(usize, Pubkey)], stored_visible: bool, obs: &mut Obs) {
    let view = if stored_visible { Some(read_oracle(w, d)) } else { None };
    let mut adj_ts: Vec<i128> = vec![];
    for (t, key) in pairs {
        let tk = &d.tokens[*t];
        let tm = &model.toks[*t];
        let ctx = |what: &str| format!("check={what},consumer={}", if stored_visible { "set_prices" } else { "execute" });
        if !obs.require(tm.enabled, "C24", "accepted_violates_predicate", || ctx("token_disabled"), || format!("token {t} is disabled")) {
            return;
        }
        let owner_ok = w.get(key).map(|a| a.owner == gmsol_store::ID).unwrap_or(false);
        let fv = if owner_ok { w.data(key).and_then(feed_view_of_checked) } else { None };
        let Some(fv) = fv else {
            obs.violation("C24", "accepted_violates_predicate", ctx("not_a_price_feed"), format!("token {t}: account {key} is not a price feed of the store"));
            return;
        };
        if !obs.require(
            tm.provider == 0 && fv.provider == 0,
            "C24",
            "accepted_violates_predicate",
            || ctx("provider"),
            || format!("token {t}: expected provider {} but the custom feed is provider {}", tm.provider, fv.provider),
        ) {
            return;
        }
        if !obs.require(
            fv.feed_id.to_bytes() == tk.feed_id,
            "C24",
            "accepted_violates_predicate",
            || ctx("feed_id"),
            || format!("token {t}: feed account {key} has feed id {} but the token is configured with another one", fv.feed_id),
        ) {
            return;
        }
        if *key != tk.price_feed {
            obs.probe("alternative_feed_account_with_configured_id_accepted");
        }
        let ts = fv.ts as i128;
        let adjusted = ts - tm.adj as i128;
        adj_ts.push(adjusted);
        let age_ok = adjusted + model.max_age as i128 >= now as i128;
        if !obs.require(
            age_ok,
            "C24",
            "accepted_violates_predicate",
            || ctx("max_age"),
            || format!("token {t}: ts {} − adjustment {} + max_age {} < now {now}", fv.ts, tm.adj, model.max_age),
        ) {
            return;
        }
        let future_ok = ts <= now as i128 + model.max_excess as i128;
        if !obs.require(
            future_ok,
            "C24",
            "accepted_violates_predicate",
            || ctx("future"),
            || format!("token {t}: ts {} > now {now} + max_future_excess {}", fv.ts, model.max_excess),
        ) {
            return;
        }
        // prices in stored units
        let mult = 20i32 - tk.decimals as i32 - tk.precision as i32;
        if mult < 0 {
            obs.violation("C24", "accepted_violates_predicate", ctx("unsupported_decimals"), format!("token {t}: decimals + precision > 20"));
            return;
        }
        let step = BigInt::from(10u32).pow(mult as u32);
        let omin = to_value(fv.min, fv.decimals, tk.precision);
        let omax = to_value(fv.max, fv.decimals, tk.precision);
        let oref = to_value(fv.price, fv.decimals, tk.precision);
        let factor = BigInt::from(tm.ratio) * BigInt::from(1_000_000_000_000u64);
        // deviation in unit-price terms: floor(ref_unit · factor / 10^20)
        let dev = &oref * &step * &factor / BigInt::from(10u32).pow(20);
        let dev_up_steps: BigInt = (&dev + &step - 1) / &step; // rounded up to whole precision steps
        let age_class = if adjusted + model.max_age as i128 == now as i128 { 1u64 } else { 0 };
        let mut dev_class = 0u64;
        if let Some(view) = &view {
            let Some(sp) = view.price(&tk.mint) else {
                obs.violation("C24", "accepted_violates_predicate", ctx("price_missing"), format!("token {t}: no stored price"));
                return;
            };
            if !obs.require(
                sp.min > 0 && sp.min <= sp.max && sp.min_multiplier == sp.max_multiplier,
                "C24",
                "stored_price_well_formed",
                || format!("zero={},inverted={},mult_eq={}", sp.min == 0, sp.min > sp.max, sp.min_multiplier == sp.max_multiplier),
                || format!("token {t}: stored {sp:?}"),
            ) {
                return;
            }
            let smin = BigInt::from(sp.min);
            let smax = BigInt::from(sp.max);
            if tm.ratio != 0 {
                let dmin = (&smin - &oref).abs() * &step;
                let dmax = (&smax - &oref).abs() * &step;
                if tm.adjust {
                    // C29: exact band, clamp semantics
                    dev_class = 2 + (smin != omin) as u64 + 2 * (smax != omax) as u64;
                    if smin != omin || smax != omax {
                        obs.probe("price_adjusted");
                    }
                    let in_band = dmin <= dev && dmax <= dev;
                    if !obs.require(
                        in_band,
                        "C29",
                        "adjusted_price_in_band",
                        || format!("min_out={},max_out={},min_adjusted={},max_adjusted={}", dmin > dev, dmax > dev, smin != omin, smax != omax),
                        || {
                            format!(
                                "token {t} (d={} prec={} ratio={}): stored min/max {}/{} (feed {}/{}), ref {} → |min−ref|={} |max−ref|={} unit price, allowed {}",
                                tk.decimals, tk.precision, tm.ratio, sp.min, sp.max, omin, omax, oref, dmin, dmax, dev
                            )
                        },
                    ) {
                        return;
                    }
                    // a clamp moves a bound towards the reference, never past it and never outwards
                    let inward = smin >= omin && smax <= omax;
                    let keeps_ref = !(omin <= oref && oref <= omax) || (smin <= oref && oref <= smax);
                    if !obs.require(
                        inward && keeps_ref,
                        "C29",
                        "clamp_towards_reference",
                        || format!("inward={inward},keeps_ref={keeps_ref}"),
                        || format!("token {t}: feed min/ref/max {omin}/{oref}/{omax} became {}/{}", sp.min, sp.max),
                    ) {
                        return;
                    }
                } else if !dev.is_zero() {
                    dev_class = 1;
                    let allowed = &dev_up_steps * &step;
                    if !obs.require(
                        dmin <= allowed && dmax <= allowed,
                        "C24",
                        "accepted_violates_predicate",
                        || ctx("deviation"),
                        || {
                            format!(
                                "token {t} (ratio {}): stored min/max {}/{} ref {} → |min−ref|={} |max−ref|={} allowed {} (configured {} rounded up to the step {})",
                                tm.ratio, sp.min, sp.max, oref, dmin, dmax, allowed, dev, step
                            )
                        },
                    ) {
                        return;
                    }
                } else {
                    obs.probe("deviation_floor_is_zero_check_skipped");
                }
            } else if tm.adjust {
                obs.probe("adjust_enabled_without_factor");
            }
        } else if tm.ratio != 0 && !tm.adjust && !dev.is_zero() {
            // executing instruction: the accepted price is the feed's own (unadjusted) price
            dev_class = 1;
            let allowed = &dev_up_steps * &step;
            let dmin = (&omin - &oref).abs() * &step;
            let dmax = (&omax - &oref).abs() * &step;
            if !obs.require(
                dmin <= allowed && dmax <= allowed,
                "C24",
                "accepted_violates_predicate",
                || ctx("deviation"),
                || format!("token {t} (ratio {}): feed min/ref/max {omin}/{oref}/{omax} (stored units), allowed {allowed} unit price", tm.ratio),
            ) {
                return;
            }
        }
        obs.fingerprint(&[
            0xC24,
            stored_visible as u64,
            age_class,
            (ts > now as i128) as u64,
            dev_class,
            tm.adjust as u64,
            (tm.adj != 0) as u64,
            (*key != tk.price_feed) as u64,
            tk.schema as u64,
        ]);
    }
    if let (Some(lo), Some(hi)) = (adj_ts.iter().min(), adj_ts.iter().max()) {
        obs.require(
            hi - lo <= model.max_range as i128,
            "C24",
            "accepted_violates_predicate",
            || format!("check=timestamp_range,consumer={}", if stored_visible { "set_prices" } else { "execute" }),
            || format!("adjusted timestamps span {} s > max range {} ({adj_ts:?})", hi - lo, model.max_range),
        );
        if pairs.len() > 1 && hi - lo == model.max_range as i128 {
            obs.probe("range_exactly_at_limit");
        }
    }
}

fn feed_view_of_checked(data: &[u8]) -> Option<FeedView> {
    use anchor_lang::Discriminator;
    if data.len() < 8 || data[..8] != *gmsol_store::states::PriceFeed::DISCRIMINATOR {
        return None;
    }
    feed_view_of(data)
}

struct PendingAction {
    kind: ExecKind,
    key: Pubkey,
    soft_fail: bool,
}

fn create_action(w: &mut World, d: &Dep, user: Pubkey, nonce: u64, kind: ExecKind, soft_fail: bool, obs: &mut Obs) -> Option<Pubkey> {
    let mut nb = [0u8; 32];
    nb[..8].copy_from_slice(&nonce.to_le_bytes());
    let m = &d.markets[0];
    match kind {
        ExecKind::Increase => {
            let (cixs, order, _pos) = ex::create_order_tx(
                d,
                &OrderArgs {
                    owner: user,
                    market: 0,
                    nonce: nb,
                    kind: OrderKind::MarketIncrease,
                    is_long: true,
                    is_collateral_long: false,
                    collateral_delta: 20_000_000,
                    size_delta: 30 * 10u128.pow(20),
                    execution_lamports: 5_000_000,
                    min_output: None,
                    trigger_price: None,
                    acceptable_price: if soft_fail { Some(1) } else { None },
                    valid_from_ts: None,
                    initial_collateral_token: None,
                    final_output_token: None,
                    swap_path: vec![],
                    swap_type: None,
                },
            );
            let o = w.process_tx(&cixs, &TxOpts::default());
            obs.outcome("user", "create_order", &o.class());
            obs.event(|| format!("create_order soft_fail={soft_fail} -> {}", out_summary(&o)));
            o.ok.then_some(order)
        }
        _ => {
            let long_dec = d.tokens[m.long].decimals as u32;
            let (cixs, dep) = ex::create_deposit_tx(
                d,
                &DepositArgs {
                    owner: user,
                    market: 0,
                    nonce: nb,
                    long_amount: 2 * 10u64.pow(long_dec.min(12)),
                    short_amount: 50_000_000,
                    min_market_token: if soft_fail { u64::MAX } else { 0 },
                    execution_lamports: 5_000_000,
                    initial_long_token: None,
                    initial_short_token: None,
                    long_path: vec![],
                    short_path: vec![],
                },
            );
            let o = w.process_tx(&cixs, &TxOpts::default());
            obs.outcome("user", "create_deposit", &o.class());
            obs.event(|| format!("create_deposit soft_fail={soft_fail} -> {}", out_summary(&o)));
            o.ok.then_some(dep)
        }
    }
}

#[allow(clippy::too_many_arguments)]
fn run_action(
    w: &mut World,
    d: &Dep,
    env: &Env,
    model: &Model,
    pending: &mut Vec<PendingAction>,
    kind: ExecKind,
    idx: usize,
    throw: bool,
    sub: Option<(usize, FeedSel)>,
    refresh: Option<&[i128]>,
    obs: &mut Obs,
) {
    let m = &d.markets[0];
    let housekeeping = matches!(kind, ExecKind::UpdateFees | ExecKind::UpdateAdl);
    let pick = if housekeeping || pending.is_empty() { None } else { Some(idx % pending.len()) };
    if !housekeeping && pick.is_none() {
        obs.event(|| "run: nothing pending".to_string());
        return;
    }
    let (kind, soft_fail) = match pick {
        Some(k) => (pending[k].kind, pending[k].soft_fail),
        None => (kind, false),
    };
    // tokens the instruction prices
    let tokens: Vec<Pubkey> = match (kind, pick) {
        (ExecKind::Deposit, Some(k)) => match read_pod::<gmsol_store::states::Deposit>(w, &pending[k].key) {
            Some(dep) => dep.swap().tokens().to_vec(),
            None => {
                pending.remove(k);
                return;
            }
        },
        (ExecKind::Increase, Some(k)) => match ex::read_order(w, &pending[k].key) {
            Some(ov) => ov.order.swap().tokens().to_vec(),
            None => {
                pending.remove(k);
                return;
            }
        },
        _ => ex::market_feed_tokens(d, m),
    };
    // the keeper's price refresh for exactly these tokens
    if let Some(mids) = refresh {
        for mint in &tokens {
            if let Some(t) = d.tokens.iter().position(|x| x.mint == *mint) {
                let mid = mids[t % mids.len()];
                let spread = mid / 100_000;
                let rep = RelReport { obs_off: 0, exp_off: 3600, price: mid, bid: mid - spread, ask: mid + spread, status: 2, lu_back_ns: 0 };
                post(w, d, env, t, &rep, true, FeedSel::Own, obs);
            }
        }
    }
    let mut ixs: Vec<solana_program::instruction::Instruction> = match (kind, pick) {
        (ExecKind::Deposit, Some(k)) => match ex::execute_deposit_ix(w, d, &pending[k].key, throw, 5000) {
            Some(ix) => vec![ix],
            None => return,
        },
        (ExecKind::Increase, Some(k)) => match ex::execute_order_tx(w, d, &pending[k].key, throw, 5000, 0) {
            Some(ixs) => ixs,
            None => return,
        },
        (ExecKind::UpdateAdl, _) => vec![ex::update_adl_state_ix(d, m, true)],
        _ => vec![ex::update_fees_state_ix(d, m)],
    };
    // the (token, feed account) pairs the transaction presents
    let mut pairs: Vec<(usize, Pubkey)> = vec![];
    for mint in &tokens {
        if let Some(t) = d.tokens.iter().position(|x| x.mint == *mint) {
            pairs.push((t, d.tokens[t].price_feed));
        }
    }
    if let Some((t, f)) = sub {
        let t = t % d.tokens.len();
        let new = resolve(d, env, t, f);
        let own = d.tokens[t].price_feed;
        if new != own {
            if let Some(last) = ixs.last_mut() {
                // only the feed position (read-only remaining account), never a named account
                for a in last.accounts.iter_mut().rev() {
                    if a.pubkey == own && !a.is_writable {
                        a.pubkey = new;
                        break;
                    }
                }
            }
            for p in pairs.iter_mut() {
                if p.0 == t {
                    p.1 = new;
                }
            }
            obs.fault("feed_account_substituted");
        }
    }
    let before = w.data(&d.oracle).unwrap().to_vec();
    let (cleared_before, _) = oracle_is_cleared(w, d);
    let now = w.clock.unix_timestamp;
    let o = w.process_tx(&ixs, &TxOpts::default());
    let opname = match kind {
        ExecKind::Deposit => "execute_deposit",
        ExecKind::Increase => "execute_order",
        ExecKind::UpdateFees => "update_fees_state",
        ExecKind::UpdateAdl => "update_adl_state",
    };
    obs.outcome("keeper", opname, &o.class());
    obs.probe(&format!("out:{opname}:{}", o.class()));
    obs.event(|| format!("{opname} throw={throw} soft_fail={soft_fail} sub={sub:?} now={now} -> {}", out_summary(&o)));
    let (cleared_after, n_after) = oracle_is_cleared(w, d);
    if o.ok {
        if let Some(k) = pick {
            pending.remove(k);
        }
        obs.probe(if soft_fail { "exec_ok_with_soft_failure_trigger" } else { "exec_ok" });
        obs.require(
            cleared_after && n_after == 0,
            "C24",
            "oracle_cleared_after_use",
            || format!("op={opname},outcome=ok,soft_trigger={soft_fail},throw={throw}"),
            || format!("oracle after a successful {opname}: cleared={cleared_after} prices={n_after}"),
        );
        if obs.should_stop() {
            return;
        }
        obs.require(cleared_before, "C24", "set_over_existing_prices", || format!("op={opname}"), || "executed although the oracle held prices".into());
        check_accepted(w, d, model, now, &pairs, false, obs);
    } else {
        obs.probe("exec_failed");
        let after = w.data(&d.oracle).unwrap();
        obs.require(
            after == &before[..] && cleared_after == cleared_before,
            "C24",
            "oracle_cleared_after_use",
            || format!("op={opname},outcome=rolled_back"),
            || format!("oracle account changed by a failed {opname} (cleared {cleared_before} -> {cleared_after})"),
        );
    }
}
