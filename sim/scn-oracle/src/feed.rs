//! C25 — a custom price feed never moves backwards in time or stores an invalid price.
//!
//! History of `update_price_feed_with_chainlink(_idempotent)` transactions on 1–3 custom feeds (all report
//! schemas) with out-of-order, replayed, delayed, lost, future-dated, expired, inverted, negative and corrupted
//! reports, byzantine signers, under normal / stalled / coarse / jumping clocks (never backwards:
//! the cluster clock is non-decreasing).

use chainsim::deploy::Dep;
use chainsim::report::ReportSpec;
use chainsim::rt::{TxOpts, TxOutcome, World};
use serde::{Deserialize, Serialize};
use simcore::rng::{hash_str, mix};
use simcore::{Components, Obs, Rng, Scenario, Tier};
use solana_program::instruction::Instruction;
use solana_program::pubkey::Pubkey;

use crate::common::*;

#[derive(Clone, Copy, Debug, Serialize, Deserialize, PartialEq, Eq)]
pub enum ClockMode {
    Normal,
    Stall,
    Jumpy,
    /// Coarse clock: many slots share one timestamp, then it advances by several seconds at once.
    Coarse,
}

#[derive(Clone, Debug, Serialize, Deserialize)]
pub struct Cfg {
    pub tokens: Vec<Tok>,
    /// Store amount `oracle_max_future_timestamp_excess` set before the history starts.
    pub max_future_excess: u64,
    /// Fault-injecting sub-batch (false: only well-formed, in-order reports by the keeper under a normal clock).
    pub faults: bool,
    pub clock: ClockMode,
}

#[derive(Clone, Debug, Serialize, Deserialize, PartialEq, Eq)]
pub enum Damage {
    None,
    /// Flip one bit of the compressed report (position modulo the bit length).
    FlipBit(u32),
    /// Keep only the first n bytes of the compressed report (modulo its length).
    Truncate(u32),
    /// Flip one bit of the *uncompressed* payload, then re-compress (keeps the snappy frame valid).
    FlipPayloadBit(u32),
    /// Report carries the feed id of another token of the run (index modulo the number of tokens).
    OtherFeedId(usize),
    /// The (valid) report is delivered to the feed account of another token.
    OtherFeedAccount(usize),
}

#[derive(Clone, Copy, Debug, Serialize, Deserialize, PartialEq, Eq)]
pub enum Who {
    Keeper,
    /// Holds no role.
    Stranger,
    /// Holds PRICE_KEEPER but is not the authority of the feed.
    OtherKeeper,
}

#[derive(Clone, Debug, Serialize, Deserialize)]
pub enum Step {
    Update {
        token: usize,
        idem: bool,
        rep: RelReport,
        damage: Damage,
        who: Who,
        /// Delivered this many steps later (reordering / delay fault).
        delay: u8,
        /// Never delivered (tx loss).
        lost: bool,
    },
    /// Re-deliver the bytes of an earlier delivered update (duplication), optionally with the other mode.
    Replay { back: usize, flip_mode: bool },
    Clock { dslot: i64, dsec: i64 },
    SetExcess { value: u64 },
}

pub struct FeedHistory;

struct Pending {
    due: usize,
    tx: Sent,
}

#[derive(Clone)]
struct Sent {
    token: usize,
    target: usize,
    idem: bool,
    who: Who,
    /// `Some` when the bytes are exactly the compressed form of this report (no damage).
    intact: Option<ReportSpec>,
    bytes: Vec<u8>,
}

fn gen_report(r: &mut Rng, schema: u16, faults: bool, excess: u64) -> RelReport {
    // price: log-uniform over many magnitudes (18 decimals fixed point)
    let base: i128 = r.log_u128(10u128.pow(32)).max(1) as i128;
    let spread = (base / 10_000).max(0) * r.range(0, 30) as i128;
    let mut rep = RelReport {
        obs_off: -(r.range(0, 5) as i64),
        exp_off: 3600,
        price: base,
        bid: base - spread.min(base),
        ask: base + spread,
        status: match schema {
            8 => r.range(0, 2) as u32,
            11 => r.range(0, 5) as u32,
            _ => 0,
        },
        lu_back_ns: if r.chance(1, 3) { 0 } else { r.range(0, 5_000_000_000) as i128 },
    };
    if !faults {
        return rep;
    }
    // timestamps
    match r.below(12) {
        0 | 1 => rep.obs_off = -(r.range(6, 900) as i64), // older than what a previous update probably stored
        2 => rep.obs_off = r.range(0, excess.min(1_000_000)) as i64, // future, inside the excess
        3 => rep.obs_off = excess.min(1 << 40) as i64 + r.range(1, 100) as i64, // future, beyond the excess
        4 => rep.obs_off = -(r.log_u64(4_000_000_000) as i64), // very old / clamped to 0
        5 => rep.obs_off = 0,
        _ => {}
    }
    match r.below(16) {
        0 => rep.exp_off = -(r.range(1, 1000) as i64), // expired
        1 => rep.exp_off = 0,                           // boundary
        2 => rep.exp_off = r.range(1, 10) as i64,
        _ => {}
    }
    // prices
    match r.below(24) {
        0 => std::mem::swap(&mut rep.bid, &mut rep.ask), // inverted (no-op when the spread is zero)
        1 => rep.price = rep.ask + 1 + r.range(0, 1000) as i128,
        2 => rep.price = (rep.bid - 1 - r.range(0, 1000) as i128).max(-1),
        3 => rep.price = -rep.price,
        4 => rep.bid = -1,
        5 => {
            rep.price = 0;
            rep.bid = 0;
            rep.ask = 0;
        }
        6 => {
            rep.ask = i128::MAX;
        }
        7 => {
            rep.price = i128::MAX;
            rep.bid = i128::MAX;
            rep.ask = i128::MAX;
        }
        8 => {
            rep.bid = rep.price;
            rep.ask = rep.price;
        }
        _ => {}
    }
    // status / last update
    match r.below(24) {
        0 => rep.status = r.range(3, 9) as u32,
        1 => rep.lu_back_ns = -(r.range(1, 999_999_999) as i128), // ahead by less than a second: tolerated
        2 => rep.lu_back_ns = -(r.range(1_000_000_000, 5_000_000_000) as i128), // ahead by ≥ 1 s: invalid
        3 => rep.lu_back_ns = r.log_u128(4_000_000_000_000_000_000) as i128,
        _ => {}
    }
    rep
}

impl Scenario for FeedHistory {
    type Cfg = Cfg;
    type Step = Step;

    fn name(&self) -> &'static str {
        "feed_history"
    }

    fn generate(&self, seed: u64, run: u64, tier: Tier, _focus: &str) -> (Cfg, Vec<Step>) {
        let mut r = Rng::derive(seed, run, "feed.cfg");
        let faults = !r.chance(1, 5);
        let n_tokens = r.usize(1, 3);
        let tokens: Vec<Tok> = (0..n_tokens)
            .map(|_| Tok {
                decimals: *r.pick(&[6u8, 8, 9]),
                precision: *r.pick(&[2u8, 4, 6]),
                synthetic: r.chance(1, 3),
                schema: *r.pick(&[2u16, 3, 3, 7, 8, 8, 11, 11]),
                heartbeat: 120,
            })
            .collect();
        let clock = if !faults {
            *r.pick(&[ClockMode::Normal, ClockMode::Normal, ClockMode::Stall])
        } else {
            *r.pick(&[ClockMode::Normal, ClockMode::Stall, ClockMode::Jumpy, ClockMode::Coarse])
        };
        let max_future_excess = if faults {
            *r.pick(&[0u64, 0, 5, 60, 600, 86_400, u64::MAX])
        } else {
            *r.pick(&[0u64, 0, 60])
        };
        let cfg = Cfg { tokens, max_future_excess, faults, clock };

        let mut r = Rng::derive(seed, run, "feed.steps");
        let n = match (tier, r.below(20)) {
            (_, 0) => r.usize(100, 300),
            (Tier::Thorough, 1) => r.usize(300, 600),
            _ => r.usize(5, 60),
        };
        let mut steps = Vec::with_capacity(n);
        let mut excess = max_future_excess;
        for _ in 0..n {
            let k = r.below(100);
            if k < 22 {
                // clock
                let (dslot, dsec) = match clock {
                    ClockMode::Normal => {
                        let s = r.range(1, 20) as i64;
                        (s * 2, s)
                    }
                    ClockMode::Stall => {
                        if r.chance(1, 4) {
                            (1, r.range(0, 1) as i64)
                        } else {
                            (0, 0)
                        }
                    }
                    ClockMode::Jumpy => match r.below(40) {
                        0..=4 => (r.range(1, 1_000_000) as i64, r.range(3_600, 86_400 * 30) as i64),
                        5..=8 => (r.range(1, 1_000_000_000) as i64, r.log_u64(4_000_000_000) as i64),
                        9 => (1, i64::MAX / 4), // extreme
                        _ => {
                            let s = r.range(1, 30) as i64;
                            (s * 2, s)
                        }
                    },
                    ClockMode::Coarse => match r.below(4) {
                        0 => (r.range(5, 40) as i64, r.range(5, 20) as i64),
                        _ => (r.range(1, 3) as i64, 0),
                    },
                };
                steps.push(Step::Clock { dslot, dsec });
            } else if k < 30 && faults {
                steps.push(Step::Replay { back: r.usize(0, 8), flip_mode: r.chance(1, 3) });
            } else if k < 33 && faults {
                excess = *r.pick(&[0u64, 1, 30, 3600, u64::MAX]);
                steps.push(Step::SetExcess { value: excess });
            } else {
                let token = r.usize(0, n_tokens - 1);
                let schema = cfg.tokens[token].schema;
                let rep = gen_report(&mut r, schema, faults, excess);
                let (damage, who, delay, lost) = if faults {
                    let damage = match r.below(40) {
                        0 => Damage::FlipBit(r.u64() as u32),
                        1 => Damage::Truncate(r.u64() as u32),
                        2 | 3 => Damage::FlipPayloadBit(r.u64() as u32),
                        4 => Damage::OtherFeedId(r.usize(0, 7)),
                        5 => Damage::OtherFeedAccount(r.usize(0, 7)),
                        _ => Damage::None,
                    };
                    let who = match r.below(30) {
                        0 => Who::Stranger,
                        1 => Who::OtherKeeper,
                        _ => Who::Keeper,
                    };
                    let delay = if r.chance(1, 8) { r.range(1, 6) as u8 } else { 0 };
                    (damage, who, delay, r.chance(1, 40))
                } else {
                    (Damage::None, Who::Keeper, 0, false)
                };
                steps.push(Step::Update { token, idem: r.chance(1, 2), rep, damage, who, delay, lost });
            }
        }
        (cfg, steps)
    }

    fn execute(&self, cfg: &Cfg, steps: &[Step], obs: &mut Obs) {
        let (mut w, d) = world_for(&cfg.tokens, &[], 0);
        let nt = d.tokens.len();
        let stranger = w.new_key("stranger");
        let other = w.new_key("other_keeper");
        w.fund(&stranger, 1_000_000_000_000);
        w.fund(&other, 1_000_000_000_000);
        let o = w.process(grant_role_ix(&d, &other, "PRICE_KEEPER"));
        assert!(o.ok, "grant role: {}", out_summary(&o));
        if cfg.max_future_excess != 0 {
            let o = w.process(insert_amount_ix(&d, "oracle_max_future_timestamp_excess", cfg.max_future_excess));
            assert!(o.ok, "insert_amount: {}", out_summary(&o));
        }

        let mut pending: Vec<Pending> = Vec::new();
        let mut history: Vec<Sent> = Vec::new();
        let cm = cfg.clock as u64;

        for (i, st) in steps.iter().enumerate() {
            obs.set_step(i);
            match st {
                Step::Clock { dslot, dsec } => {
                    let (dsec, dslot) = (&(*dsec).max(0), &(*dslot).max(0));
                    if *dsec == 0 {
                        obs.fault("clock_stall");
                    } else if *dsec > 3_600 {
                        obs.fault("clock_jump");
                    }
                    let before = w.clock.unix_timestamp;
                    w.clock.unix_timestamp = w.clock.unix_timestamp.saturating_add(*dsec).max(0);
                    w.clock.slot = (w.clock.slot as i128 + *dslot as i128).clamp(0, u64::MAX as i128) as u64;
                    if *dsec > 0 {
                        obs.sim_seconds += (w.clock.unix_timestamp - before).min(86_400 * 365) as u64;
                    }
                    obs.event(|| format!("clock -> ts={} slot={}", w.clock.unix_timestamp, w.clock.slot));
                }
                Step::SetExcess { value } => {
                    let o = w.process(insert_amount_ix(&d, "oracle_max_future_timestamp_excess", *value));
                    obs.outcome("keeper", "set_excess", &o.class());
                    obs.event(|| format!("set_excess {value} -> {}", o.class()));
                }
                Step::Update { token, idem, rep, damage, who, delay, lost } => {
                    let t = token % nt;
                    let now = w.clock.unix_timestamp;
                    let mut spec = rep.to_spec(d.tokens[t].schema, d.tokens[t].feed_id, now);
                    let mut target = t;
                    let mut intact = true;
                    let bytes = match damage {
                        Damage::None => spec.compressed(),
                        Damage::FlipBit(p) => {
                            intact = false;
                            let mut b = spec.compressed();
                            let bit = *p as usize % (b.len() * 8);
                            b[bit / 8] ^= 1 << (bit % 8);
                            b
                        }
                        Damage::Truncate(n) => {
                            intact = false;
                            let mut b = spec.compressed();
                            let keep = *n as usize % b.len();
                            b.truncate(keep);
                            b
                        }
                        Damage::FlipPayloadBit(p) => {
                            intact = false;
                            let mut b = spec.full_report();
                            let bit = *p as usize % (b.len() * 8);
                            b[bit / 8] ^= 1 << (bit % 8);
                            chainsim::report::compress(&b)
                        }
                        Damage::OtherFeedId(o) => {
                            let o = o % nt;
                            if o != t {
                                // a valid report of another stream (its own schema) sent to this feed
                                spec = rep.to_spec(d.tokens[o].schema, d.tokens[o].feed_id, now);
                                intact = false;
                            }
                            spec.compressed()
                        }
                        Damage::OtherFeedAccount(o) => {
                            let o = o % nt;
                            if o != t {
                                target = o;
                                intact = false;
                            }
                            spec.compressed()
                        }
                    };
                    if !matches!(damage, Damage::None) && !intact {
                        obs.fault("corrupted_or_misrouted_report");
                    }
                    if *who != Who::Keeper {
                        obs.fault("byzantine_signer");
                    }
                    let sent = Sent { token: t, target, idem: *idem, who: *who, intact: intact.then_some(spec), bytes };
                    if *lost {
                        obs.fault("tx_loss");
                        obs.event(|| format!("update token={t} LOST"));
                    } else if *delay > 0 {
                        obs.fault("tx_delay");
                        pending.push(Pending { due: i + *delay as usize, tx: sent });
                    } else {
                        deliver(&mut w, &d, &sent, "update", stranger, other, cm, obs);
                        history.push(sent);
                    }
                }
                Step::Replay { back, flip_mode } => {
                    if history.is_empty() {
                        obs.event(|| "replay: nothing to replay".to_string());
                    } else {
                        let k = history.len() - 1 - (back % history.len());
                        let mut sent = history[k].clone();
                        if *flip_mode {
                            sent.idem = !sent.idem;
                        }
                        obs.fault("tx_duplicate");
                        deliver(&mut w, &d, &sent, "replay", stranger, other, cm, obs);
                    }
                }
            }
            if obs.should_stop() {
                return;
            }
            // delayed deliveries that are due now
            let mut k = 0;
            while k < pending.len() {
                if pending[k].due <= i {
                    let p = pending.remove(k);
                    deliver(&mut w, &d, &p.tx, "delayed", stranger, other, cm, obs);
                    history.push(p.tx);
                    if obs.should_stop() {
                        return;
                    }
                } else {
                    k += 1;
                }
            }
        }
        for p in pending {
            deliver(&mut w, &d, &p.tx, "delayed", stranger, other, cm, obs);
            if obs.should_stop() {
                return;
            }
        }
    }

    fn simplify_step(&self, step: &Step) -> Vec<Step> {
        match step {
            Step::Update { token, idem, rep, damage, who, delay, lost } => {
                let mut v = vec![];
                if *lost || *delay > 0 || *who != Who::Keeper || *damage != Damage::None {
                    v.push(Step::Update {
                        token: *token,
                        idem: *idem,
                        rep: rep.clone(),
                        damage: Damage::None,
                        who: Who::Keeper,
                        delay: 0,
                        lost: false,
                    });
                }
                if *delay > 0 {
                    v.push(Step::Update { token: *token, idem: *idem, rep: rep.clone(), damage: damage.clone(), who: *who, delay: 0, lost: *lost });
                }
                if rep.lu_back_ns != 0 || rep.exp_off != 3600 {
                    let mut r2 = rep.clone();
                    r2.lu_back_ns = 0;
                    r2.exp_off = 3600;
                    v.push(Step::Update { token: *token, idem: *idem, rep: r2, damage: damage.clone(), who: *who, delay: *delay, lost: *lost });
                }
                if rep.price != E18 || rep.bid != E18 || rep.ask != E18 {
                    let mut r2 = rep.clone();
                    r2.price = E18;
                    r2.bid = E18;
                    r2.ask = E18;
                    v.push(Step::Update { token: *token, idem: *idem, rep: r2, damage: damage.clone(), who: *who, delay: *delay, lost: *lost });
                }
                v
            }
            Step::Clock { dslot, dsec } => {
                let mut v = vec![];
                if *dsec != 0 || *dslot != 0 {
                    v.push(Step::Clock { dslot: dslot / 2, dsec: dsec / 2 });
                }
                v
            }
            Step::Replay { back, flip_mode } => {
                let mut v = vec![];
                if *flip_mode {
                    v.push(Step::Replay { back: *back, flip_mode: false });
                }
                if *back > 0 {
                    v.push(Step::Replay { back: 0, flip_mode: *flip_mode });
                }
                v
            }
            Step::SetExcess { .. } => vec![],
        }
    }

    fn simplify_cfg(&self, cfg: &Cfg) -> Vec<Cfg> {
        let mut v = vec![];
        if cfg.tokens.len() > 1 {
            let mut c = cfg.clone();
            c.tokens.pop();
            v.push(c);
        }
        if cfg.max_future_excess != 0 {
            let mut c = cfg.clone();
            c.max_future_excess = 0;
            v.push(c);
        }
        v
    }

    fn components(&self) -> Components {
        Components {
            real: vec![
                "gmsol_store entrypoint: initialize_price_feed, update_price_feed_with_chainlink(_idempotent), insert_amount, grant_role, token map / oracle deployment".into(),
                "gmsol_mock_chainlink_verifier entrypoint (verify CPI)".into(),
                "gmsol_chainlink_datastreams decode + PriceFeedPrice::from_chainlink_report (inside the store)".into(),
                "snap, chainlink-data-streams-report".into(),
            ],
            stub: vec![
                "chainsim runtime (accounts db, loader, CPI, sysvars, system program)".into(),
                "report provider: own ABI encoder (chainsim::report), reports are not signed (mock verifier)".into(),
            ],
        }
    }

    fn rule(&self) -> String {
        "one case = one delivered update transaction on a history-dependent feed state; distinct = (schema, mode, signer, \
         damage kind, relation of the report timestamp to the stored one {older,equal,newer,future}, expiry, well-formedness, \
         outcome class, clock mode). Oracles after every delivered tx over all feeds of the run: ts non-decreasing, \
         min<=price<=max, failed tx => feed bytes unchanged, untargeted feeds unchanged, idempotent older well-formed \
         unexpired report by the feed authority => ok + returned false + unchanged"
            .into()
    }
}

#[allow(clippy::too_many_arguments)]
fn deliver(w: &mut World, d: &Dep, s: &Sent, op: &str, stranger: Pubkey, other: Pubkey, clock_mode: u64, obs: &mut Obs) {
    let authority = match s.who {
        Who::Keeper => d.keeper,
        Who::Stranger => stranger,
        Who::OtherKeeper => other,
    };
    let feed_key = d.tokens[s.target].price_feed;
    let ix: Instruction = update_feed_as_ix(d, &authority, &feed_key, s.bytes.clone(), s.idem);
    let keys: Vec<Pubkey> = d.tokens.iter().map(|t| t.price_feed).collect();
    let before: Vec<Vec<u8>> = keys.iter().map(|k| w.data(k).map(|x| x.to_vec()).unwrap_or_default()).collect();
    let before_target = feed_view_of(&before[s.target]).expect("feed account");
    let now = w.clock.unix_timestamp;
    let slot = w.clock.slot;
    let out: TxOutcome = w.process_tx(&[ix], &TxOpts::default());
    let role = match s.who {
        Who::Keeper => "keeper",
        Who::Stranger => "stranger",
        Who::OtherKeeper => "other_keeper",
    };
    let opname = if s.idem { format!("{op}_idem") } else { format!("{op}_strict") };
    obs.outcome(role, &opname, &out.class());
    let ret = returned_bool(&out);
    obs.event(|| {
        format!(
            "{opname} by {role} token={} target={} intact={} obs_ts={:?} feed_ts={} now={} -> {} ret={:?}",
            s.token,
            s.target,
            s.intact.is_some(),
            s.intact.as_ref().map(|r| r.observations_ts),
            before_target.ts,
            now,
            out_summary(&out),
            ret
        )
    });

    // ---- invariants over every feed
    for (i, k) in keys.iter().enumerate() {
        let after_bytes = w.data(k).map(|x| x.to_vec()).unwrap_or_default();
        let b = feed_view_of(&before[i]).expect("feed before");
        let a = match feed_view_of(&after_bytes) {
            Some(a) => a,
            None => {
                obs.violation("C25", "feed_account_lost", format!("ok={}", out.ok), format!("feed {i} unreadable after tx"));
                return;
            }
        };
        obs.require(
            a.ts >= b.ts,
            "C25",
            "ts_monotone",
            || format!("mode={},clock={clock_mode}", if s.idem { "idem" } else { "strict" }),
            || format!("feed {i}: ts {} -> {} (now {now})", b.ts, a.ts),
        );
        obs.require(
            a.min <= a.price && a.price <= a.max,
            "C25",
            "price_ordered",
            || format!("schema={}", d.tokens[i].schema),
            || format!("feed {i}: min={} price={} max={}", a.min, a.price, a.max),
        );
        if !out.ok {
            obs.require(
                after_bytes == before[i],
                "C25",
                "failed_update_changes_nothing",
                || format!("class={}", out.class()),
                || format!("feed {i} changed by a failed tx ({})", out_summary(&out)),
            );
        } else if i != s.target {
            obs.require(
                after_bytes == before[i],
                "C25",
                "untargeted_feed_changed",
                || "ok".to_string(),
                || format!("feed {i} changed by an update of feed {}", s.target),
            );
        }
    }
    if obs.should_stop() {
        return;
    }

    // ---- idempotent mode: an older, otherwise acceptable report is skipped without error
    let after_target = read_feed(w, &feed_key).unwrap();
    let changed = w.data(&feed_key).map(|x| x != &before[s.target][..]).unwrap_or(true);
    let mut rel = 9u64;
    let mut wf = 2u64;
    if let Some(spec) = &s.intact {
        let obs_ts = spec.observations_ts as i64;
        rel = if obs_ts < before_target.ts {
            0
        } else if obs_ts == before_target.ts {
            1
        } else if obs_ts <= now {
            2
        } else {
            3
        };
        let well_formed = report_well_formed(spec);
        wf = well_formed as u64;
        let unexpired = spec.expires_at as i64 >= now;
        let clock_ok = now >= before_target.published_at && slot >= before_target.published_slot;
        if s.idem && s.who == Who::Keeper && well_formed && unexpired && clock_ok && obs_ts < before_target.ts {
            obs.probe("idempotent_older_report");
            obs.require(
                out.ok && ret == Some(false) && !changed,
                "C25",
                "idempotent_older_skipped",
                || format!("ok={},ret={:?},changed={}", out.ok, ret, changed),
                || {
                    format!(
                        "older report (obs {} < feed ts {}) in idempotent mode: {} ret={:?} changed={}",
                        obs_ts,
                        before_target.ts,
                        out_summary(&out),
                        ret,
                        changed
                    )
                },
            );
        }
        if out.ok && changed {
            obs.probe("feed_updated");
            if rel == 3 {
                obs.probe("future_dated_accepted");
            }
            if rel == 1 {
                obs.probe("equal_ts_accepted");
            }
        }
        if out.ok && !changed && s.idem && ret == Some(false) {
            obs.probe("idempotent_skip");
        }
        if !s.idem && !out.ok && rel == 0 && s.who == Who::Keeper && well_formed && unexpired && clock_ok {
            obs.probe("strict_older_rejected");
        }
    } else if out.ok && changed {
        obs.probe("damaged_report_accepted");
    }
    if out.ok && s.who != Who::Keeper {
        obs.probe("byzantine_signer_accepted");
    }
    let _ = after_target;
    obs.fingerprint(&[
        0xC25,
        d.tokens[s.target].schema as u64,
        s.idem as u64,
        s.who as u64,
        s.intact.is_some() as u64,
        rel,
        wf,
        hash_str(&out.class()),
        clock_mode,
        mix(&[ret.map(|b| b as u64 + 1).unwrap_or(0)]),
    ]);
}
