//! Shared helpers of the oracle scenarios: cached deployments, keeper instructions for the token map and the
//! store amounts, raw views of the `PriceFeed` and `Oracle` accounts, small reference functions.

use std::collections::BTreeMap;
use std::sync::{Mutex, OnceLock};

use chainsim::deploy::{self, read_pod, store_ix, Dep, DeployOpts, TokenSpec};
use chainsim::report::ReportSpec;
use chainsim::rt::{TxOutcome, World};
use gmsol_store::states::oracle::price_map::PriceMap;
use gmsol_store::states::{Oracle, PriceFeed};
use gmsol_store::CoreError;
use serde::{Deserialize, Serialize};
use solana_program::instruction::{AccountMeta, Instruction};
use solana_program::pubkey::Pubkey;

pub const E18: i128 = 1_000_000_000_000_000_000;
pub const START_TS: i64 = 1_700_000_000;

pub fn code(e: CoreError) -> u32 {
    e.into()
}

/// Token description that is part of a plan (serde) — mirrors `chainsim::deploy::TokenSpec`.
#[derive(Clone, Debug, Serialize, Deserialize, PartialEq, Eq)]
pub struct Tok {
    pub decimals: u8,
    pub precision: u8,
    pub synthetic: bool,
    pub schema: u16,
    pub heartbeat: u32,
}

const NAMES: [&str; 8] = ["T0", "T1", "T2", "T3", "T4", "T5", "T6", "T7"];

static CACHE: OnceLock<Mutex<BTreeMap<String, (World, Dep)>>> = OnceLock::new();

/// A freshly deployed world for the given tokens / markets (cached per configuration; the cached value is a
/// deterministic function of the key).
pub fn world_for(tokens: &[Tok], markets: &[(usize, usize, usize)], n_users: usize) -> (World, Dep) {
    deploy::init_thread();
    let key = format!("{tokens:?}|{markets:?}|{n_users}");
    let cache = CACHE.get_or_init(|| Mutex::new(BTreeMap::new()));
    if let Some(v) = cache.lock().unwrap().get(&key) {
        return v.clone();
    }
    let mut w = World::new(START_TS, 1000);
    let opts = DeployOpts {
        tokens: tokens
            .iter()
            .enumerate()
            .map(|(i, t)| TokenSpec {
                name: NAMES[i % NAMES.len()],
                decimals: t.decimals,
                precision: t.precision,
                synthetic: t.synthetic,
                schema: t.schema,
                heartbeat: t.heartbeat,
            })
            .collect(),
        markets: markets.to_vec(),
        n_users,
        user_token_amount: 1_000_000_000_000_000,
        start_ts: START_TS,
        start_slot: 1000,
    };
    let d = deploy::deploy_full(&mut w, &opts);
    let v = (w, d);
    // bounded: configurations are swarm-drawn, so the number of distinct keys is large in long batches
    let mut c = cache.lock().unwrap();
    if c.len() < 384 {
        c.entry(key).or_insert_with(|| v.clone());
    }
    drop(c);
    v
}

// ------------------------------------------------------------------------------------------- plan serialisation

/// 128-bit integers of a plan are written as decimal strings (`serde_json::Value` cannot hold them).
pub mod s128 {
    use serde::{Deserialize, Deserializer, Serializer};
    use std::fmt::Display;
    use std::str::FromStr;

    pub fn serialize<T: Display, S: Serializer>(v: &T, s: S) -> Result<S::Ok, S::Error> {
        s.collect_str(v)
    }
    pub fn deserialize<'de, T: FromStr, D: Deserializer<'de>>(d: D) -> Result<T, D::Error>
    where
        T::Err: Display,
    {
        let s = String::deserialize(d)?;
        s.parse::<T>().map_err(serde::de::Error::custom)
    }

    pub mod opt {
        use super::*;
        pub fn serialize<T: Display, S: Serializer>(v: &Option<T>, s: S) -> Result<S::Ok, S::Error> {
            match v {
                Some(x) => s.serialize_some(&x.to_string()),
                None => s.serialize_none(),
            }
        }
        pub fn deserialize<'de, T: FromStr, D: Deserializer<'de>>(d: D) -> Result<Option<T>, D::Error>
        where
            T::Err: Display,
        {
            let s = Option::<String>::deserialize(d)?;
            s.map(|x| x.parse::<T>().map_err(serde::de::Error::custom)).transpose()
        }
    }

    pub mod vec {
        use super::*;
        use serde::ser::SerializeSeq;
        pub fn serialize<T: Display, S: Serializer>(v: &[T], s: S) -> Result<S::Ok, S::Error> {
            let mut seq = s.serialize_seq(Some(v.len()))?;
            for x in v {
                seq.serialize_element(&x.to_string())?;
            }
            seq.end()
        }
        pub fn deserialize<'de, T: FromStr, D: Deserializer<'de>>(d: D) -> Result<Vec<T>, D::Error>
        where
            T::Err: Display,
        {
            let s = Vec::<String>::deserialize(d)?;
            s.into_iter().map(|x| x.parse::<T>().map_err(serde::de::Error::custom)).collect()
        }
    }

    pub mod optvec {
        use super::*;
        pub fn serialize<T: Display, S: Serializer>(v: &Option<Vec<T>>, s: S) -> Result<S::Ok, S::Error> {
            match v {
                Some(x) => s.serialize_some(&x.iter().map(|y| y.to_string()).collect::<Vec<_>>()),
                None => s.serialize_none(),
            }
        }
        pub fn deserialize<'de, T: FromStr, D: Deserializer<'de>>(d: D) -> Result<Option<Vec<T>>, D::Error>
        where
            T::Err: Display,
        {
            let s = Option::<Vec<String>>::deserialize(d)?;
            s.map(|v| v.into_iter().map(|x| x.parse::<T>().map_err(serde::de::Error::custom)).collect()).transpose()
        }
    }
}

// ------------------------------------------------------------------------------------------- keeper ixs

pub fn insert_amount_ix(d: &Dep, key: &str, amount: u64) -> Instruction {
    store_ix(
        gmsol_store::accounts::InsertConfig { authority: d.keeper, store: d.store },
        gmsol_store::instruction::InsertAmount { key: key.to_string(), amount },
    )
}

pub fn insert_amount_as_ix(d: &Dep, authority: &Pubkey, key: &str, amount: u64) -> Instruction {
    store_ix(
        gmsol_store::accounts::InsertConfig { authority: *authority, store: d.store },
        gmsol_store::instruction::InsertAmount { key: key.to_string(), amount },
    )
}

pub fn set_feed_config_ix(
    d: &Dep,
    token: &Pubkey,
    provider: u8,
    feed: Option<Pubkey>,
    timestamp_adjustment: Option<u32>,
    max_deviation_factor: Option<u128>,
) -> Instruction {
    store_ix(
        gmsol_store::accounts::SetFeedConfig { authority: d.keeper, store: d.store, token_map: d.token_map },
        gmsol_store::instruction::SetFeedConfigV2 {
            token: *token,
            provider,
            feed,
            timestamp_adjustment,
            max_deviation_factor,
        },
    )
}

pub fn toggle_token_ix(d: &Dep, token: &Pubkey, enable: bool) -> Instruction {
    store_ix(
        gmsol_store::accounts::ToggleTokenConfig { authority: d.keeper, store: d.store, token_map: d.token_map },
        gmsol_store::instruction::ToggleTokenConfig { token: *token, enable },
    )
}

pub fn toggle_adjustment_ix(d: &Dep, token: &Pubkey, enable: bool) -> Instruction {
    store_ix(
        gmsol_store::accounts::ToggleTokenConfig { authority: d.keeper, store: d.store, token_map: d.token_map },
        gmsol_store::instruction::ToggleTokenPriceAdjustment { token: *token, enable },
    )
}

pub fn set_status_flag_ix(d: &Dep, token: &Pubkey, provider: u8, flag: u8, enable: bool) -> Instruction {
    store_ix(
        gmsol_store::accounts::SetFeedConfigMarketStatusFlag {
            authority: d.keeper,
            store: d.store,
            token_map: d.token_map,
            token: *token,
        },
        gmsol_store::instruction::SetFeedConfigMarketStatusFlag { provider, flag, enable },
    )
}

pub fn set_expected_provider_ix(d: &Dep, token: &Pubkey, provider: u8) -> Instruction {
    store_ix(
        gmsol_store::accounts::SetExpectedProvider { authority: d.keeper, store: d.store, token_map: d.token_map },
        gmsol_store::instruction::SetExpectedProvider { token: *token, provider },
    )
}

pub fn set_prices_ix(d: &Dep, tokens: &[Pubkey], feeds: &[Pubkey]) -> Instruction {
    let mut ix = store_ix(
        gmsol_store::accounts::SetPricesFromPriceFeed {
            authority: d.keeper,
            store: d.store,
            oracle: d.oracle,
            token_map: d.token_map,
            chainlink_program: None,
        },
        gmsol_store::instruction::SetPricesFromPriceFeed { tokens: tokens.to_vec() },
    );
    for f in feeds {
        ix.accounts.push(AccountMeta::new_readonly(*f, false));
    }
    ix
}

pub fn clear_prices_ix(d: &Dep) -> Instruction {
    store_ix(
        gmsol_store::accounts::ClearAllPrices { authority: d.keeper, store: d.store, oracle: d.oracle },
        gmsol_store::instruction::ClearAllPrices {},
    )
}

/// `initialize_price_feed` by an arbitrary authority (look-alike feeds).
pub fn init_feed_ix(d: &Dep, authority: &Pubkey, index: u16, provider: u8, token: &Pubkey, feed_id: [u8; 32]) -> (Instruction, Pubkey) {
    let pf = deploy::price_feed_of(&d.store, authority, index, provider, token);
    let ix = store_ix(
        gmsol_store::accounts::InitializePriceFeed {
            authority: *authority,
            store: d.store,
            price_feed: pf,
            system_program: solana_program::system_program::ID,
        },
        gmsol_store::instruction::InitializePriceFeed { index, provider, token: *token, feed_id: Pubkey::new_from_array(feed_id) },
    );
    (ix, pf)
}

pub fn grant_role_ix(d: &Dep, user: &Pubkey, role: &str) -> Instruction {
    store_ix(
        gmsol_store::accounts::GrantRole { authority: d.admin, store: d.store },
        gmsol_store::instruction::GrantRole { user: *user, role: role.to_string() },
    )
}

/// `update_price_feed_with_chainlink(_idempotent)` for an arbitrary feed account and authority.
pub fn update_feed_as_ix(d: &Dep, authority: &Pubkey, price_feed: &Pubkey, compressed_report: Vec<u8>, idempotent: bool) -> Instruction {
    let accounts = gmsol_store::accounts::UpdatePriceFeedWithChainlink {
        authority: *authority,
        store: d.store,
        verifier_account: d.verifier_account,
        access_controller: d.access_controller,
        config_account: d.store_wallet,
        price_feed: *price_feed,
        chainlink: gmsol_mock_chainlink_verifier_id(),
    };
    if idempotent {
        store_ix(accounts, gmsol_store::instruction::UpdatePriceFeedWithChainlinkIdempotent { compressed_report })
    } else {
        store_ix(accounts, gmsol_store::instruction::UpdatePriceFeedWithChainlink { compressed_report })
    }
}

pub fn gmsol_mock_chainlink_verifier_id() -> Pubkey {
    // The id of the mock verifier program (`declare_id!` in programs/mock-chainlink-verifier).
    gmsol_chainlink_datastreams::mock::ID
}

// ------------------------------------------------------------------------------------------- account views

/// Raw view of a `PriceFeed` account (private fields read at their `repr(C)` offsets; the public getters are
/// cross-checked on every read).
#[derive(Clone, Debug, PartialEq, Eq)]
pub struct FeedView {
    pub provider: u8,
    pub authority: Pubkey,
    pub token: Pubkey,
    pub feed_id: Pubkey,
    pub published_slot: u64,
    pub published_at: i64,
    pub decimals: u8,
    pub flags: u8,
    pub status: u8,
    pub last_update_diff: u32,
    pub ts: i64,
    pub price: u128,
    pub min: u128,
    pub max: u128,
}

fn rd<const N: usize>(d: &[u8], at: usize) -> [u8; N] {
    d[at..at + N].try_into().unwrap()
}

pub fn feed_view_of(data: &[u8]) -> Option<FeedView> {
    if data.len() < 8 + std::mem::size_of::<PriceFeed>() {
        return None;
    }
    assert_eq!(std::mem::size_of::<PriceFeed>(), 480, "PriceFeed layout changed");
    let d = &data[8..];
    let v = FeedView {
        provider: d[1],
        authority: Pubkey::new_from_array(rd(d, 48)),
        token: Pubkey::new_from_array(rd(d, 80)),
        feed_id: Pubkey::new_from_array(rd(d, 112)),
        published_slot: u64::from_le_bytes(rd(d, 144)),
        published_at: i64::from_le_bytes(rd(d, 152)),
        decimals: d[160],
        flags: d[161],
        status: d[162],
        last_update_diff: u32::from_le_bytes(rd(d, 164)),
        ts: i64::from_le_bytes(rd(d, 168)),
        price: u128::from_le_bytes(rd(d, 176)),
        min: u128::from_le_bytes(rd(d, 192)),
        max: u128::from_le_bytes(rd(d, 208)),
    };
    // cross-check the offsets against the public getters
    let pf: PriceFeed = chainsim::deploy::read_pod_bytes(data)?;
    assert!(
        pf.price().ts() == v.ts
            && *pf.price().price() == v.price
            && *pf.price().min_price() == v.min
            && *pf.price().max_price() == v.max
            && pf.last_published_at_slot() == v.published_slot
            && *pf.feed_id() == v.feed_id
            && pf.authority == v.authority,
        "PriceFeed offsets out of date"
    );
    Some(v)
}

pub fn read_feed(w: &World, k: &Pubkey) -> Option<FeedView> {
    feed_view_of(w.data(k)?)
}

#[derive(Clone, Debug, PartialEq, Eq)]
pub struct StoredPrice {
    pub min: u32,
    pub max: u32,
    pub min_multiplier: u8,
    pub max_multiplier: u8,
    pub is_open: bool,
    pub is_synthetic: bool,
}

#[derive(Clone)]
pub struct OracleView {
    pub cleared: bool,
    pub min_ts: i64,
    pub max_ts: i64,
    pub min_slot: Option<u64>,
    pub n_prices: usize,
    map: Box<PriceMap>,
}

impl OracleView {
    pub fn price(&self, token: &Pubkey) -> Option<StoredPrice> {
        self.map.get(token).map(|p| StoredPrice {
            min: p.min().value,
            max: p.max().value,
            min_multiplier: p.min().decimal_multiplier,
            max_multiplier: p.max().decimal_multiplier,
            is_open: p.is_open(),
            is_synthetic: p.is_synthetic(),
        })
    }
}

const ORACLE_MAP_OFFSET: usize = 96;

pub fn read_oracle(w: &World, d: &Dep) -> OracleView {
    let o: Oracle = read_pod(w, &d.oracle).expect("oracle account");
    let n = std::mem::size_of::<PriceMap>();
    assert_eq!(std::mem::size_of::<Oracle>(), ORACLE_MAP_OFFSET + n + 4 + 256, "Oracle layout changed");
    let data = w.data(&d.oracle).unwrap();
    let map: PriceMap = bytemuck::pod_read_unaligned(&data[8 + ORACLE_MAP_OFFSET..8 + ORACLE_MAP_OFFSET + n]);
    let raw_min_ts = i64::from_le_bytes(rd(&data[8..], 72));
    assert_eq!(raw_min_ts, o.min_oracle_ts(), "Oracle offsets out of date");
    OracleView {
        cleared: o.is_cleared(),
        min_ts: o.min_oracle_ts(),
        max_ts: o.max_oracle_ts(),
        min_slot: o.min_oracle_slot(),
        n_prices: map.len(),
        map: Box::new(map),
    }
}

/// Cheap check used after every executing instruction.
pub fn oracle_is_cleared(w: &World, d: &Dep) -> (bool, usize) {
    let v = read_oracle(w, d);
    (v.cleared, v.n_prices)
}

// ------------------------------------------------------------------------------------------- reports

/// A report described relative to the clock at submission time, so that a plan stays meaningful under shrinking.
#[derive(Clone, Debug, Serialize, Deserialize, PartialEq, Eq)]
pub struct RelReport {
    /// observations_ts = now + obs_off (clamped to u32).
    pub obs_off: i64,
    /// expires_at = now + exp_off (clamped to u32).
    pub exp_off: i64,
    #[serde(with = "s128")]
    pub price: i128,
    #[serde(with = "s128")]
    pub bid: i128,
    #[serde(with = "s128")]
    pub ask: i128,
    pub status: u32,
    /// last update = observations_ts·10⁹ − lu_back_ns (negative: in the future of the observation).
    #[serde(with = "s128")]
    pub lu_back_ns: i128,
}

pub fn clamp_u32(x: i128) -> u32 {
    x.clamp(0, u32::MAX as i128) as u32
}

impl RelReport {
    pub fn to_spec(&self, schema: u16, feed_id: [u8; 32], now: i64) -> ReportSpec {
        let obs = clamp_u32(now as i128 + self.obs_off as i128);
        let lu = (obs as i128 * 1_000_000_000 - self.lu_back_ns).clamp(0, u64::MAX as i128) as u64;
        ReportSpec {
            schema,
            feed_id,
            valid_from: obs,
            observations_ts: obs,
            expires_at: clamp_u32(now as i128 + self.exp_off as i128),
            price: self.price,
            bid: self.bid,
            ask: self.ask,
            market_status: self.status,
            last_update_ns: lu,
        }
    }
}

/// Is the report well-formed for the conversion into a feed price (reference predicate from the statement of C28 /
/// the documented behaviour of the conversion)?
pub fn report_well_formed(r: &ReportSpec) -> bool {
    let (bid, mid, ask) = r.effective_prices();
    if bid < 0 || mid < 0 || ask < 0 || bid > mid || mid > ask {
        return false;
    }
    match r.schema {
        8 => {
            if r.market_status > 2 {
                return false;
            }
        }
        11 => {
            if r.market_status > 5 {
                return false;
            }
        }
        _ => {}
    }
    if r.has_last_update() {
        let obs_ns = r.observations_ts as i128 * 1_000_000_000;
        if r.last_update_ns as i128 - obs_ns >= 1_000_000_000 {
            return false;
        }
    }
    true
}

/// `ceil((obs·10⁹ − last_update)/10⁹)` as documented for the stored last-update difference (0 when the last
/// update is less than one second ahead of the observation).
pub fn last_update_diff_secs(r: &ReportSpec) -> Option<i128> {
    if !r.has_last_update() {
        return None;
    }
    let obs_ns = r.observations_ts as i128 * 1_000_000_000;
    let back = obs_ns - r.last_update_ns as i128;
    Some(if back <= 0 { 0 } else { (back + 999_999_999) / 1_000_000_000 })
}

pub fn out_summary(out: &TxOutcome) -> String {
    format!("{} panic={:?} rule={:?}", out.class(), out.panic, out.runtime_rule)
}

/// The boolean an instruction returned through return data (Anchor borsh `bool`).
pub fn returned_bool(out: &TxOutcome) -> Option<bool> {
    match &out.return_data {
        Some((pid, data)) if *pid == gmsol_store::ID && data.len() == 1 => Some(data[0] != 0),
        _ => None,
    }
}
