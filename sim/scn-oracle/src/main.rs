fn main() {
    let out = chainsim::rt::silence_stdout();
    simcore::out::set_output(out);
    simcore::cli_main(&scn_oracle::registry, scn_oracle::PROPERTIES)
}
