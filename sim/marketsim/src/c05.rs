//! C05 — a swap never pays out more value than it takes in, beyond capped impact.
//!
//! Oracle `swap_overpays` (per successful swap report), big-integer arithmetic:
//!
//! ```text
//! out × p_out.max  ≤  in × p_in.min  +  funded
//! funded = max(0, −Δ swap_impact[token_out]) × p_out.max  +  max(0, −Δ swap_impact[token_in]) × p_in.max
//! ```
//!
//! `funded` is the USD value of what actually left the two swap-impact pools, read from the pool deltas (not
//! from the report). Tokens leaving the token-out impact pool are part of the payout and are valued like the
//! payout (`p_out.max`). Tokens leaving the token-in impact pool (the "capped diff") are added to the amount that
//! is converted; the statement does not say at which price "the positive impact actually funded" is valued, so
//! the most generous price (`p_in.max`) is used: the check can only be weaker than any reading of the statement.
//! (The code satisfies the tighter bound with `p_in.min`; the number of swaps where only the generous bound
//! separates is counted by the reach probe `c05_generous_bound_needed`, which must stay 0.)
//!
//! Oracle `swap_exact_conversion`: when the report shows zero fees and zero price impact,
//! `out == floor(in × p_in.min / p_out.max)`.

use num_bigint::BigUint;
use num_traits::Zero;
use simcore::Obs;

use crate::refmath::bu;
use crate::world::{Report, StepOutcome, World, P_SWAP_IMPACT};

pub fn after_step(w: &World, out: &StepOutcome, obs: &mut Obs) {
    if out.op != "swap" || !out.ok {
        return;
    }
    let (Report::Swap(rep), Some(pre)) = (&out.report, &out.swap_pre) else {
        return;
    };
    let post = &w.market.st;
    let li = out.swap_long_in;
    let (p_in, p_out) = if li {
        (out.prices.long_token_price, out.prices.short_token_price)
    } else {
        (out.prices.short_token_price, out.prices.long_token_price)
    };
    let amount_in = *rep.params().token_in_amount();
    let amount_out = *rep.token_out_amount();
    let dec = |is_long: bool| -> u128 {
        pre.pools[P_SWAP_IMPACT]
            .amount(is_long)
            .saturating_sub(post.pools[P_SWAP_IMPACT].amount(is_long))
    };
    let dec_in = dec(li);
    let dec_out = dec(!li);
    let lhs = bu(amount_out) * bu(p_out.max);
    let base = bu(amount_in) * bu(p_in.min);
    let funded_generous = bu(dec_out) * bu(p_out.max) + bu(dec_in) * bu(p_in.max);
    let funded_tight = bu(dec_out) * bu(p_out.max) + bu(dec_in) * bu(p_in.min);
    if lhs > &base + &funded_tight && lhs <= &base + &funded_generous {
        obs.probe("c05_generous_bound_needed");
    }
    if !funded_generous.is_zero() {
        obs.probe("c05_funded_by_impact_pool");
    }
    obs.require(
        lhs <= &base + &funded_generous,
        "C05",
        "swap_overpays",
        || {
            format!(
                "long_in={li},funded={},spread_in={},spread_out={}",
                !funded_generous.is_zero(),
                p_in.min != p_in.max,
                p_out.min != p_out.max
            )
        },
        || {
            format!(
                "out={amount_out} p_out.max={} in={amount_in} p_in.min={} impact_pool_decrease(in,out)=({dec_in},{dec_out}) out_value={lhs} in_value+funded={}",
                p_out.max,
                p_in.min,
                &base + &funded_generous
            )
        },
    );
    let fees = rep.token_in_fees();
    if fees.fee_amount_for_pool().is_zero() && fees.fee_amount_for_receiver().is_zero() && *rep.price_impact() == 0 {
        obs.probe("c05_zero_fee_zero_impact_swap");
        let expect: BigUint = if p_out.max == 0 {
            BigUint::zero()
        } else {
            bu(amount_in) * bu(p_in.min) / bu(p_out.max)
        };
        obs.require(
            bu(amount_out) == expect,
            "C05",
            "swap_exact_conversion",
            || format!("long_in={li}"),
            || format!("out={amount_out} expected floor({amount_in}×{}/{})={expect}", p_in.min, p_out.max),
        );
    }
}
