//! Independent big-integer reference arithmetic (no call into `gmsol-model`).

use num_bigint::{BigInt, BigUint};
use num_traits::{Signed, ToPrimitive, Zero};

use crate::num::UNIT;

pub fn bu(x: u128) -> BigUint {
    BigUint::from(x)
}
pub fn bi(x: u128) -> BigInt {
    BigInt::from(x)
}
pub fn bs(x: i128) -> BigInt {
    BigInt::from(x)
}

/// floor(value * factor / 10^20)
pub fn apply_factor(value: &BigUint, factor: u128) -> BigUint {
    value * bu(factor) / bu(UNIT)
}

pub fn fits_u128(x: &BigUint) -> bool {
    x.to_u128().is_some()
}

/// Reference fee computation of one fee-bearing amount.
#[derive(Clone, Debug, PartialEq, Eq)]
pub struct RefFees {
    pub fee: BigUint,
    pub receiver: BigUint,
    pub pool: BigUint,
    pub net: BigUint,
}

/// `fee = floor(a*f) - floor(floor(a*f)*d)`, `receiver = floor(fee*r)`, `pool = fee - receiver`, `net = a - fee`.
/// `None` when any of the subtractions would go negative (the computation must fail) or an intermediate does not
/// fit `u128`.
pub fn ref_fees(amount: u128, factor: u128, discount: u128, receiver_factor: u128) -> Option<RefFees> {
    let a = bu(amount);
    let gross_fee = apply_factor(&a, factor);
    if !fits_u128(&gross_fee) {
        return None;
    }
    let disc = apply_factor(&gross_fee, discount);
    if !fits_u128(&disc) || disc > gross_fee {
        return None;
    }
    let fee = &gross_fee - &disc;
    let receiver = apply_factor(&fee, receiver_factor);
    if !fits_u128(&receiver) || receiver > fee {
        return None;
    }
    if fee > a {
        return None;
    }
    Some(RefFees {
        pool: &fee - &receiver,
        net: &a - &fee,
        fee,
        receiver,
    })
}

/// `x^k` in 20-decimals fixed point exactly as a repeated truncating multiplication (`k` = exponent / 10^20, only
/// for unit-multiple exponents). `None` if an intermediate exceeds `u128` (the code fails with `PowComputation`).
pub fn pow_fixed_int(x: u128, k: u32) -> Option<BigUint> {
    let mut ans = bu(UNIT);
    for _ in 0..k {
        ans = ans * bu(x) / bu(UNIT);
        if !fits_u128(&ans) {
            return None;
        }
    }
    Some(ans)
}

/// `factor * value^exponent` as `utils::apply_factors` documents it (values below one unit contribute zero).
/// `None`: not computable here (non unit-multiple exponent, or overflow which makes the code fail).
pub fn apply_factors(value: u128, factor: u128, exponent: u128) -> Option<BigUint> {
    let powered: BigUint = if value < UNIT {
        BigUint::zero()
    } else if value == UNIT {
        bu(UNIT)
    } else if exponent == 0 {
        bu(UNIT)
    } else if exponent == UNIT {
        bu(value)
    } else {
        if exponent % UNIT != 0 {
            return None;
        }
        let k = exponent / UNIT;
        if k > 8 {
            return None;
        }
        pow_fixed_int(value, k as u32)?
    };
    let r = powered * bu(factor) / bu(UNIT);
    if fits_u128(&r) {
        Some(r)
    } else {
        None
    }
}

#[derive(Clone, Copy, Debug, PartialEq, Eq)]
pub enum Change {
    Improved,
    Worsened,
    Unchanged,
}

#[derive(Clone, Debug)]
pub struct RefImpact {
    pub initial_diff: BigUint,
    pub next_diff: BigUint,
    pub change: Change,
    pub cross_over: bool,
    /// Exact reference impact value when computable (unit-multiple exponent, no overflow).
    pub value: Option<BigInt>,
}

/// Price impact of moving a two-sided USD balance from `(long0, short0)` by `(dl, ds)`, with the *capped* positive
/// factor `min(pf, nf)`. Returns `None` if the next balance would be negative (the code rejects it).
pub fn ref_price_impact(
    long0: &BigUint,
    short0: &BigUint,
    dl: &BigInt,
    ds: &BigInt,
    pf: u128,
    nf: u128,
    exponent: u128,
) -> Option<RefImpact> {
    let l0 = BigInt::from(long0.clone());
    let s0 = BigInt::from(short0.clone());
    let l1 = &l0 + dl;
    let s1 = &s0 + ds;
    if l1.is_negative() || s1.is_negative() {
        return None;
    }
    let initial = (&l0 - &s0).abs().to_biguint().unwrap();
    let next = (&l1 - &s1).abs().to_biguint().unwrap();
    let change = if next == initial {
        Change::Unchanged
    } else if next > initial {
        Change::Worsened
    } else {
        Change::Improved
    };
    let same_side = (l0 <= s0) == (l1 <= s1);
    let pf = pf.min(nf);
    let value = (|| {
        let i = initial.to_u128()?;
        let n = next.to_u128()?;
        if same_side {
            let positive = n < i;
            let f = if positive { pf } else { nf };
            let a = BigInt::from(apply_factors(i, f, exponent)?);
            let b = BigInt::from(apply_factors(n, f, exponent)?);
            let d = (&a - &b).abs();
            Some(if positive { d } else { -d })
        } else {
            let p = BigInt::from(apply_factors(i, pf, exponent)?);
            let q = BigInt::from(apply_factors(n, nf, exponent)?);
            Some(p - q)
        }
    })();
    Some(RefImpact {
        initial_diff: initial,
        next_diff: next,
        change,
        cross_over: !same_side,
        value,
    })
}

pub fn mid(min: u128, max: u128) -> u128 {
    // same as Price::checked_mid: (min + max) / 2
    ((bu(min) + bu(max)) / bu(2)).to_u128().unwrap_or(u128::MAX)
}
