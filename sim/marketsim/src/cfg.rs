//! Swarm configuration of a run (fully concrete, serde) and plan steps.

use serde::{Deserialize, Serialize};

use crate::num::{I, U};

#[derive(Clone, Debug, Serialize, Deserialize, PartialEq)]
pub struct ImpactCfg {
    pub exponent: U,
    pub positive_factor: U,
    pub negative_factor: U,
}

#[derive(Clone, Debug, Serialize, Deserialize, PartialEq)]
pub struct FeeCfg {
    pub positive_impact_fee_factor: U,
    pub negative_impact_fee_factor: U,
    pub receiver_factor: U,
    /// Discount factor baked into the params returned by the market (orders get it per step instead).
    pub discount_factor: Option<U>,
}

#[derive(Clone, Debug, Serialize, Deserialize, PartialEq)]
pub struct PositionCfg {
    pub min_position_size_usd: U,
    pub min_collateral_value: U,
    pub min_collateral_factor: U,
    pub min_collateral_factor_for_liquidation: Option<U>,
    pub max_positive_position_impact_factor: U,
    pub max_negative_position_impact_factor: U,
    pub max_position_impact_factor_for_liquidations: U,
}

#[derive(Clone, Debug, Serialize, Deserialize, PartialEq)]
pub struct BorrowingCfg {
    pub receiver_factor: U,
    pub exponent_for_long: U,
    pub exponent_for_short: U,
    pub factor_for_long: U,
    pub factor_for_short: U,
    pub skip_borrowing_fee_for_smaller_side: bool,
    /// Kink model (optimal usage factor 0 disables it): (optimal, base, above) per side.
    pub kink_long: [U; 3],
    pub kink_short: [U; 3],
}

#[derive(Clone, Debug, Serialize, Deserialize, PartialEq)]
pub struct FundingCfg {
    pub exponent: U,
    pub funding_factor: U,
    pub increase_factor_per_second: U,
    pub decrease_factor_per_second: U,
    pub max_factor_per_second: U,
    pub min_factor_per_second: U,
    pub threshold_for_stable_funding: U,
    pub threshold_for_decrease_funding: U,
}

#[derive(Clone, Debug, Serialize, Deserialize, PartialEq)]
pub struct MarketCfg {
    pub swap_impact: ImpactCfg,
    pub swap_fee: FeeCfg,
    pub position: PositionCfg,
    pub position_impact: ImpactCfg,
    pub order_fee: FeeCfg,
    pub distribute_factor: U,
    pub min_position_impact_pool_amount: U,
    pub borrowing: BorrowingCfg,
    pub funding: FundingCfg,
    pub reserve_factor: U,
    pub open_interest_reserve_factor: U,
    /// deposit, withdrawal, trader, adl, min-after-adl
    pub pnl_factors: [U; 5],
    pub max_pool_amount: [U; 2],
    pub max_pool_value_for_deposit: [U; 2],
    pub max_open_interest: [U; 2],
    pub min_collateral_factor_for_oi_multiplier: [U; 2],
    pub ignore_open_interest_for_usage_factor: bool,
    pub liquidation_fee_factor: U,
    pub liquidation_fee_receiver_factor: U,
    pub usd_to_amount_divisor: U,
    pub funding_amount_per_size_adjustment: U,
    /// Initial (long, short) amounts of the virtual inventory for swaps, `None` = not configured.
    pub vi_swaps: Option<[U; 2]>,
    /// Initial (long, short) amounts of the virtual inventory for positions.
    pub vi_positions: Option<[U; 2]>,
}

#[derive(Clone, Copy, Debug, Serialize, Deserialize, PartialEq)]
pub struct PriceCfg {
    pub min: U,
    pub max: U,
}

#[derive(Clone, Copy, Debug, Serialize, Deserialize, PartialEq)]
pub struct PricesCfg {
    pub index: PriceCfg,
    pub long: PriceCfg,
    pub short: PriceCfg,
}

#[derive(Clone, Debug, Serialize, Deserialize)]
pub struct Cfg {
    /// Property the run was generated for (biases the op mix; oracles of every property still run).
    pub focus: String,
    /// "plain" | "faults" | "misconfig"
    pub batch: String,
    /// Fault steps are present in the plan (fault-injecting sub-batch).
    pub faults_enabled: bool,
    /// Invalid parameter values were drawn on purpose (misconfiguration sub-batch).
    pub misconfig: bool,
    /// C04 fault enumeration on every swap step.
    pub enumerate_swap_faults: bool,
    /// Like the store: distribute impact + update borrowing + update funding before deposits, withdrawals and
    /// orders, update borrowing before swaps (inside the same transaction).
    pub settle_before_ops: bool,
    pub n_lps: u8,
    pub n_positions: u8,
    pub market: MarketCfg,
    pub init_prices: PricesCfg,
    pub init_now: i64,
}

#[derive(Clone, Debug, Serialize, Deserialize, PartialEq)]
pub enum ProbeKind {
    /// C06: fork, settle fee state, deposit (long, short), withdraw everything minted, same prices and time.
    LpRoundTrip { long_amount: U, short_amount: U },
    /// C03(b): impact of token deltas on the liquidity pool plus impact of the exact reverse on the result.
    ImpactRoundTrip { long_delta: I, short_delta: I },
    /// C03(b) for positions: `position_price_impact(+size)` then `(-size)` on the resulting open interest.
    PositionImpactRoundTrip { pos: u8, size_usd: U },
    /// C02: same increase order forked with discount 0 and `discount`.
    Discount { pos: u8, collateral: U, size_usd: U, discount: U },
    /// C02: `FeeParams::apply_fees` / `fee` called directly on the configured params objects with this amount
    /// (in addition to the amounts of real operations) and `position_fees(.., is_liquidation = true)` on a live
    /// position.
    FeesDirect { amount: U, discount: U, pos: u8 },
    /// C14: fork twice; distribute after `t1` then after `t2` more seconds vs. once after `t1 + t2`.
    SplitDistribution { t1: u32, t2: u32 },
    /// C10: fork; open a fresh position `(size, collateral)` and fully close it at the same prices and time.
    OpenClose { is_long: bool, collateral_long: bool, collateral: U, size_usd: U },
    /// C11: fork a live position: full close at the current index price and at the index price scaled by
    /// `(10000 + bump_bps) / 10000`, and a partial close of `partial_bps / 10000`.
    PnlDirection { pos: u8, bump_bps: u32, partial_bps: u32 },
}

#[derive(Clone, Debug, Serialize, Deserialize, PartialEq)]
pub enum Step {
    /// Advance the simulated clock (0 = stall; negative = regress, only in dedicated runs).
    Advance { seconds: i64 },
    SetPrices { prices: PricesCfg },
    Deposit { lp: u8, long_amount: U, short_amount: U },
    /// Burn `bps/10000` of the LP's market tokens.
    Withdraw { lp: u8, bps: u32 },
    Swap { long_in: bool, amount: U },
    Increase { pos: u8, collateral: U, size_usd: U, acceptable: Option<U>, discount: Option<U> },
    Decrease {
        pos: u8,
        /// Size delta as a fraction of the current size in 1/10000 (may exceed 10000: needs `cap`).
        size_bps: u32,
        collateral_withdrawal: U,
        liquidation: bool,
        insolvent_ok: bool,
        cap: bool,
        /// 0 no swap, 1 pnl token -> collateral token, 2 collateral -> pnl token
        swap: u8,
        acceptable: Option<U>,
        discount: Option<U>,
    },
    UpdateFunding,
    UpdateBorrowing,
    DistributeImpact,
    /// Fee receiver claims everything in the claimable fee pool.
    ClaimFees,
    /// Fail the k-th fallible call of the next operation.
    Fault { k: u32 },
    Probe { kind: ProbeKind },
}
