//! Swarm configuration and plan generation. Every random choice is drawn here, from streams derived from
//! `(seed, run, stream)`; execution never draws.

use simcore::{Rng, Tier};

use crate::cfg::*;
use crate::num::{FUNDING_ADJUSTMENT, I, U, UNIT, USD_TO_AMOUNT_DIVISOR};

const SECONDS_PER_YEAR: u128 = 365 * 24 * 3600;

fn pct(x: u128) -> u128 {
    UNIT / 100 * x
}

/// Generation-time picture of the token prices (unit prices, 20 decimals).
#[derive(Clone, Copy, Debug)]
struct PriceWalk {
    long_mid: u128,
    short_mid: u128,
    index_mid: u128,
    index_is_long: bool,
    spread_bps_long: u32,
    spread_bps_short: u32,
    spread_bps_index: u32,
}

fn with_spread(mid: u128, bps: u32) -> PriceCfg {
    let half = mid / 20_000 * bps as u128;
    let min = mid.saturating_sub(half).max(1);
    let max = mid.saturating_add(half).max(min);
    PriceCfg { min: U(min), max: U(max) }
}

impl PriceWalk {
    fn prices(&self) -> PricesCfg {
        let long = with_spread(self.long_mid, self.spread_bps_long);
        let index = if self.index_is_long {
            long
        } else {
            with_spread(self.index_mid, self.spread_bps_index)
        };
        PricesCfg {
            index,
            long,
            short: with_spread(self.short_mid, self.spread_bps_short),
        }
    }

    fn step(&mut self, rng: &mut Rng) {
        let mv = |rng: &mut Rng, mid: u128, scale_bps: u64| -> u128 {
            // relative move in 1/100 bps, symmetric
            let mag = rng.log_u64(scale_bps * 100) as u128;
            let d = mid / 1_000_000 * mag;
            let jump = rng.chance(3, 100);
            let r = if rng.bool() { mid.saturating_add(d) } else { mid.saturating_sub(d) };
            let r = if jump {
                if rng.bool() {
                    r / 100 * rng.range(40, 95) as u128
                } else {
                    r / 100 * rng.range(105, 220) as u128
                }
            } else {
                r
            };
            r.max(1000)
        };
        self.long_mid = mv(rng, self.long_mid, 500);
        if self.index_is_long {
            self.index_mid = self.long_mid;
        } else {
            self.index_mid = mv(rng, self.index_mid, 500);
        }
        if rng.chance(1, 4) {
            self.short_mid = mv(rng, self.short_mid, 20);
        }
        if rng.chance(1, 10) {
            self.spread_bps_long = *rng.pick(&[0u32, 1, 10, 100, 500]);
        }
    }
}

fn usd_to_tokens(usd_scaled: u128, unit_price: u128) -> u128 {
    if unit_price == 0 {
        0
    } else {
        usd_scaled / unit_price
    }
}

/// `dollars * 10^20`, saturating.
fn usd(dollars: u128) -> u128 {
    dollars.saturating_mul(UNIT)
}

fn pick_fee_factor(rng: &mut Rng) -> u128 {
    *rng.weighted(&[
        (6, 5 * UNIT / 10_000),
        (5, 7 * UNIT / 10_000),
        (3, 0u128),
        (2, 1u128),
        (3, 3 * UNIT / 1000),
        (2, pct(1)),
        (1, pct(10)),
        (1, UNIT - 1),
        (1, UNIT),
    ])
}

fn pick_receiver_factor(rng: &mut Rng) -> u128 {
    *rng.weighted(&[
        (8, pct(37)),
        (2, 0u128),
        (1, 1u128),
        (2, pct(50)),
        (1, UNIT - 1),
        (2, UNIT),
        (1, 333_333_333_333_333_333_33u128),
    ])
}

fn pick_over_100(rng: &mut Rng) -> u128 {
    *rng.weighted(&[
        (3, UNIT + 1),
        (3, pct(150)),
        (2, pct(1000)),
        (1, u128::MAX / UNIT),
        (1, u128::MAX),
    ])
}

fn impact_cfg(rng: &mut Rng, pool_dollars: u128) -> ImpactCfg {
    let k = *rng.weighted(&[(3, 1u32), (8, 2), (2, 3), (1, 0)]);
    // factor such that the impact of an imbalance of the size of the pool is `r` of it
    let r_num = *rng.weighted(&[(2, 1u128), (5, 10), (3, 100), (1, 1000), (1, 10_000)]); // in 1/100000
    let mut f = UNIT / 100_000 * r_num;
    for _ in 1..k.max(1) {
        f /= pool_dollars.max(1);
    }
    let f = f.max(1);
    let (pf, nf) = match rng.below(12) {
        0 => (0, 0),
        1 => (0, f),
        2 => (f, f),
        3 => (f * 2, f),           // positive > negative: must be capped
        4 => (f.saturating_mul(1000), f), // much larger
        5 => (f, 0),               // capped to zero
        6 => (1, 2),
        _ => (f / 2, f),
    };
    ImpactCfg {
        exponent: U(k as u128 * UNIT),
        positive_factor: U(pf),
        negative_factor: U(nf),
    }
}

fn fee_cfg(rng: &mut Rng) -> FeeCfg {
    let (p, n) = if rng.chance(1, 8) {
        (0, 0)
    } else {
        (pick_fee_factor(rng), pick_fee_factor(rng))
    };
    FeeCfg {
        positive_impact_fee_factor: U(p),
        negative_impact_fee_factor: U(n),
        receiver_factor: U(pick_receiver_factor(rng)),
        discount_factor: None,
    }
}

pub struct Generated {
    pub cfg: Cfg,
    pub steps: Vec<Step>,
}

struct Weights {
    advance: u32,
    prices: u32,
    deposit: u32,
    withdraw: u32,
    swap: u32,
    increase: u32,
    decrease: u32,
    liquidate: u32,
    funding: u32,
    borrowing: u32,
    distribute: u32,
    claim: u32,
    probe_lp: u32,
    probe_impact: u32,
    probe_pos_impact: u32,
    probe_discount: u32,
    probe_fees: u32,
    probe_split: u32,
    probe_open_close: u32,
    probe_pnl: u32,
}

fn is_position_mix(mix: &str) -> bool {
    matches!(mix, "C07" | "C08" | "C09" | "C10" | "C11" | "C12" | "C13" | "C14")
}

fn weights_for(focus: &str) -> Weights {
    let base = Weights {
        advance: 12,
        prices: 10,
        deposit: 8,
        withdraw: 6,
        swap: 14,
        increase: 12,
        decrease: 10,
        liquidate: 3,
        funding: 3,
        borrowing: 3,
        distribute: 2,
        claim: 1,
        probe_lp: 2,
        probe_impact: 2,
        probe_pos_impact: 1,
        probe_discount: 1,
        probe_fees: 1,
        probe_split: 1,
        probe_open_close: 1,
        probe_pnl: 1,
    };
    match focus {
        "C07" => Weights { increase: 24, decrease: 24, liquidate: 6, prices: 14, advance: 8, swap: 6, deposit: 5, withdraw: 3, ..base },
        "C08" => Weights { increase: 18, decrease: 18, liquidate: 5, prices: 12, advance: 14, funding: 5, swap: 8, deposit: 6, withdraw: 4, claim: 2, ..base },
        "C09" => Weights { increase: 20, decrease: 16, liquidate: 10, prices: 16, advance: 10, swap: 5, deposit: 5, withdraw: 3, ..base },
        "C10" => Weights { probe_open_close: 16, increase: 12, decrease: 8, prices: 10, swap: 8, deposit: 6, withdraw: 3, ..base },
        "C11" => Weights { probe_pnl: 16, increase: 18, decrease: 6, liquidate: 2, prices: 14, swap: 5, deposit: 5, withdraw: 3, ..base },
        "C12" => Weights { increase: 16, decrease: 12, funding: 12, advance: 18, prices: 10, swap: 5, deposit: 5, withdraw: 3, ..base },
        "C13" => Weights { increase: 16, decrease: 14, borrowing: 10, advance: 16, prices: 10, swap: 5, deposit: 5, withdraw: 4, ..base },
        "C14" => Weights { increase: 16, decrease: 14, distribute: 12, advance: 16, probe_split: 8, prices: 8, swap: 4, deposit: 4, withdraw: 3, ..base },
        "C04" => Weights { swap: 40, deposit: 10, withdraw: 6, increase: 8, decrease: 6, ..base },
        "C05" => Weights { swap: 40, prices: 14, ..base },
        "C02" => Weights {
            probe_fees: 8,
            probe_discount: 6,
            swap: 14,
            deposit: 10,
            withdraw: 8,
            increase: 12,
            decrease: 12,
            liquidate: 6,
            ..base
        },
        "C03" => Weights {
            probe_impact: 12,
            probe_pos_impact: 4,
            swap: 20,
            deposit: 14,
            increase: 8,
            decrease: 6,
            ..base
        },
        "C06" => Weights {
            probe_lp: 16,
            deposit: 12,
            withdraw: 10,
            swap: 10,
            increase: 10,
            decrease: 8,
            ..base
        },
        _ => base,
    }
}

pub fn generate(seed: u64, run: u64, _tier: Tier, focus: &str) -> Generated {
    let mut rc = Rng::derive(seed, run, "config");
    let mut rp = Rng::derive(seed, run, "plan");
    let mut rpx = Rng::derive(seed, run, "prices");
    let mut rf = Rng::derive(seed, run, "faults");

    let (batch, faults_enabled, misconfig) = match run % 8 {
        3 | 5 => ("faults", true, false),
        7 => ("misconfig", false, true),
        _ => ("plain", false, false),
    };
    // 70 % of the runs use the op mix of the focus property, the rest the mix of another property (so that every
    // oracle also sees the histories the other mixes produce)
    let mix: &str = if rc.chance(7, 10) {
        focus
    } else {
        *rc.pick(&[
            "C02", "C03", "C04", "C05", "C06", "C07", "C08", "C09", "C10", "C11", "C12", "C13", "C14", "default",
        ])
    };
    let position_mix = is_position_mix(mix);

    // ---- tokens and prices -------------------------------------------------------------------------------
    // long token: decimals 9 ($20..$400), 8 ($20k..$100k) or 6 ($0.5..$5); short token: 6 decimals, ~$1.
    let (long_decimals, long_dollars_milli) = *rc.weighted(&[
        (6, (9u32, 150_000u128)),
        (2, (9, 20_000)),
        (2, (8, 60_000_000)),
        (1, (6, 2_000)),
        (1, (9, 400_000)),
    ]);
    let long_unit_price = 10u128.pow(20 - long_decimals) / 1000 * long_dollars_milli;
    let short_unit_price = 10u128.pow(14);
    let index_is_long = rc.chance(3, 4);
    let index_unit_price = if index_is_long {
        long_unit_price
    } else {
        // synthetic index: 8 decimals, $100..$100k
        10u128.pow(12) * rc.log_u64(100_000).max(100) as u128
    };
    let spread = *rc.weighted(&[(4, 0u32), (3, 1), (3, 10), (2, 100), (1, 500)]);
    let mut walk = PriceWalk {
        long_mid: long_unit_price,
        short_mid: short_unit_price,
        index_mid: index_unit_price,
        index_is_long,
        spread_bps_long: spread,
        spread_bps_short: *rc.weighted(&[(6, 0u32), (3, 1), (1, 20)]),
        spread_bps_index: spread,
    };
    let init_prices = walk.prices();

    // ---- market configuration --------------------------------------------------------------------------------
    // scale of the pool in dollars (first deposit)
    let pool_dollars: u128 = *rc.weighted(&[
        (1, 1_000u128),
        (3, 100_000),
        (5, 2_000_000),
        (3, 40_000_000),
        (1, 500_000_000),
    ]);
    let huge = u128::MAX / 4;
    let mut market = MarketCfg {
        swap_impact: impact_cfg(&mut rc, pool_dollars),
        swap_fee: fee_cfg(&mut rc),
        position: PositionCfg {
            min_position_size_usd: U(*rc.weighted(&[(6, UNIT), (2, 10 * UNIT), (1, 0), (1, 1000 * UNIT)])),
            min_collateral_value: U(*rc.weighted(&[(6, UNIT), (2, 0), (1, 100 * UNIT)])),
            min_collateral_factor: U(*rc.weighted(&[(6, pct(1)), (2, pct(1) / 2), (1, 0), (1, pct(5)), (1, pct(50))])),
            min_collateral_factor_for_liquidation: *rc.weighted(&[(5, None), (3, Some(U(pct(1) / 2))), (1, Some(U(0)))]),
            max_positive_position_impact_factor: U(*rc.weighted(&[(6, pct(1) / 2), (1, 0), (1, pct(100)), (1, 1)])),
            max_negative_position_impact_factor: U(*rc.weighted(&[(6, pct(1) / 2), (1, 0), (1, pct(100)), (1, 1)])),
            max_position_impact_factor_for_liquidations: U(*rc.weighted(&[(6, pct(1) / 4), (1, 0), (1, pct(100))])),
        },
        position_impact: impact_cfg(&mut rc, pool_dollars),
        order_fee: fee_cfg(&mut rc),
        distribute_factor: U(*rc.weighted(&[(4, UNIT), (2, 0), (2, UNIT / 1000), (1, 1_000_000 * UNIT)])),
        min_position_impact_pool_amount: U(*rc.weighted(&[(4, 1_000_000_000u128), (3, 0), (1, 1), (1, 1_000_000_000_000)])),
        borrowing: BorrowingCfg {
            receiver_factor: U(pick_receiver_factor(&mut rc)),
            exponent_for_long: U(*rc.weighted(&[(8, UNIT), (1, 2 * UNIT), (1, 0)])),
            exponent_for_short: U(*rc.weighted(&[(8, UNIT), (1, 2 * UNIT), (1, 0)])),
            factor_for_long: U(*rc.weighted(&[(6, 2_820_000_000_000u128), (2, 0), (1, 1), (1, 1_000_000_000_000_000)])),
            factor_for_short: U(*rc.weighted(&[(6, 2_820_000_000_000u128), (2, 0), (1, 1), (1, 1_000_000_000_000_000)])),
            skip_borrowing_fee_for_smaller_side: rc.chance(3, 4),
            kink_long: [U(0), U(0), U(0)],
            kink_short: [U(0), U(0), U(0)],
        },
        funding: FundingCfg {
            exponent: U(*rc.weighted(&[(8, UNIT), (1, 2 * UNIT), (1, 0)])),
            funding_factor: U(*rc.weighted(&[(6, 2_000_000_000_000u128), (1, 0), (1, 1), (1, UNIT / 1000)])),
            increase_factor_per_second: U(*rc.weighted(&[(5, 790_000_000u128), (4, 0), (1, 1), (1, 1_000_000_000_000)])),
            decrease_factor_per_second: U(*rc.weighted(&[(5, 0u128), (3, 10_000_000), (1, 1_000_000_000_000)])),
            max_factor_per_second: U(*rc.weighted(&[(6, 1_000_000_000_000u128), (1, 0), (1, 1), (1, UNIT / 100_000)])),
            min_factor_per_second: U(*rc.weighted(&[(5, 30_000_000_000u128), (4, 0), (1, 1)])),
            threshold_for_stable_funding: U(*rc.weighted(&[(6, pct(5)), (2, 0), (1, pct(100))])),
            threshold_for_decrease_funding: U(*rc.weighted(&[(6, 0u128), (2, pct(2)), (1, pct(100))])),
        },
        reserve_factor: U(*rc.weighted(&[(6, UNIT), (2, pct(50)), (1, pct(105)), (1, pct(5)), (1, 0)])),
        open_interest_reserve_factor: U(*rc.weighted(&[(6, UNIT), (2, pct(50)), (1, pct(5)), (1, 0)])),
        pnl_factors: [
            U(*rc.weighted(&[(6, pct(60)), (2, pct(90)), (1, pct(10)), (1, 0)])),
            U(*rc.weighted(&[(6, pct(30)), (2, pct(90)), (1, pct(5)), (1, 0)])),
            U(*rc.weighted(&[(6, pct(50)), (2, pct(90)), (1, pct(5)), (1, 0)])),
            U(pct(50)),
            U(0),
        ],
        max_pool_amount: [U(huge), U(huge)],
        max_pool_value_for_deposit: [U(huge), U(huge)],
        max_open_interest: [U(huge), U(huge)],
        min_collateral_factor_for_oi_multiplier: {
            let m = *rc.weighted(&[(6, 5 * 10u128.pow(17) / 83_000_000), (3, 0), (1, 10u128.pow(12))]);
            [U(m), U(m)]
        },
        ignore_open_interest_for_usage_factor: rc.chance(1, 4),
        liquidation_fee_factor: U(*rc.weighted(&[(6, pct(1) / 5), (2, 0), (1, pct(1)), (1, 1)])),
        liquidation_fee_receiver_factor: U(pick_receiver_factor(&mut rc)),
        usd_to_amount_divisor: U(USD_TO_AMOUNT_DIVISOR),
        funding_amount_per_size_adjustment: U(FUNDING_ADJUSTMENT),
        vi_swaps: None,
        vi_positions: None,
    };
    // kink model in a third of the runs
    if rc.chance(1, 3) {
        let k = [
            U(*rc.weighted(&[(6, pct(75)), (1, pct(100)), (1, pct(1)), (1, pct(120))])),
            U(pct(60) / SECONDS_PER_YEAR),
            U(*rc.weighted(&[(6, pct(150) / SECONDS_PER_YEAR), (1, 0), (1, pct(10) / SECONDS_PER_YEAR)])),
        ];
        market.borrowing.kink_long = k.clone();
        market.borrowing.kink_short = if rc.chance(3, 4) { k } else { [U(0), U(0), U(0)] };
    }
    // tiny maxima
    if rc.chance(1, 6) {
        let pool_tokens_long = usd_to_tokens(usd(pool_dollars), long_unit_price);
        let pool_tokens_short = usd_to_tokens(usd(pool_dollars), short_unit_price);
        match rc.below(3) {
            0 => market.max_pool_amount = [U(pool_tokens_long / 2 + pool_tokens_long / 8), U(pool_tokens_short / 2 + pool_tokens_short / 8)],
            1 => market.max_pool_value_for_deposit = [U(usd(pool_dollars) / 2 + usd(pool_dollars) / 10), U(usd(pool_dollars) / 2 + usd(pool_dollars) / 10)],
            _ => market.max_open_interest = [U(usd(pool_dollars) / 20), U(usd(pool_dollars) / 20)],
        }
    }
    // virtual inventories
    if rc.chance(2, 5) {
        let l = usd_to_tokens(usd(pool_dollars) / 2, long_unit_price);
        let s = usd_to_tokens(usd(pool_dollars) / 2, short_unit_price);
        market.vi_swaps = Some(match rc.below(5) {
            0 => [U(0), U(0)],
            1 => [U(l * 3), U(s)],
            2 => [U(l), U(s * 3)],
            3 => [U(l / 10), U(s / 10)],
            _ => [U(l), U(s)],
        });
    }
    if rc.chance(1, 3) {
        market.vi_positions = Some(match rc.below(4) {
            0 => [U(0), U(0)],
            1 => [U(usd(pool_dollars) / 10), U(0)],
            2 => [U(0), U(usd(pool_dollars) / 10)],
            _ => [U(usd(pool_dollars) / 100), U(usd(pool_dollars) / 50)],
        });
    }
    // position-centred mixes: keep positions openable in most runs, and allow very small positions
    if position_mix {
        if rc.chance(3, 4) {
            market.reserve_factor = U(UNIT);
            market.open_interest_reserve_factor = U(UNIT);
        }
        if rc.chance(1, 2) {
            market.position.min_position_size_usd = U(0);
            market.position.min_collateral_value = U(*rc.pick(&[0u128, UNIT / 100]));
        }
    }
    // ---- misconfiguration sub-batch ---------------------------------------------------------------------------
    if misconfig {
        let n = rc.range(1, 3);
        for _ in 0..n {
            match rc.below(16) {
                0 => market.swap_fee.positive_impact_fee_factor = U(pick_over_100(&mut rc)),
                1 => market.swap_fee.negative_impact_fee_factor = U(pick_over_100(&mut rc)),
                2 => market.swap_fee.receiver_factor = U(pick_over_100(&mut rc)),
                3 => market.order_fee.positive_impact_fee_factor = U(pick_over_100(&mut rc)),
                4 => market.order_fee.negative_impact_fee_factor = U(pick_over_100(&mut rc)),
                5 => market.order_fee.receiver_factor = U(pick_over_100(&mut rc)),
                6 => market.swap_fee.discount_factor = Some(U(pick_over_100(&mut rc))),
                7 => market.liquidation_fee_receiver_factor = U(pick_over_100(&mut rc)),
                8 => market.borrowing.receiver_factor = U(pick_over_100(&mut rc)),
                9 => market.swap_impact.exponent = U(*rc.pick(&[UNIT * 3 / 2, UNIT * 5 / 2, UNIT / 2, UNIT + 1])),
                10 => market.position_impact.exponent = U(*rc.pick(&[UNIT * 3 / 2, UNIT * 5 / 2, UNIT / 2, UNIT + 1])),
                11 => market.usd_to_amount_divisor = U(0),
                12 => market.funding_amount_per_size_adjustment = U(0),
                13 => {
                    // max < min
                    market.funding.min_factor_per_second = U(market.funding.max_factor_per_second.0.saturating_add(1));
                }
                14 => market.liquidation_fee_factor = U(pick_over_100(&mut rc)),
                _ => market.pnl_factors[rc.below(3) as usize] = U(pick_over_100(&mut rc)),
            }
        }
    }

    let n_lps = rc.range(1, 3) as u8;
    let n_positions = rc.range(2, 8) as u8;
    let settle_before_ops = rc.chance(3, 4);
    let enumerate_swap_faults = focus == "C04" || mix == "C04" || rc.chance(1, 10);

    let cfg = Cfg {
        focus: focus.to_string(),
        batch: batch.to_string(),
        faults_enabled,
        misconfig,
        enumerate_swap_faults,
        settle_before_ops,
        n_lps,
        n_positions,
        market,
        init_prices,
        init_now: *rc.weighted(&[(8, 1_700_000_000i64), (1, 0), (1, 4_000_000_000)]),
    };

    // ---- plan ------------------------------------------------------------------------------------------------
    let len = if rp.chance(85, 100) {
        rp.range(5, 60)
    } else {
        rp.range(60, 300)
    } as usize;
    let w = weights_for(mix);
    let fault_rate = if faults_enabled { rf.range(5, 25) } else { 0 }; // percent of ops preceded by a Fault step
    let regress_run = rc.chance(1, 40);
    let mut steps: Vec<Step> = Vec::with_capacity(len + 2);

    let amount_usd = |rng: &mut Rng, scale_dollars: u128| -> u128 {
        // log-uniform fraction of the scale: 10^-8 .. 2
        let s = usd(scale_dollars);
        match rng.below(30) {
            0 => s.saturating_mul(2),
            1 => s,
            2 | 3 => s / 2,
            4..=6 => s / 4,
            7..=9 => s / 10,
            _ => {
                let e = rng.range(1, 8) as u32;
                let m = rng.range(1, 99) as u128;
                s / 10u128.pow(e) / 10 * m
            }
        }
    };

    // sizeable first deposit in most runs
    if rp.chance(if position_mix { 39 } else { 36 }, 40) {
        let p = walk.prices();
        let (l, s) = match rp.below(if position_mix { 30 } else { 10 }) {
            0 => (usd(pool_dollars), 0),
            1 => (0, usd(pool_dollars)),
            2 => (usd(pool_dollars) / 4, usd(pool_dollars) / 4 * 3),
            _ => (usd(pool_dollars) / 2, usd(pool_dollars) / 2),
        };
        steps.push(Step::Deposit {
            lp: 0,
            long_amount: U(usd_to_tokens(l, p.long.max.0)),
            short_amount: U(usd_to_tokens(s, p.short.max.0)),
        });
    }

    let n_pos = n_positions as usize;
    while steps.len() < len {
        if fault_rate > 0 && rf.below(100) < fault_rate {
            let k = if rf.chance(3, 4) { rf.range(1, 30) } else { rf.range(1, 200) } as u32;
            steps.push(Step::Fault { k });
        }
        let p = walk.prices();
        let table: [(u32, u8); 20] = [
            (w.advance, 0),
            (w.prices, 1),
            (w.deposit, 2),
            (w.withdraw, 3),
            (w.swap, 4),
            (w.increase, 5),
            (w.decrease, 6),
            (w.liquidate, 7),
            (w.funding, 8),
            (w.borrowing, 9),
            (w.distribute, 10),
            (w.claim, 11),
            (w.probe_lp, 12),
            (w.probe_impact, 13),
            (w.probe_pos_impact, 14),
            (w.probe_discount, 15),
            (w.probe_fees, 16),
            (w.probe_split, 17),
            (w.probe_open_close, 18),
            (w.probe_pnl, 19),
        ];
        let kind = *rp.weighted(&table);
        let step = match kind {
            0 => {
                let seconds = match rp.below(20) {
                    0 | 1 => 0,
                    2..=8 => rp.range(1, 120) as i64,
                    9..=13 => rp.range(120, 7200) as i64,
                    14..=16 => rp.range(7200, 86_400 * 7) as i64,
                    17 => rp.range(86_400 * 7, 86_400 * 365) as i64,
                    18 => {
                        if regress_run {
                            -(rp.range(1, 600) as i64)
                        } else {
                            rp.range(1, 30) as i64
                        }
                    }
                    _ => rp.range(86_400 * 365, 86_400 * 365 * 5) as i64,
                };
                Step::Advance { seconds }
            }
            1 => {
                walk.step(&mut rpx);
                Step::SetPrices { prices: walk.prices() }
            }
            2 => {
                let a = amount_usd(&mut rp, pool_dollars);
                let (l, s) = match rp.below(6) {
                    0 | 1 => (a, 0),
                    2 | 3 => (0, a),
                    _ => (a / 2, amount_usd(&mut rp, pool_dollars) / 2),
                };
                let (mut l, mut s) = (usd_to_tokens(l, p.long.max.0), usd_to_tokens(s, p.short.max.0));
                if rp.chance(1, 20) {
                    l = rp.range(0, 3) as u128;
                    s = rp.range(0, 3) as u128;
                }
                Step::Deposit { lp: rp.below(n_lps as u64) as u8, long_amount: U(l), short_amount: U(s) }
            }
            3 => Step::Withdraw {
                lp: rp.below(n_lps as u64) as u8,
                bps: *rp.weighted(&[(3, 10_000u32), (2, 5_000), (2, 1_000), (1, 1), (1, 9_999), (2, 100)]),
            },
            4 => {
                let long_in = rp.bool();
                let a = amount_usd(&mut rp, pool_dollars);
                let mut amount = usd_to_tokens(a, if long_in { p.long.max.0 } else { p.short.max.0 });
                if rp.chance(1, 15) {
                    amount = rp.range(0, 1000) as u128;
                }
                Step::Swap { long_in, amount: U(amount) }
            }
            5 => {
                let pos = rp.below(n_pos as u64) as u8;
                let coll_long = (pos as usize / 2) % 2 == 0;
                let size = if position_mix {
                    let s = usd(pool_dollars);
                    match rp.below(12) {
                        0 => s / 5,
                        1 | 2 => s / 20,
                        3..=5 => s / 100 * rp.range(1, 9) as u128 / 4,
                        6 | 7 => s / 1000 * rp.range(1, 9) as u128,
                        8 => amount_usd(&mut rp, pool_dollars / 10),
                        // a handful of index-token base units: decreases can round the token size to zero
                        9 | 10 => p.index.max.0.saturating_mul(rp.range(1, 6) as u128),
                        _ => s / 100_000,
                    }
                } else {
                    amount_usd(&mut rp, pool_dollars / 10)
                };
                let leverage = if position_mix {
                    *rp.weighted(&[(3, 2u128), (4, 5), (4, 10), (2, 25), (1, 50), (1, 100)])
                } else {
                    *rp.weighted(&[(2, 1u128), (4, 3), (4, 10), (3, 25), (2, 50), (1, 100), (1, 500)])
                };
                let coll_usd = size / leverage;
                let coll_usd = if rp.chance(1, if position_mix { 25 } else { 10 }) { 0 } else { coll_usd };
                let size = if rp.chance(1, 12) { 0 } else { size };
                let coll = usd_to_tokens(coll_usd, if coll_long { p.long.min.0 } else { p.short.min.0 });
                let acceptable = if rp.chance(1, 8) {
                    let is_long = pos % 2 == 0;
                    let base = p.index.max.0;
                    Some(U(if is_long == rp.chance(3, 4) { base / 100 * 102 } else { base / 100 * 98 }))
                } else {
                    None
                };
                let discount = if rp.chance(1, 5) {
                    Some(U(*rp.weighted(&[(3, pct(10)), (2, pct(50)), (1, UNIT), (1, 0)])))
                } else {
                    None
                };
                Step::Increase { pos, collateral: U(coll), size_usd: U(size), acceptable, discount }
            }
            6 => {
                let coll_w = if rp.chance(1, 4) {
                    usd_to_tokens(amount_usd(&mut rp, pool_dollars / 100), p.short.max.0.max(1))
                } else {
                    0
                };
                Step::Decrease {
                    pos: rp.below(8) as u8,
                    size_bps: *rp.weighted(&[(5, 10_000u32), (3, 5_000), (2, 1_000), (1, 1), (1, 9_999), (1, 12_000), (1, 0)]),
                    collateral_withdrawal: U(coll_w),
                    liquidation: false,
                    insolvent_ok: rp.chance(1, 5),
                    cap: rp.chance(1, 3),
                    swap: *rp.weighted(&[(6, 0u8), (2, 1), (2, 2)]),
                    acceptable: None,
                    discount: if rp.chance(1, 6) { Some(U(pct(20))) } else { None },
                }
            }
            7 => Step::Decrease {
                pos: rp.below(8) as u8,
                size_bps: 10_000,
                collateral_withdrawal: U(0),
                liquidation: true,
                insolvent_ok: true,
                cap: true,
                swap: *rp.weighted(&[(6, 0u8), (1, 1), (1, 2)]),
                acceptable: None,
                discount: None,
            },
            8 => Step::UpdateFunding,
            9 => Step::UpdateBorrowing,
            10 => Step::DistributeImpact,
            11 => Step::ClaimFees,
            12 => {
                let a = amount_usd(&mut rp, pool_dollars);
                let (l, s) = match rp.below(3) {
                    0 => (a, 0),
                    1 => (0, a),
                    _ => (a / 2, amount_usd(&mut rp, pool_dollars) / 2),
                };
                Step::Probe {
                    kind: ProbeKind::LpRoundTrip {
                        long_amount: U(usd_to_tokens(l, p.long.max.0)),
                        short_amount: U(usd_to_tokens(s, p.short.max.0)),
                    },
                }
            }
            13 => {
                let a = amount_usd(&mut rp, pool_dollars);
                let lt = usd_to_tokens(a, p.long.max.0).min(i128::MAX as u128 / 4) as i128;
                let st = usd_to_tokens(a, p.short.max.0).min(i128::MAX as u128 / 4) as i128;
                let (dl, ds) = match rp.below(8) {
                    0 => (lt, 0),
                    1 => (0, st),
                    2 => (-lt, 0),
                    3 => (0, -st),
                    4 | 5 => (lt, -st),
                    6 => (-lt, st),
                    _ => (lt, st / 2),
                };
                Step::Probe { kind: ProbeKind::ImpactRoundTrip { long_delta: I(dl), short_delta: I(ds) } }
            }
            14 => Step::Probe {
                kind: ProbeKind::PositionImpactRoundTrip {
                    pos: rp.below(n_pos as u64) as u8,
                    size_usd: U(amount_usd(&mut rp, pool_dollars / 10)),
                },
            },
            15 => {
                let pos = rp.below(n_pos as u64) as u8;
                let coll_long = (pos as usize / 2) % 2 == 0;
                let size = amount_usd(&mut rp, pool_dollars / 10);
                let coll = usd_to_tokens(size / 5, if coll_long { p.long.min.0 } else { p.short.min.0 });
                Step::Probe {
                    kind: ProbeKind::Discount {
                        pos,
                        collateral: U(coll),
                        size_usd: U(size),
                        discount: U(*rp.weighted(&[(3, pct(10)), (3, pct(50)), (2, UNIT), (1, 1), (1, pct(150))])),
                    },
                }
            }
            17 => Step::Probe {
                kind: ProbeKind::SplitDistribution {
                    t1: rp.log_u64(86_400 * 30) as u32,
                    t2: rp.log_u64(86_400 * 30) as u32,
                },
            },
            18 => {
                let is_long = rp.bool();
                let collateral_long = rp.bool();
                let s = usd(pool_dollars);
                let size = match rp.below(8) {
                    0 => s / 5,
                    1 | 2 => s / 20,
                    3 | 4 => s / 100,
                    5 => s / 1000,
                    6 => p.index.max.0.saturating_mul(rp.range(1, 6) as u128),
                    _ => amount_usd(&mut rp, pool_dollars / 10),
                };
                let leverage = *rp.weighted(&[(3, 1u128), (4, 3), (4, 10), (3, 25), (2, 50), (1, 90)]);
                let coll = usd_to_tokens(size / leverage, if collateral_long { p.long.min.0 } else { p.short.min.0 });
                Step::Probe { kind: ProbeKind::OpenClose { is_long, collateral_long, collateral: U(coll), size_usd: U(size) } }
            }
            19 => Step::Probe {
                kind: ProbeKind::PnlDirection {
                    pos: rp.below(8) as u8,
                    bump_bps: *rp.weighted(&[(2, 1u32), (3, 10), (4, 100), (3, 1000), (2, 5000), (1, 20_000)]),
                    partial_bps: *rp.weighted(&[(3, 5000u32), (2, 1000), (2, 9000), (1, 1), (1, 9999), (2, 3333)]),
                },
            },
            _ => Step::Probe {
                kind: ProbeKind::FeesDirect {
                    amount: U(match rp.below(6) {
                        0 => rp.range(0, 1000) as u128,
                        1 => rp.log_u128(u128::MAX),
                        _ => usd_to_tokens(amount_usd(&mut rp, pool_dollars), p.long.max.0),
                    }),
                    discount: U(*rp.weighted(&[(3, 0u128), (3, pct(10)), (2, pct(50)), (1, UNIT), (1, pct(150)), (1, 1)])),
                    pos: rp.below(8) as u8,
                },
            },
        };
        steps.push(step);
    }
    Generated { cfg, steps }
}

fn halve(u: &U) -> Vec<U> {
    let mut v = vec![];
    if u.0 > 1 {
        v.push(U(u.0 / 2));
        // round down to a power of ten
        let mut p = 1u128;
        while p <= u.0 / 10 {
            p *= 10;
        }
        if p != u.0 {
            v.push(U(p));
        }
    }
    v
}

pub fn simplify_step(step: &Step) -> Vec<Step> {
    let mut out = vec![];
    match step {
        Step::Advance { seconds } => {
            if *seconds != 0 {
                out.push(Step::Advance { seconds: 0 });
                out.push(Step::Advance { seconds: seconds / 2 });
            }
        }
        Step::Deposit { lp, long_amount, short_amount } => {
            if long_amount.0 != 0 && short_amount.0 != 0 {
                out.push(Step::Deposit { lp: *lp, long_amount: *long_amount, short_amount: U(0) });
                out.push(Step::Deposit { lp: *lp, long_amount: U(0), short_amount: *short_amount });
            }
            for l in halve(long_amount) {
                out.push(Step::Deposit { lp: *lp, long_amount: l, short_amount: *short_amount });
            }
            for s in halve(short_amount) {
                out.push(Step::Deposit { lp: *lp, long_amount: *long_amount, short_amount: s });
            }
            if *lp != 0 {
                out.push(Step::Deposit { lp: 0, long_amount: *long_amount, short_amount: *short_amount });
            }
        }
        Step::Withdraw { lp, bps } => {
            if *bps != 10_000 {
                out.push(Step::Withdraw { lp: *lp, bps: 10_000 });
            }
        }
        Step::Swap { long_in, amount } => {
            for a in halve(amount) {
                out.push(Step::Swap { long_in: *long_in, amount: a });
            }
        }
        Step::Increase { pos, collateral, size_usd, acceptable, discount } => {
            if acceptable.is_some() || discount.is_some() {
                out.push(Step::Increase { pos: *pos, collateral: *collateral, size_usd: *size_usd, acceptable: None, discount: None });
            }
            for s in halve(size_usd) {
                out.push(Step::Increase { pos: *pos, collateral: *collateral, size_usd: s, acceptable: *acceptable, discount: *discount });
            }
            for c in halve(collateral) {
                out.push(Step::Increase { pos: *pos, collateral: c, size_usd: *size_usd, acceptable: *acceptable, discount: *discount });
            }
        }
        Step::Decrease { pos, size_bps, collateral_withdrawal, liquidation, insolvent_ok, cap, swap, acceptable, discount } => {
            if *swap != 0 || discount.is_some() || collateral_withdrawal.0 != 0 {
                out.push(Step::Decrease {
                    pos: *pos,
                    size_bps: *size_bps,
                    collateral_withdrawal: U(0),
                    liquidation: *liquidation,
                    insolvent_ok: *insolvent_ok,
                    cap: *cap,
                    swap: 0,
                    acceptable: *acceptable,
                    discount: None,
                });
            }
            if *size_bps != 10_000 {
                out.push(Step::Decrease {
                    pos: *pos,
                    size_bps: 10_000,
                    collateral_withdrawal: *collateral_withdrawal,
                    liquidation: *liquidation,
                    insolvent_ok: *insolvent_ok,
                    cap: *cap,
                    swap: *swap,
                    acceptable: *acceptable,
                    discount: *discount,
                });
            }
        }
        Step::Probe { kind } => match kind {
            ProbeKind::LpRoundTrip { long_amount, short_amount } => {
                if long_amount.0 != 0 && short_amount.0 != 0 {
                    out.push(Step::Probe { kind: ProbeKind::LpRoundTrip { long_amount: *long_amount, short_amount: U(0) } });
                    out.push(Step::Probe { kind: ProbeKind::LpRoundTrip { long_amount: U(0), short_amount: *short_amount } });
                }
                for l in halve(long_amount) {
                    out.push(Step::Probe { kind: ProbeKind::LpRoundTrip { long_amount: l, short_amount: *short_amount } });
                }
                for s in halve(short_amount) {
                    out.push(Step::Probe { kind: ProbeKind::LpRoundTrip { long_amount: *long_amount, short_amount: s } });
                }
            }
            ProbeKind::ImpactRoundTrip { long_delta, short_delta } => {
                if long_delta.0 != 0 && short_delta.0 != 0 {
                    out.push(Step::Probe { kind: ProbeKind::ImpactRoundTrip { long_delta: *long_delta, short_delta: I(0) } });
                    out.push(Step::Probe { kind: ProbeKind::ImpactRoundTrip { long_delta: I(0), short_delta: *short_delta } });
                }
                if long_delta.0.abs() > 1 || short_delta.0.abs() > 1 {
                    out.push(Step::Probe { kind: ProbeKind::ImpactRoundTrip { long_delta: I(long_delta.0 / 2), short_delta: I(short_delta.0 / 2) } });
                }
            }
            ProbeKind::FeesDirect { amount, discount, pos } => {
                for a in halve(amount) {
                    out.push(Step::Probe { kind: ProbeKind::FeesDirect { amount: a, discount: *discount, pos: *pos } });
                }
            }
            _ => {}
        },
        _ => {}
    }
    out
}

pub fn simplify_cfg(cfg: &Cfg) -> Vec<Cfg> {
    let mut out = vec![];
    if cfg.market.vi_swaps.is_some() {
        let mut c = cfg.clone();
        c.market.vi_swaps = None;
        out.push(c);
    }
    if cfg.market.vi_positions.is_some() {
        let mut c = cfg.clone();
        c.market.vi_positions = None;
        out.push(c);
    }
    if cfg.settle_before_ops {
        let mut c = cfg.clone();
        c.settle_before_ops = false;
        out.push(c);
    }
    if cfg.market.borrowing.kink_long[0].0 != 0 || cfg.market.borrowing.kink_short[0].0 != 0 {
        let mut c = cfg.clone();
        c.market.borrowing.kink_long = [U(0), U(0), U(0)];
        c.market.borrowing.kink_short = [U(0), U(0), U(0)];
        out.push(c);
    }
    if cfg.n_positions > 2 {
        let mut c = cfg.clone();
        c.n_positions = 2;
        out.push(c);
    }
    out
}
