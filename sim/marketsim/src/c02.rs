//! C02 — fee splitting never creates or loses tokens.
//!
//! How the mechanism is driven: (1) through the operations (swap, deposit, withdrawal, increase, decrease,
//! liquidation reports), (2) by calling `FeeParams::apply_fees` / `FeeParams::fee` directly on params objects built
//! from the simulated configuration, with the gross amounts the simulation produced (plus probe amounts), and
//! `PositionExt::position_fees(.., is_liquidation = true)` on live simulated positions (the only public path to
//! `LiquidationFeeParams::fee`).
//!
//! Reference (big integers, independent): `fee = ⌊a·f⌋ − ⌊⌊a·f⌋·d⌋`, `receiver = ⌊fee·r⌋`, `pool = fee − receiver`,
//! `net = a − fee`; the computation must fail iff one of the subtractions would be negative.
//!
//! Oracles
//! * `apply_fees_direct`: `apply_fees(kind, a)` is `Some((net, fees))` with exactly the reference values (hence
//!   `net + pool + receiver == a`, `fee ≤ a`, `receiver == ⌊fee·r⌋`) or `None` exactly when the reference says the
//!   computation must fail (a factor above 100 % that would produce a fee above the input, a receiver share above
//!   the fee, a discount above the fee).
//! * `discount_raises_fee`: `fee(kind, a)` with discount `d` is `≤` the fee without discount (direct call), and
//!   the same increase order forked with discount 0 and `d` pays `fee_value_d ≤ fee_value_0` (probe).
//! * `report_fee_split`: fees of a successful swap / deposit / withdrawal report equal the reference for the
//!   `Improved` or the `Worsened` factor (the report does not say which was used), in particular
//!   `pool + receiver ≤ gross` and `receiver == ⌊(pool+receiver)·r⌋`.
//! * `order_fee_split`: `PositionFees` of successful increase / decrease reports and of direct `position_fees`
//!   calls: `fee_value ∈ {ref(Improved), ref(Worsened)}(size_delta_usd)`, `fee_value ≤ size_delta_usd`,
//!   `pool + receiver == ⌊fee_value / collateral_price.min⌋`, `receiver == ⌊(pool+receiver)·r⌋`; borrowing
//!   `receiver == ⌊amount·r_b⌋ ≤ amount`; liquidation `fee_value == ⌊size·f_l⌋`,
//!   `fee_amount == ⌈fee_value / collateral_price.min⌉`, `receiver == ⌊fee_amount·r_l⌋ ≤ fee_amount`.

use gmsol_model::{
    params::fee::PositionFees,
    pool::delta::BalanceChange,
    price::Price,
    PositionExt,
};
use num_bigint::BigUint;
use num_traits::Zero;
use simcore::Obs;

use crate::cfg::FeeCfg;
use crate::num::UNIT;
use crate::refmath::{apply_factor, bu, fits_u128, ref_fees, RefFees};
use crate::world::{fee_params, PosOps, Report, SimPosition, StepOutcome, World};

fn cfg_discount(c: &FeeCfg) -> u128 {
    c.discount_factor.map(|d| d.0).unwrap_or(0)
}

/// Direct calls on a params object built from the configuration.
pub fn direct(c: &FeeCfg, which: &'static str, discount: Option<u128>, amount: u128, obs: &mut Obs) {
    let params = fee_params(c, discount);
    let d = discount.unwrap_or_else(|| cfg_discount(c));
    let invalid_cfg = c.positive_impact_fee_factor.0 > UNIT
        || c.negative_impact_fee_factor.0 > UNIT
        || c.receiver_factor.0 > UNIT
        || d > UNIT;
    for (bc, name, factor) in [
        (BalanceChange::Improved, "improved", c.positive_impact_fee_factor.0),
        (BalanceChange::Worsened, "worsened", c.negative_impact_fee_factor.0),
        (BalanceChange::Unchanged, "unchanged", c.negative_impact_fee_factor.0),
    ] {
        let got = params.apply_fees::<20>(bc, &amount);
        let want = ref_fees(amount, factor, d, c.receiver_factor.0);
        if invalid_cfg && want.is_none() {
            obs.probe("c02_invalid_factor_rejected");
        }
        let ok = match (&got, &want) {
            (None, None) => true,
            (Some((net, fees)), Some(r)) => {
                bu(*net) == r.net
                    && bu(*fees.fee_amount_for_pool()) == r.pool
                    && bu(*fees.fee_amount_for_receiver()) == r.receiver
            }
            _ => false,
        };
        obs.require(
            ok,
            "C02",
            "apply_fees_direct",
            || {
                format!(
                    "params={which},kind={name},got_some={},want_some={},invalid_cfg={invalid_cfg}",
                    got.is_some(),
                    want.is_some()
                )
            },
            || {
                format!(
                    "amount={amount} factor={factor} discount={d} receiver_factor={} got={:?} want={:?}",
                    c.receiver_factor.0, got, want
                )
            },
        );
        // discount never raises the fee
        let with = params.fee::<20>(bc, &amount);
        let without = fee_params(
            &FeeCfg {
                discount_factor: None,
                ..c.clone()
            },
            Some(0),
        )
        .fee::<20>(bc, &amount);
        if let (Some(a), Some(b)) = (with, without) {
            obs.require(
                a <= b,
                "C02",
                "discount_raises_fee",
                || format!("params={which},kind={name},via=direct"),
                || format!("amount={amount} factor={factor} discount={d} fee_with={a} fee_without={b}"),
            );
        }
    }
}

fn matches_ref(pool: u128, receiver: u128, r: &Option<RefFees>) -> bool {
    match r {
        Some(r) => bu(pool) == r.pool && bu(receiver) == r.receiver,
        None => false,
    }
}

/// Fees of a swap / deposit / withdrawal report against the reference.
fn report_split(op: &'static str, c: &FeeCfg, gross: u128, pool: u128, receiver: u128, obs: &mut Obs) {
    let d = cfg_discount(c);
    let ri = ref_fees(gross, c.positive_impact_fee_factor.0, d, c.receiver_factor.0);
    let rw = ref_fees(gross, c.negative_impact_fee_factor.0, d, c.receiver_factor.0);
    let fee = bu(pool) + bu(receiver);
    let ok = fee <= bu(gross) && (matches_ref(pool, receiver, &ri) || matches_ref(pool, receiver, &rw));
    obs.require(
        ok,
        "C02",
        "report_fee_split",
        || {
            format!(
                "op={op},fee_exceeds_gross={},receiver_exceeds_fee={}",
                fee > bu(gross),
                bu(receiver) > fee
            )
        },
        || {
            format!(
                "gross={gross} pool={pool} receiver={receiver} ref_improved={:?} ref_worsened={:?} factors=({},{}) receiver_factor={} discount={d}",
                ri, rw, c.positive_impact_fee_factor.0, c.negative_impact_fee_factor.0, c.receiver_factor.0
            )
        },
    );
}

/// `fee_value` candidates of an order: `⌊s·f⌋ − ⌊⌊s·f⌋·d⌋`.
fn ref_fee_value(size: u128, factor: u128, discount: u128) -> Option<BigUint> {
    let g = apply_factor(&bu(size), factor);
    if !fits_u128(&g) {
        return None;
    }
    let disc = apply_factor(&g, discount);
    if disc > g {
        return None;
    }
    Some(g - disc)
}

#[allow(clippy::too_many_arguments)]
pub fn check_position_fees(
    via: &'static str,
    w: &World,
    fees: &PositionFees<u128>,
    size_delta_usd: u128,
    collateral_price: &Price<u128>,
    discount: Option<u128>,
    may_be_cleared: bool,
    charged: bool,
    obs: &mut Obs,
) {
    // `charged == false`: the fees were only computed (direct call, or an insolvent close that stopped before the
    // fee step), so the lazily evaluated `fee_amount_for_pool()` subtraction never ran.
    let c = &w.cfg.market.order_fee;
    let d = discount.unwrap_or_else(|| cfg_discount(c));
    let of = fees.order_fees();
    let pool = *of.fee_amounts().fee_amount_for_pool();
    let receiver = *of.fee_amounts().fee_amount_for_receiver();
    let fee_value = *of.fee_value();
    let cleared = may_be_cleared && pool == 0 && receiver == 0 && fee_value == 0;
    if !cleared && collateral_price.min != 0 {
        let cand = [
            ref_fee_value(size_delta_usd, c.positive_impact_fee_factor.0, d),
            ref_fee_value(size_delta_usd, c.negative_impact_fee_factor.0, d),
        ];
        let value_ok = cand.iter().any(|x| x.as_ref() == Some(&bu(fee_value)));
        let fee_amount = bu(fee_value) / bu(collateral_price.min);
        let want_receiver = apply_factor(&fee_amount, c.receiver_factor.0);
        let split_ok = bu(pool) + bu(receiver) == fee_amount && bu(receiver) == want_receiver;
        obs.require(
            value_ok && split_ok,
            "C02",
            "order_fee_split",
            || format!("part=order,via={via},value_ok={value_ok},split_ok={split_ok}"),
            || {
                format!(
                    "size_delta_usd={size_delta_usd} fee_value={fee_value} candidates={:?} pool={pool} receiver={receiver} expected_fee_amount={fee_amount} expected_receiver={want_receiver} discount={d}",
                    cand
                )
            },
        );
        // "The fee never exceeds the gross amount ... invalid factors make the computation fail instead of
        // producing a larger-than-input fee": for an order the input of the fee computation is the size delta.
        let over = c.positive_impact_fee_factor.0 > UNIT || c.negative_impact_fee_factor.0 > UNIT;
        obs.require(
            fee_value <= size_delta_usd,
            "C02",
            "order_fee_exceeds_size",
            || format!("factor_over_100={over},via={via}"),
            || {
                format!(
                    "size_delta_usd={size_delta_usd} fee_value={fee_value} order fee factors=({},{}) discount={d}: the computation succeeded",
                    c.positive_impact_fee_factor.0, c.negative_impact_fee_factor.0
                )
            },
        );
    }
    // borrowing
    let b = fees.borrowing_fees();
    let want = apply_factor(&bu(*b.fee_amount()), w.cfg.market.borrowing.receiver_factor.0);
    obs.require(
        bu(*b.fee_amount_for_receiver()) == want && (!charged || b.fee_amount_for_receiver() <= b.fee_amount()),
        "C02",
        "order_fee_split",
        || format!("part=borrowing,via={via}"),
        || {
            format!(
                "borrowing amount={} receiver={} expected_receiver={want}",
                b.fee_amount(),
                b.fee_amount_for_receiver()
            )
        },
    );
    // liquidation
    if let Some(l) = fees.liquidation_fees() {
        if collateral_price.min != 0 {
            obs.probe("c02_liquidation_fee_seen");
            let f = w.cfg.market.liquidation_fee_factor.0;
            let want_value = if f == 0 { BigUint::zero() } else { apply_factor(&bu(size_delta_usd), f) };
            let want_amount = if f == 0 {
                BigUint::zero()
            } else {
                (&want_value + bu(collateral_price.min) - bu(1)) / bu(collateral_price.min)
            };
            let want_receiver = if f == 0 {
                BigUint::zero()
            } else {
                apply_factor(&want_amount, w.cfg.market.liquidation_fee_receiver_factor.0)
            };
            let ok = bu(*l.fee_value()) == want_value
                && bu(*l.fee_amount()) == want_amount
                && bu(*l.fee_amount_for_receiver()) == want_receiver
                && (!charged || l.fee_amount_for_receiver() <= l.fee_amount());
            obs.require(
                ok,
                "C02",
                "order_fee_split",
                || format!("part=liquidation,via={via}"),
                || {
                    format!(
                        "size={size_delta_usd} fee_value={} fee_amount={} receiver={} expected=({want_value},{want_amount},{want_receiver})",
                        l.fee_value(),
                        l.fee_amount(),
                        l.fee_amount_for_receiver()
                    )
                },
            );
        }
    }
}

pub fn after_step(w: &World, out: &StepOutcome, obs: &mut Obs) {
    let m = &w.cfg.market;
    // direct calls with the gross amounts of this step (whether or not the operation succeeded)
    match out.op {
        "swap" => direct(&m.swap_fee, "swap", None, out.req.0, obs),
        "deposit" => {
            if out.req.0 != 0 {
                direct(&m.swap_fee, "swap", None, out.req.0, obs);
            }
            if out.req.1 != 0 {
                direct(&m.swap_fee, "swap", None, out.req.1, obs);
            }
        }
        "increase" => direct(&m.order_fee, "order", out.order_discount, out.req.1, obs),
        "decrease" | "liquidate" => direct(&m.order_fee, "order", out.order_discount, out.req.0, obs),
        _ => {}
    }
    if !out.ok {
        return;
    }
    match &out.report {
        Report::Swap(rep) => {
            let f = rep.token_in_fees();
            report_split(
                "swap",
                &m.swap_fee,
                *rep.params().token_in_amount(),
                *f.fee_amount_for_pool(),
                *f.fee_amount_for_receiver(),
                obs,
            );
        }
        Report::Deposit(rep) => {
            for (amount, f) in [
                (*rep.params().long_token_amount(), rep.long_token_fees()),
                (*rep.params().short_token_amount(), rep.short_token_fees()),
            ] {
                if amount != 0 {
                    report_split(
                        "deposit",
                        &m.swap_fee,
                        amount,
                        *f.fee_amount_for_pool(),
                        *f.fee_amount_for_receiver(),
                        obs,
                    );
                }
            }
        }
        Report::Withdraw(rep) => {
            for (output, f) in [
                (*rep.long_token_output(), rep.long_token_fees()),
                (*rep.short_token_output(), rep.short_token_fees()),
            ] {
                let pool = *f.fee_amount_for_pool();
                let receiver = *f.fee_amount_for_receiver();
                // gross = net output + fee (the report carries the amount after fees)
                let gross = bu(output) + bu(pool) + bu(receiver);
                if let Ok(g) = u128::try_from(gross) {
                    if g != 0 {
                        report_split("withdraw", &m.swap_fee, g, pool, receiver, obs);
                    }
                }
            }
        }
        Report::Increase(rep) => {
            let pos = out.pos.map(|i| w.positions[i]).unwrap_or_default();
            let price = *out.prices.collateral_token_price(pos.is_collateral_token_long);
            check_position_fees("increase", w, rep.fees(), out.req.1, &price, out.order_discount, false, true, obs);
        }
        Report::Decrease(rep) => {
            let price = *out.prices.collateral_token_price(rep.is_output_token_long());
            check_position_fees(
                if out.op == "liquidate" { "liquidate" } else { "decrease" },
                w,
                rep.fees(),
                *rep.size_delta_usd(),
                &price,
                out.order_discount,
                true,
                !matches!(
                    rep.insolvent_close_step(),
                    Some(gmsol_model::position::InsolventCloseStep::Pnl)
                        | Some(gmsol_model::position::InsolventCloseStep::Funding)
                ),
                obs,
            );
            if out.op == "liquidate" {
                obs.probe("liquidation_ok");
            }
        }
        _ => {}
    }
    // inner swaps of a decrease carry fee reports too
    for s in &out.inner_swaps {
        if let Some(rep) = &s.report {
            obs.probe("decrease_inner_swap_ok");
            let f = rep.token_in_fees();
            report_split(
                "inner_swap",
                &m.swap_fee,
                *rep.params().token_in_amount(),
                *f.fee_amount_for_pool(),
                *f.fee_amount_for_receiver(),
                obs,
            );
        } else {
            obs.probe("decrease_inner_swap_failed");
        }
    }
}

/// Probe: direct calls with a probe amount and discount, and `position_fees(.., true)` on a live position.
pub fn probe_fees_direct(w: &World, amount: u128, discount: u128, pos: u8, obs: &mut Obs) {
    let m = &w.cfg.market;
    direct(&m.swap_fee, "swap", None, amount, obs);
    direct(&m.swap_fee, "swap", Some(discount), amount, obs);
    direct(&m.order_fee, "order", Some(discount), amount, obs);
    direct(&m.order_fee, "order", None, amount, obs);
    let live = w.live_positions();
    if live.is_empty() {
        return;
    }
    let idx = live[pos as usize % live.len()];
    let mut f = w.fork();
    let prices = f.prices;
    let p: SimPosition = f.positions[idx];
    let price = *prices.collateral_token_price(p.is_collateral_token_long);
    if price.has_zero() {
        return;
    }
    for bc in [BalanceChange::Improved, BalanceChange::Worsened] {
        let (r, _, _, _) = f.run_tx(0, |w, _| {
            let mut pos = w.positions[idx];
            let ops = PosOps {
                market: &mut w.market,
                pos: &mut pos,
                inner: vec![],
            };
            ops.position_fees(&price, &p.size_in_usd, bc, true)
        });
        if let Ok(fees) = r {
            obs.probe("c02_position_fees_direct");
            check_position_fees("direct", w, &fees, p.size_in_usd, &price, None, false, false, obs);
        }
    }
}

/// Probe: the same increase order forked with discount 0 and `discount`.
pub fn probe_discount(w: &World, pos: u8, collateral: u128, size_usd: u128, discount: u128, obs: &mut Obs) {
    let idx = pos as usize % w.positions.len();
    let run = |d: u128| {
        let mut f = w.fork();
        let (r, _, _, _) = f.run_tx(0, |w, sc| w.tx_increase(sc, idx, collateral, size_usd, None, Some(d)));
        r.ok().map(|rep| {
            let of = rep.fees().order_fees();
            (
                *of.fee_value(),
                bu(*of.fee_amounts().fee_amount_for_pool()) + bu(*of.fee_amounts().fee_amount_for_receiver()),
            )
        })
    };
    let a = run(0);
    let b = run(discount);
    match (a, b) {
        (Some((v0, a0)), Some((vd, ad))) => {
            obs.probe("c02_discount_fork_both_ok");
            obs.require(
                vd <= v0 && ad <= a0,
                "C02",
                "discount_raises_fee",
                || "via=fork_increase".to_string(),
                || format!("size_usd={size_usd} discount={discount} fee_value_0={v0} fee_value_d={vd} fee_amount_0={a0} fee_amount_d={ad}"),
            );
            let c = &w.cfg.market.order_fee;
            let over = c.positive_impact_fee_factor.0 > UNIT || c.negative_impact_fee_factor.0 > UNIT;
            obs.require(
                vd <= size_usd,
                "C02",
                "order_fee_exceeds_size",
                || format!("factor_over_100={over},via=fork_increase"),
                || format!("size_usd={size_usd} fee_value={vd}"),
            );
        }
        (Some(_), None) => obs.probe("c02_discount_fork_only_undiscounted_ok"),
        (None, Some(_)) => obs.probe("c02_discount_fork_only_discounted_ok"),
        (None, None) => obs.probe("c02_discount_fork_both_rejected"),
    }
}
