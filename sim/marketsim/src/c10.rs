//! C10 — opening and immediately closing a position is never profitable.
//!
//! Probe (fork of the world): a fresh position (side, collateral token) is opened with `(collateral, size)` and fully
//! closed (no swap, no collateral withdrawal, not a liquidation) at the same prices and the same simulated time.
//!
//! Oracle `open_close_profit`, big integers, everything valued at the minimum price of its token:
//!
//! ```text
//! output·p_out.min + secondary_output·p_sec.min
//!   + claimable funding (long·p_long.min + short·p_short.min, both reports)
//!   + claimable collateral for the user (output / secondary token)
//!        ≤  collateral·p_collateral.min + 2·(p_long.max + p_short.max)
//! ```
//!
//! (two operations, one base unit of each pool token per operation, valued at the maximum price). Claimable
//! collateral for the holding account is not the trader's and is not counted. The key carries the side, the collateral
//! token, whether the opening received positive price impact and whether a capped negative impact was refunded as
//! claimable collateral (`impact_diff_refunded`) and whether the configured cap of the negative impact factor is below
//! the cap of the positive one (`negative_cap_below_positive_cap`).

use gmsol_model::action::decrease_position::{DecreasePositionFlags, DecreasePositionSwapType};
use simcore::Obs;

use crate::refmath::bu;
use crate::world::{SimPosition, World};

pub fn probe_open_close(w: &World, is_long: bool, collateral_long: bool, collateral: u128, size_usd: u128, obs: &mut Obs) {
    let mut f = w.fork();
    f.positions.push(SimPosition::empty(is_long, collateral_long));
    f.settled_borrowing_factor.push(0);
    let idx = f.positions.len() - 1;
    let prices = f.prices;
    let (r, _, _, _) = f.run_tx(0, |w, sc| w.tx_increase(sc, idx, collateral, size_usd, None, None));
    let inc = match r {
        Ok(x) => x,
        Err(_) => {
            obs.probe("c10_open_rejected");
            return;
        }
    };
    let size = f.positions[idx].size_in_usd;
    if size == 0 {
        obs.probe("c10_opened_without_size");
        return;
    }
    let (r, _, _, _) = f.run_tx(0, |w, sc| {
        w.tx_decrease(sc, idx, size, 0, DecreasePositionFlags::default(), DecreasePositionSwapType::NoSwap, None, None)
    });
    let dec = match r {
        Ok(x) => x,
        Err(_) => {
            obs.probe("c10_close_rejected");
            return;
        }
    };
    obs.probe("c10_open_close_ok");
    let pmin = |long: bool| if long { prices.long_token_price.min } else { prices.short_token_price.min };
    let out_long = dec.is_output_token_long();
    let sec_long = dec.is_secondary_output_token_long();
    let (icl, ics) = inc.claimable_funding_amounts();
    let (dcl, dcs) = dec.claimable_funding_amounts();
    let user = dec.claimable_collateral_for_user();
    let refunded = *user.output_token_amount() != 0 || *user.secondary_output_token_amount() != 0;
    let value_out = bu(*dec.output_amount()) * bu(pmin(out_long))
        + bu(*dec.secondary_output_amount()) * bu(pmin(sec_long))
        + (bu(*icl) + bu(*dcl)) * bu(pmin(true))
        + (bu(*ics) + bu(*dcs)) * bu(pmin(false))
        + bu(*user.output_token_amount()) * bu(pmin(out_long))
        + bu(*user.secondary_output_token_amount()) * bu(pmin(sec_long));
    let value_in = bu(collateral) * bu(pmin(collateral_long));
    let allowance = (bu(prices.long_token_price.max) + bu(prices.short_token_price.max)) * bu(2);
    let positive_open = *inc.execution().price_impact_value() > 0;
    if positive_open {
        obs.probe("c10_open_with_positive_impact");
    }
    if !dec.should_remove() {
        obs.probe("c10_close_did_not_remove");
    }
    obs.require(
        value_out <= &value_in + &allowance,
        "C10",
        "open_close_profit",
        || {
            format!(
                "side={},collateral={},positive_impact_on_open={positive_open},impact_diff_refunded={refunded},negative_cap_below_positive_cap={}",
                if is_long { "long" } else { "short" },
                if collateral_long { "long" } else { "short" },
                w.cfg.market.position.max_negative_position_impact_factor.0 < w.cfg.market.position.max_positive_position_impact_factor.0
            )
        },
        || {
            format!(
                "collateral={collateral} size_usd={size_usd} value_in={value_in} value_out={value_out} output={} secondary={} claimable_user=({},{}) open_impact={} close_impact={} close_impact_diff={} pnl={}",
                dec.output_amount(),
                dec.secondary_output_amount(),
                user.output_token_amount(),
                user.secondary_output_token_amount(),
                inc.execution().price_impact_value(),
                dec.price_impact_value(),
                dec.price_impact_diff(),
                dec.pnl().pnl()
            )
        },
    );
}
