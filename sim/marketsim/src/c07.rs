//! C07 — open interest and collateral totals always match the open positions.
//!
//! Oracles (after every plan step, successful or not; sums are big integers over the harness' own position slots)
//! * `oi_usd_sum`:      per side and collateral token, `open_interest_pool(side)[collateral] == Σ size_in_usd`
//! * `oi_tokens_sum`:   `open_interest_in_tokens_pool(side)[collateral] == Σ size_in_tokens`
//! * `collateral_sum`:  `collateral_sum_pool(side)[collateral] == Σ collateral_amount`
//! * `removed_not_zero`: a decrease whose report says `should_remove` left `size_in_usd == size_in_tokens ==
//!   collateral_amount == 0` in the position (observed before the harness resets the slot).
//! * `failed_attempt_changed_state`: after a failed step the market, positions and LP balances equal the snapshot
//!   (the transaction semantics of the harness; kept as an executable statement of the last clause).

use num_bigint::BigUint;
use num_traits::Zero;
use simcore::Obs;

use crate::refmath::bu;
use crate::world::{
    Report, StepOutcome, World, P_COLLATERAL_SUM_LONG, P_COLLATERAL_SUM_SHORT, P_OI_LONG, P_OI_SHORT,
    P_OI_TOKENS_LONG, P_OI_TOKENS_SHORT,
};

pub fn after_step(w: &World, out: &StepOutcome, obs: &mut Obs) {
    let st = &w.market.st;
    for is_long in [true, false] {
        for coll_long in [true, false] {
            let mut usd = BigUint::zero();
            let mut tokens = BigUint::zero();
            let mut coll = BigUint::zero();
            let mut n = 0u32;
            for p in &w.positions {
                if p.is_long == is_long && p.is_collateral_token_long == coll_long {
                    usd += bu(p.size_in_usd);
                    tokens += bu(p.size_in_tokens);
                    coll += bu(p.collateral_amount);
                    if p.is_live() {
                        n += 1;
                    }
                }
            }
            let oi = st.pools[if is_long { P_OI_LONG } else { P_OI_SHORT }].amount(coll_long);
            let oit = st.pools[if is_long { P_OI_TOKENS_LONG } else { P_OI_TOKENS_SHORT }].amount(coll_long);
            let cs = st.pools[if is_long { P_COLLATERAL_SUM_LONG } else { P_COLLATERAL_SUM_SHORT }].amount(coll_long);
            let key = || format!("side={},collateral={},op={}", if is_long { "long" } else { "short" }, if coll_long { "long" } else { "short" }, out.op);
            obs.require(bu(oi) == usd, "C07", "oi_usd_sum", key, || {
                format!("open interest pool={oi} Σ size_in_usd={usd} over {n} open positions after {} ({})", out.op, out.class)
            });
            obs.require(bu(oit) == tokens, "C07", "oi_tokens_sum", key, || {
                format!("open interest in tokens pool={oit} Σ size_in_tokens={tokens} over {n} open positions after {} ({})", out.op, out.class)
            });
            obs.require(bu(cs) == coll, "C07", "collateral_sum", key, || {
                format!("collateral sum pool={cs} Σ collateral_amount={coll} over {n} open positions after {} ({})", out.op, out.class)
            });
        }
    }
    if let (Report::Decrease(rep), Some(p)) = (&out.report, &out.pos_after) {
        if rep.should_remove() {
            obs.probe("c07_position_removed");
            obs.require(
                p.size_in_usd == 0 && p.size_in_tokens == 0 && p.collateral_amount == 0,
                "C07",
                "removed_not_zero",
                || format!("op={}", out.op),
                || format!("removed position left as size_in_usd={} size_in_tokens={} collateral={}", p.size_in_usd, p.size_in_tokens, p.collateral_amount),
            );
        }
        if let Some(b) = &out.pos_before {
            if out.req.0 > b.size_in_usd {
                obs.probe("c07_capped_size_delta");
            }
            if *rep.size_delta_usd() == 0 && out.req.1 > 0 {
                obs.probe("c07_collateral_only_withdrawal");
            }
            if *rep.size_delta_usd() > out.req.0 && out.req.0 < b.size_in_usd {
                obs.probe("c07_promoted_to_full_close");
                if b.size_in_tokens <= 8 {
                    obs.probe("c07_promoted_because_tokens_would_reach_zero");
                }
            }
            if !rep.should_remove() {
                obs.probe("c07_partial_decrease");
            }
        }
    }
    if !out.ok && matches!(out.op, "increase" | "decrease" | "liquidate" | "deposit" | "withdraw" | "swap") && out.class != "noop" {
        obs.require(
            w.snap() == out.before,
            "C07",
            "failed_attempt_changed_state",
            || format!("op={}", out.op),
            || format!("state differs from the snapshot after failed {} ({})", out.op, out.class),
        );
    }
}
