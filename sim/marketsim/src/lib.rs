//! marketsim — the pure model (`gmsol-model`) under a simulated clock, failing storage and a token ledger.
//!
//! Layout
//! * `cfg`      — serde types of a run: `Cfg` (swarm configuration incl. `MarketCfg`), `Step`, `ProbeKind`. 128-bit
//!                values are `num::U` / `num::I` (decimal strings in JSON).
//! * `gen`      — `generate(seed, run, tier, focus)`: all random draws (streams `config`, `plan`, `prices`, `faults`),
//!                sub-batches by `run % 8` (plain / faults / misconfig), op-mix per focus, `simplify_*` for the shrinker.
//! * `fault`    — per-thread fault controller "fail the k-th fallible call of this operation" and the trait-contract
//!                rule for `*_mut` accessors.
//! * `world`    — `SimPool`, `MarketState`, `SimMarket` (all market traits), `SimPosition` + `PosOps` (position
//!                traits), `Ledger`, `World` (parties, prices, clock) and `World::exec(step) -> StepOutcome`.
//! * `scenario` — `MarketHistory`: executes a plan, calls every oracle module after every step, runs probes.
//! * `refmath`  — independent big-integer reference arithmetic.
//! * `c02` … `c06` — one module per oracle family (`after_step(&World, &StepOutcome, &mut Obs)` monitors and
//!                `probe_*` fork-style probes).
//!
//! Adding stage-2 oracles (C07–C14, C09, position side of C03): write `cNN::after_step` against `StepOutcome`
//! (it carries the pre-transaction snapshot `before` = market state + all positions + LP balances, the reports of
//! the pre-settlement and of the action, inner swap reports of decreases, insufficient-funding callbacks, the token
//! flows of the step, the position slot and its state before the step) and the post-state `World` (market,
//! positions, `ledger` with per-token totals by category), call it from `scenario.rs`, add probe kinds to
//! `cfg::ProbeKind` + `gen` weights, and register the property in `PROPERTIES` / `registry`.
pub mod c02;
pub mod c03;
pub mod c04;
pub mod c05;
pub mod c06;
pub mod c07;
pub mod c08;
pub mod c09;
pub mod c10;
pub mod c11;
pub mod c12;
pub mod c13;
pub mod c14;
pub mod cfg;
pub mod fault;
pub mod gen;
pub mod num;
pub mod refmath;
pub mod scenario;
pub mod world;

use scenario::MarketHistory;
use simcore::{CheckSpec, Part};

pub const PROPERTIES: &[&str] = &["C02", "C03", "C04", "C05", "C06", "C07", "C08", "C09", "C10", "C11", "C12", "C13", "C14"];

fn common_assumptions() -> Vec<String> {
    vec![
        "Market container (pools, clock, supply, virtual inventories) is the simulator's own implementation of the gmsol-model traits for u128 / 20 decimals; every action executed is the real gmsol-model code from /repo's working tree.".into(),
        "Failed operations are rolled back by the harness (as a failed transaction is by the store), except Swap whose own atomicity is observed before the rollback.".into(),
        "Inputs are those the simulation produces (token decimals 6-9, unit prices 10^11..10^17, pools of $10^3..$10^9, amounts from 1 base unit to more than the pool); no claim of uniform coverage of u128.".into(),
    ]
}

pub fn registry(property: &str) -> Option<CheckSpec> {
    let spec = |property: &'static str, level: &'static str, q: u64, t: u64, extra: Vec<String>| {
        let mut assumptions = common_assumptions();
        assumptions.extend(extra);
        CheckSpec {
            property,
            level,
            parts: vec![Part::new(MarketHistory::for_focus(property), q, t)],
            assumptions,
        }
    };
    match property {
        "C02" => Some(spec("C02", "exploration", 600_000, 5_000_000, vec![
            "FeeParams is driven through the operations and by direct calls of apply_fees / fee on params objects built from the simulated configuration with simulated amounts; LiquidationFeeParams::fee through liquidations and PositionExt::position_fees(.., true) on simulated positions.".into(),
            "Reports do not say which balance-change kind was charged, so a report is accepted if it equals the reference for either factor.".into(),
        ])),
        "C03" => Some(spec("C03", "exploration", 600_000, 5_000_000, vec![
            "Pool balance is measured at mid prices on the requested USD deltas, as the impact computation itself defines it.".into(),
            "Exact reference impacts (virtual inventory clause) exist only for unit-multiple exponents 0x..8x; fractional exponents are exercised but only the sign and round-trip oracles apply to them.".into(),
            "Round-trip tolerance is 2 units of 10^-20 USD (truncation of four fixed-point products).".into(),
        ])),
        "C04" => Some(spec("C04", "fault_enumeration", 300_000, 3_000_000, vec![
            "Fault points are the fallible storage calls the swap makes on SimMarket (pool accessors, parameter getters, pool arithmetic); a *_mut accessor is a fault point only if the pool kind was not read successfully before in the operation (trait contract), and a failed pool kind stays unavailable for the rest of the operation.".into(),
            "Enumeration is exhaustive over the fault points of each sampled swap, not over swaps.".into(),
        ])),
        "C05" => Some(spec("C05", "exploration", 600_000, 5_000_000, vec![
            "Funded impact is read from the swap impact pool deltas and valued at the maximum prices (the most generous reading of the statement).".into(),
        ])),
        "C06" => Some(spec("C06", "exploration", 600_000, 5_000_000, vec![
            "Round trips are forks at points of simulated histories; the fork first settles the fee state (distribute, borrowing, funding) like the store does before every deposit and withdrawal.".into(),
            "Per-token value uses the code's public pool_value under the valuation the leg itself uses; the cross valuations are checked only without price spread and without a binding pnl cap.".into(),
        ])),
        "C07" => Some(spec("C07", "exploration", 600_000, 5_000_000, vec![
            "Sums are taken over the harness' own position slots (2-8 per run, both sides x both collateral tokens); a removed position's slot is reset like a closed position account.".into(),
            "Failed attempts are rolled back by the harness as the store rolls back a failed transaction; the invariant is evaluated after every step, failed or not.".into(),
        ])),
        "C08" => Some(spec("C08", "exploration", 600_000, 5_000_000, vec![
            "The vault is the harness' own ledger of tokens entering and leaving through the report fields the store transfers on (outputs, secondary outputs, claimable funding, claimable collateral for user and holding, fee claims).".into(),
            "Funding collected is taken from the reports, or from the on_insufficient_funding_fee_payment callback when it fired.".into(),
        ])),
        "C13" => Some(spec("C13", "exploration", 600_000, 5_000_000, vec![
            "The factor at which a position last settled is recorded by the harness from the market state at the end of each successful increase / decrease, not read from the position.".into(),
            "total_pending_borrowing_fees is evaluated by the harness after every step (also after clock advances and price changes), both borrowing models (exponent and kink).".into(),
        ])),
        "C12" => Some(spec("C12", "exploration", 600_000, 5_000_000, vec![
            "The rate an update used is not part of its report; the harness obtains it from the public next_funding_factor_per_second on a fork of the pre-state with the same duration and open interest.".into(),
            "The minimum is demanded literally (whenever both sides have open interest); the key separates adaptive from non-adaptive configurations.".into(),
        ])),
        "C14" => Some(spec("C14", "exploration", 600_000, 5_000_000, vec![
            "Elapsed time is the simulated clock minus the harness' snapshot of the last distribution time; the position impact pool is filled by the negative impact of real position operations of the history.".into(),
        ])),
        "C10" => Some(spec("C10", "exploration", 600_000, 5_000_000, vec![
            "The round trip is a fork at a point of a simulated history (other positions open, impact pool empty or filled, funding and borrowing accrued); open and close run at the same prices and simulated time, including the store's pre-settlement when the configuration has it.".into(),
            "Value received = output + secondary output + claimable funding + claimable collateral for the user, at minimum prices; allowance two base units of each pool token.".into(),
        ])),
        "C11" => Some(spec("C11", "exploration", 600_000, 5_000_000, vec![
            "The two closes run on forks of the same state; only the index price (min and max) is scaled, the pool token prices stay as they are even when the index token is the long token.".into(),
            "Proportionality tolerance: one unit of USD plus the pnl of one base unit of the token size (derived in c11.rs).".into(),
        ])),
        "C09" => Some(spec("C09", "exploration", 600_000, 5_000_000, vec![
            "Model part only: validation after increase / decrease and liquidation through DecreasePosition with the liquidation flag, always for the full size (the store rejects partial liquidations); auto-deleveraging is covered by the chain-level part.".into(),
            "check_liquidatable is the repository's public API, called by the harness on forks of the pre- and post-state.".into(),
        ])),
        _ => None,
    }
}
