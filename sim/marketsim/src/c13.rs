//! C13 — borrowing accounting never goes negative.
//!
//! Oracles (after every plan step, including clock advances and price changes)
//! * `borrowing_factor_decreased`: the cumulative borrowing factor of each side after the step is `≥` the one before.
//! * `total_borrowing_sum`: `| total_borrowing(side) − Σ_i ⌊size_i · f_i / 10²⁰⌋ | ≤ n(side)` over the open positions
//!   of the side, where `f_i` is the harness' own record of the cumulative factor the market showed when position
//!   `i` last settled (end of its last successful increase / decrease) and `n` the number of open positions of the
//!   side (the statement allows per-position rounding; the code is exact).
//! * `pending_borrowing_negative`: independent of the API, `⌊OI(side) · F(side) / 10²⁰⌋ ≥ total_borrowing(side)` with the
//!   current cumulative factor `F` (the pending total only grows with the pending time), i.e. the subtraction in
//!   `total_pending_borrowing_fees` cannot underflow.
//! * `pending_borrowing_fails`: `total_pending_borrowing_fees(prices, side)` called by the harness returns `Ok`. The key
//!   carries the cause, determined by the harness: `negative` (the subtraction underflows), `overflow` (`OI · next
//!   factor / 10²⁰` does not fit 128 bits: extreme borrowing factors × years), `rate:<error class>` (the borrowing
//!   rate itself cannot be computed, e.g. reserved value without any pool value on that side).

use gmsol_model::BorrowingFeeMarketExt;
use num_bigint::BigInt;
use num_traits::{Signed, Zero};
use simcore::Obs;

use crate::num::UNIT;
use crate::refmath::{bi, bu};
use crate::world::{
    err_class, StepOutcome, TxErr, World, P_BORROWING_FACTOR, P_OI_LONG, P_OI_SHORT, P_TOTAL_BORROWING,
};

pub fn after_step(w: &World, out: &StepOutcome, obs: &mut Obs) {
    let st = &w.market.st;
    for is_long in [true, false] {
        let side = if is_long { "long" } else { "short" };
        let f_before = out.before.market.pools[P_BORROWING_FACTOR].amount(is_long);
        let f_after = st.pools[P_BORROWING_FACTOR].amount(is_long);
        if f_after > f_before {
            obs.probe("c13_borrowing_factor_grew");
        }
        obs.require(
            f_after >= f_before,
            "C13",
            "borrowing_factor_decreased",
            || format!("side={side},op={}", out.op),
            || format!("cumulative borrowing factor {f_before} -> {f_after} by {} ({})", out.op, out.class),
        );
        // Σ floor(size_i * f_i)
        let mut sum = BigInt::zero();
        let mut n = 0i64;
        for (i, p) in w.positions.iter().enumerate() {
            if p.is_long == is_long && p.is_live() {
                sum += BigInt::from(bu(p.size_in_usd) * bu(w.settled_borrowing_factor[i]) / bu(UNIT));
                n += 1;
            }
        }
        let total = st.pools[P_TOTAL_BORROWING].amount(is_long);
        let diff = (bi(total) - &sum).abs();
        obs.require(
            diff <= BigInt::from(n),
            "C13",
            "total_borrowing_sum",
            || format!("side={side},op={}", out.op),
            || format!("total_borrowing={total} Σ⌊size·factor⌋={sum} over {n} open positions after {} ({})", out.op, out.class),
        );
        let oi = st.pools[if is_long { P_OI_LONG } else { P_OI_SHORT }];
        let oi = bu(oi.long) + bu(oi.short);
        let cap = oi * bu(f_after) / bu(UNIT);
        obs.require(
            cap >= bu(total),
            "C13",
            "pending_borrowing_negative",
            || format!("side={side},op={}", out.op),
            || format!("⌊OI·F⌋={cap} < total_borrowing={total} after {} ({})", out.op, out.class),
        );
    }
    // the API itself, at the current prices and clock
    let mut f = w.fork();
    let prices = f.prices;
    for is_long in [true, false] {
        let (r, _, _, _) = f.run_tx(0, |w, _| w.market.total_pending_borrowing_fees(&prices, is_long));
        match r {
            Ok(v) => {
                if v > 0 {
                    obs.probe("c13_pending_borrowing_positive");
                }
                obs.checked("pending_borrowing_fails");
            }
            Err(e) => {
                let msg = match e {
                    TxErr::Model(e) => e.to_string(),
                    TxErr::Panic(p) => format!("panic: {p}"),
                };
                // why: the subtraction (negative), the multiplication OI x factor (overflow), or the rate itself
                let (r2, _, _, _) = f.run_tx(0, |w, _| {
                    let d = gmsol_model::BorrowingFeeMarket::passed_in_seconds_for_borrowing(&w.market)?;
                    w.market.next_cumulative_borrowing_factor(is_long, &prices, d)
                });
                let cause = match r2 {
                    Ok((next, _)) => {
                        let oi = w.market.st.pools[if is_long { P_OI_LONG } else { P_OI_SHORT }];
                        let v = (bu(oi.long) + bu(oi.short)) * bu(next) / bu(UNIT);
                        if !crate::refmath::fits_u128(&v) {
                            "overflow".to_string()
                        } else if v < bu(w.market.st.pools[P_TOTAL_BORROWING].amount(is_long)) {
                            "negative".to_string()
                        } else {
                            "other".to_string()
                        }
                    }
                    Err(TxErr::Model(e)) => format!("rate:{}", err_class(&e)),
                    Err(TxErr::Panic(_)) => "rate:panic".to_string(),
                };
                obs.violation(
                    "C13",
                    "pending_borrowing_fails",
                    format!("side={},cause={cause},misconfig={}", if is_long { "long" } else { "short" }, w.cfg.misconfig),
                    format!("total_pending_borrowing_fees failed after {} ({}): {msg}", out.op, out.class),
                );
            }
        }
    }
}
