//! C03 — price impact penalises imbalance and cannot be farmed by round trips.
//!
//! "Pool balance" is `|long_usd − short_usd|` of the liquidity pool at the prices the code uses for the impact (the
//! mid prices), "the trade" is the requested change of those USD values (swap: `+in·mid_in` on the input side and
//! `−in·mid_in` on the output side; deposit: `+long·mid_long`, `+short·mid_short`). Everything is recomputed with
//! big integers from the pool amounts, prices and the request.
//!
//! Oracles
//! * `impact_sign` (a): balance worsened ⇒ reported impact ≤ 0; balance improved ⇒ reported impact ≥ 0. The key
//!   carries `cross_over` (sign of `long_usd − short_usd` flips) so that the anticipated cross-over deviation is
//!   distinguishable from a same-side violation.
//! * `virtual_inventory_impact`: with a virtual inventory configured, reported impact ≤ real-pool impact and equal
//!   to it whenever the real-pool impact is ≥ 0. The real-pool impact is an exact big-integer evaluation of
//!   `f·x^e` with the capped positive factor; it is only available for unit-multiple exponents (0×…8×: repeated
//!   truncating fixed-point multiplication, exactly the documented semantics); for other exponents this oracle is
//!   not evaluated.
//! * `round_trip_positive` (b): probe — impact of token deltas on the current pool plus impact of the exact
//!   reverse on the resulting pool is ≤ 0 up to 2 units of 10⁻²⁰ USD (each impact is a difference of two
//!   truncated products; four truncations of < 1 unit each, two of them in the unfavourable direction). Both calls
//!   go through the public `pool_delta_with_amounts(..).price_impact(params)` with the configured params. Also for
//!   open interest through `position_price_impact(±size)`.
//! * position side (`after_step_positions`): `impact_sign` and `virtual_inventory_impact` for increase / decrease
//!   reports with the balance `|long OI − short OI|` and the trade `±size_delta_usd`; with a virtual inventory for
//!   positions the uncapped reported impact (`value − price_impact_diff` for decreases) is `≤` the real open-interest
//!   impact when that is negative, and `0 ≤ reported ≤ real` when it is not (the reported positive impact may be
//!   capped below it).
//! * `adjusted_factors_order` (c): `adjusted_factors().0 ≤ .1` for both configured params objects.

use gmsol_model::{
    params::PriceImpactParams, BalanceExt, BaseMarket, PerpMarketMutExt, Pool, PositionExt, PositionImpactMarket,
    SwapMarket,
};
use num_bigint::BigInt;
use num_traits::{Signed, Zero};
use simcore::Obs;

use crate::cfg::ImpactCfg;
use crate::num::UNIT;
use crate::refmath::{bs, bu, mid, ref_price_impact, Change};
use crate::world::{PosOps, Report, StepOutcome, World, P_PRIMARY};

fn params_of(c: &ImpactCfg) -> PriceImpactParams<u128> {
    PriceImpactParams::builder()
        .exponent(c.exponent.0)
        .positive_factor(c.positive_factor.0)
        .negative_factor(c.negative_factor.0)
        .build()
}

pub fn once_per_run(w: &World, obs: &mut Obs) {
    for (name, c) in [("swap", &w.cfg.market.swap_impact), ("position", &w.cfg.market.position_impact)] {
        let p = params_of(c);
        let (a, b) = p.adjusted_factors();
        if c.positive_factor.0 > c.negative_factor.0 {
            obs.probe("c03_positive_factor_above_negative_configured");
        }
        obs.require(
            a <= b,
            "C03",
            "adjusted_factors_order",
            || format!("params={name}"),
            || format!("configured ({}, {}) adjusted ({a}, {b})", c.positive_factor.0, c.negative_factor.0),
        );
    }
}

pub fn after_step(w: &World, out: &StepOutcome, obs: &mut Obs) {
    if !out.ok {
        return;
    }
    let (op, reported, dl, ds): (&'static str, i128, BigInt, BigInt) = match &out.report {
        Report::Swap(rep) => {
            let li = out.swap_long_in;
            let p_in = if li { out.prices.long_token_price } else { out.prices.short_token_price };
            let v = BigInt::from(bu(*rep.params().token_in_amount()) * bu(mid(p_in.min, p_in.max)));
            let (dl, ds) = if li { (v.clone(), -v) } else { (-v.clone(), v) };
            ("swap", *rep.price_impact(), dl, ds)
        }
        Report::Deposit(rep) => {
            let pl = out.prices.long_token_price;
            let ps = out.prices.short_token_price;
            let dl = BigInt::from(bu(*rep.params().long_token_amount()) * bu(mid(pl.min, pl.max)));
            let ds = BigInt::from(bu(*rep.params().short_token_amount()) * bu(mid(ps.min, ps.max)));
            ("deposit", *rep.price_impact(), dl, ds)
        }
        _ => return,
    };
    // liquidity pool the impact was computed on (the pre-settlement does not touch it)
    let pool = match &out.swap_pre {
        Some(pre) => pre.pools[P_PRIMARY],
        None => out.before.market.pools[P_PRIMARY],
    };
    let pl = out.prices.long_token_price;
    let ps = out.prices.short_token_price;
    let l0 = bu(pool.long) * bu(mid(pl.min, pl.max));
    let s0 = bu(pool.short) * bu(mid(ps.min, ps.max));
    let c = &w.cfg.market.swap_impact;
    let Some(r) = ref_price_impact(&l0, &s0, &dl, &ds, c.positive_factor.0, c.negative_factor.0, c.exponent.0) else {
        return;
    };
    if r.cross_over {
        obs.probe(if op == "swap" { "cross_over_swap" } else { "cross_over_deposit" });
    }
    let vi = w.cfg.market.vi_swaps.is_some();
    match r.change {
        Change::Worsened => {
            obs.require(
                reported <= 0,
                "C03",
                "impact_sign",
                || format!("change=worsened,cross_over={},op={op},vi={vi}", r.cross_over),
                || format!("initial_diff={} next_diff={} reported_impact={reported}", r.initial_diff, r.next_diff),
            );
        }
        Change::Improved => {
            obs.require(
                reported >= 0,
                "C03",
                "impact_sign",
                || format!("change=improved,cross_over={},op={op},vi={vi}", r.cross_over),
                || {
                    format!(
                        "initial_diff={} next_diff={} reported_impact={reported} factors=({},{}) exponent={}",
                        r.initial_diff, r.next_diff, c.positive_factor.0, c.negative_factor.0, c.exponent.0
                    )
                },
            );
        }
        Change::Unchanged => {}
    }
    if vi {
        if let Some(real) = &r.value {
            obs.probe("c03_vi_clause_evaluated");
            let rep = bs(reported);
            if &rep < real {
                obs.probe("c03_vi_impact_chosen");
            }
            let ok = &rep <= real && (real.is_negative() || &rep == real);
            obs.require(
                ok,
                "C03",
                "virtual_inventory_impact",
                || format!("op={op},real_nonnegative={},reported_above_real={}", !real.is_negative(), &rep > real),
                || format!("reported={reported} real_pool_impact={real}"),
            );
        } else {
            obs.probe("c03_vi_clause_not_computable");
        }
    }
}

/// (b) on the liquidity pool with token deltas.
pub fn probe_round_trip(w: &World, long_delta: i128, short_delta: i128, obs: &mut Obs) {
    let mut f = w.fork();
    let prices = f.prices;
    let pl = mid(prices.long_token_price.min, prices.long_token_price.max);
    let ps = mid(prices.short_token_price.min, prices.short_token_price.max);
    let (r, _, _, _) = f.run_tx(0, |w, _| {
        let params = w.market.swap_impact_params()?;
        let pool = *w.market.liquidity_pool()?;
        let fwd = pool
            .pool_delta_with_amounts(&long_delta, &short_delta, &pl, &ps)?
            .price_impact::<20>(&params)?;
        let next = pool.checked_apply_delta(gmsol_model::Delta::new_both_sides(true, &long_delta, &short_delta))?;
        let back = next
            .pool_delta_with_amounts(&(-long_delta), &(-short_delta), &pl, &ps)?
            .price_impact::<20>(&params)?;
        Ok((fwd.value, back.value))
    });
    match r {
        Ok((a, b)) => {
            let sum = bs(a) + bs(b);
            if !a.is_zero() || !b.is_zero() {
                obs.probe("c03_round_trip_nonzero");
            }
            obs.require(
                sum <= BigInt::from(2),
                "C03",
                "round_trip_positive",
                || "pool=liquidity".to_string(),
                || {
                    format!(
                        "pool=({},{}) deltas=({long_delta},{short_delta}) prices=({pl},{ps}) forward={a} reverse={b} sum={sum}",
                        w.market.st.pools[P_PRIMARY].long, w.market.st.pools[P_PRIMARY].short
                    )
                },
            );
        }
        Err(_) => obs.probe("c03_round_trip_not_computable"),
    }
}

/// (b) for open interest: `position_price_impact(+size)`, apply the size to the open interest, then `(-size)`.
pub fn probe_position_round_trip(w: &World, pos: u8, size_usd: u128, obs: &mut Obs) {
    let idx = pos as usize % w.positions.len();
    let Ok(size) = i128::try_from(size_usd) else { return };
    if size == 0 {
        return;
    }
    for include_vi in [false, true] {
        if include_vi && w.cfg.market.vi_positions.is_none() {
            continue;
        }
        let mut f = w.fork();
        let (r, _, _, _) = f.run_tx(0, |w, _| {
            let mut p = w.positions[idx];
            let (is_long, coll_long) = (p.is_long, p.is_collateral_token_long);
            let fwd = {
                let ops = PosOps { market: &mut w.market, pos: &mut p, inner: vec![] };
                ops.position_price_impact(&size, include_vi)?
            };
            // position impact params are read once more so that a fallible getter is part of the probe
            let _ = w.market.position_impact_params()?;
            w.market.apply_delta_to_open_interest(is_long, coll_long, &size)?;
            let back = {
                let ops = PosOps { market: &mut w.market, pos: &mut p, inner: vec![] };
                ops.position_price_impact(&(-size), include_vi)?
            };
            Ok((fwd.value, back.value))
        });
        match r {
            Ok((a, b)) => {
                let sum = bs(a) + bs(b);
                if !a.is_zero() || !b.is_zero() {
                    obs.probe("c03_position_round_trip_nonzero");
                }
                obs.require(
                    sum <= BigInt::from(2),
                    "C03",
                    "round_trip_positive",
                    || format!("pool=open_interest,virtual_inventory={include_vi}"),
                    || format!("size={size} forward={a} reverse={b} sum={sum}"),
                );
            }
            Err(_) => obs.probe("c03_position_round_trip_not_computable"),
        }
    }
}

/// (a) and the virtual-inventory clause for position operations: the balance is `|long OI − short OI|` in USD, the
/// trade is `±size_delta_usd` on the position's side. The reported impact of an increase is capped when positive
/// (impact pool and max factor); the one of a decrease is capped on both sides, the uncapped negative value is
/// `value − price_impact_diff`.
pub fn after_step_positions(w: &World, out: &StepOutcome, obs: &mut Obs) {
    if !out.ok {
        return;
    }
    let Some(pb) = out.pos_before else { return };
    let (op, reported, diff, delta): (&'static str, i128, u128, BigInt) = match &out.report {
        Report::Increase(rep) => ("increase", *rep.execution().price_impact_value(), 0, BigInt::from(out.req.1)),
        Report::Decrease(rep) => ("decrease", *rep.price_impact_value(), *rep.price_impact_diff(), -BigInt::from(*rep.size_delta_usd())),
        _ => return,
    };
    if delta.is_zero() {
        return;
    }
    let pre = &out.before.market;
    let l0 = bu(pre.pools[crate::world::P_OI_LONG].long) + bu(pre.pools[crate::world::P_OI_LONG].short);
    let s0 = bu(pre.pools[crate::world::P_OI_SHORT].long) + bu(pre.pools[crate::world::P_OI_SHORT].short);
    let (dl, ds) = if pb.is_long { (delta.clone(), BigInt::zero()) } else { (BigInt::zero(), delta.clone()) };
    let c = &w.cfg.market.position_impact;
    let Some(r) = ref_price_impact(&l0, &s0, &dl, &ds, c.positive_factor.0, c.negative_factor.0, c.exponent.0) else {
        return;
    };
    if r.cross_over {
        obs.probe("cross_over_position");
    }
    let vi = w.cfg.market.vi_positions.is_some();
    match r.change {
        Change::Worsened => {
            obs.require(
                reported <= 0,
                "C03",
                "impact_sign",
                || format!("change=worsened,cross_over={},op={op},vi={vi}", r.cross_over),
                || format!("open interest diff {} -> {} reported_impact={reported}", r.initial_diff, r.next_diff),
            );
        }
        Change::Improved => {
            obs.require(
                reported >= 0,
                "C03",
                "impact_sign",
                || format!("change=improved,cross_over={},op={op},vi={vi}", r.cross_over),
                || format!("open interest diff {} -> {} reported_impact={reported} factors=({},{}) exponent={}", r.initial_diff, r.next_diff, c.positive_factor.0, c.negative_factor.0, c.exponent.0),
            );
        }
        Change::Unchanged => {}
    }
    if vi {
        if let Some(real) = &r.value {
            obs.probe("c03_vi_positions_clause_evaluated");
            let ok = if real.is_negative() {
                // uncapped reported value must not be more favourable than the real-pool impact
                let uncapped = bs(reported) - BigInt::from(diff);
                if &uncapped < real {
                    obs.probe("c03_vi_positions_impact_chosen");
                }
                &uncapped <= real
            } else {
                // never negative, never above the real impact (it may be capped below it)
                reported >= 0 && &bs(reported) <= real
            };
            obs.require(
                ok,
                "C03",
                "virtual_inventory_impact",
                || format!("op={op},real_nonnegative={}", !real.is_negative()),
                || format!("reported={reported} price_impact_diff={diff} real_open_interest_impact={real}"),
            );
        }
    }
}

#[allow(dead_code)]
const _UNIT: u128 = UNIT;
