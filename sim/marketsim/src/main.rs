fn main() {
    simcore::cli_main(&marketsim::registry, marketsim::PROPERTIES)
}
