//! C04 — a swap moves exactly the traded tokens and is all-or-nothing.
//!
//! Oracles
//! * `swap_holdings_in`:  success ⇒ ΔH_in  == amount_in            (H_t = liquidity_t + swap_impact_t + claimable_fee_t)
//! * `swap_holdings_out`: success ⇒ ΔH_out == −token_out_amount
//! * `failed_swap_changed_market`: failure ⇒ the market left behind by the swap action (not restored by the
//!   harness) equals the market right before it, bit for bit (every pool, supply, funding factor, clocks).
//! * `fault_enum_not_failed` / `fault_enum_changed_market`: fault enumeration — for a swap with *n* fallible
//!   storage calls in a clean execution, the swap is re-executed *n* times from the same state failing call
//!   1..n; each execution must return `Err` and leave the market bit-identical.

use num_bigint::BigInt;
use simcore::Obs;

use crate::world::{MarketState, Report, StepOutcome, World, P_CLAIMABLE_FEE, P_PRIMARY, P_SWAP_IMPACT};

fn holdings(st: &MarketState, is_long: bool) -> BigInt {
    BigInt::from(st.pools[P_PRIMARY].amount(is_long))
        + BigInt::from(st.pools[P_SWAP_IMPACT].amount(is_long))
        + BigInt::from(st.pools[P_CLAIMABLE_FEE].amount(is_long))
}

pub fn after_step(w: &World, out: &StepOutcome, obs: &mut Obs) {
    if out.op != "swap" {
        return;
    }
    let Some(pre) = &out.swap_pre else {
        return; // the swap action was not reached (pre-update failed)
    };
    if out.ok {
        let Report::Swap(rep) = &out.report else { return };
        let post = &w.market.st;
        let li = out.swap_long_in;
        let d_in = holdings(post, li) - holdings(pre, li);
        let d_out = holdings(post, !li) - holdings(pre, !li);
        let amount_in = BigInt::from(*rep.params().token_in_amount());
        let amount_out = BigInt::from(*rep.token_out_amount());
        let capped = post.pools[P_SWAP_IMPACT].amount(li) < pre.pools[P_SWAP_IMPACT].amount(li);
        if capped {
            obs.probe("swap_capped_positive_impact");
        }
        if *rep.price_impact() > 0 {
            obs.probe("swap_positive_impact");
        } else if *rep.price_impact() < 0 {
            obs.probe("swap_negative_impact");
        } else {
            obs.probe("swap_zero_impact");
        }
        obs.require(
            d_in == amount_in,
            "C04",
            "swap_holdings_in",
            || format!("long_in={li},capped={capped},impact_positive={}", *rep.price_impact() > 0),
            || format!("ΔH_in={d_in} amount_in={amount_in}"),
        );
        obs.require(
            d_out == -amount_out.clone(),
            "C04",
            "swap_holdings_out",
            || format!("long_in={li},capped={capped},impact_positive={}", *rep.price_impact() > 0),
            || format!("ΔH_out={d_out} token_out_amount={amount_out}"),
        );
    } else if let Some(left) = &out.swap_failed_state {
        if out.class == "panic" {
            obs.probe("swap_panicked");
        } else if out.fault_fired.is_some() {
            obs.probe("swap_failed_by_fault");
        } else {
            obs.probe("swap_rejected");
        }
        obs.require(
            left == pre,
            "C04",
            "failed_swap_changed_market",
            || format!("class={},fault={}", out.class, out.fault_fired.is_some()),
            || {
                format!(
                    "error={:?} first difference {}",
                    out.error,
                    left.first_diff(pre).unwrap_or_default()
                )
            },
        );
    }
}

/// Fault enumeration for one swap on (a clone of) the current world. Returns the number of fault points.
pub fn enumerate(w: &World, long_in: bool, amount: u128, obs: &mut Obs) -> u32 {
    let mut base = w.fork();
    // the borrowing pre-update of the transaction, cleanly
    let (r, _, _, _) = base.run_tx(0, |w, sc| w.tx_swap_pre(sc));
    if r.is_err() {
        obs.probe("enum_skipped_pre_update_failed");
        return 0;
    }
    let pre = base.market.st.clone();
    let mut clean = base.fork();
    let (r0, _, n, _) = clean.run_tx(0, |w, sc| w.tx_swap_only(sc, long_in, amount));
    if r0.is_err() {
        obs.probe("enum_on_rejected_swap");
    } else {
        obs.probe("enum_on_successful_swap");
    }
    for k in 1..=n {
        let mut wk = base.fork();
        let (rk, _, _, fired) = wk.run_tx(k, |w, sc| w.tx_swap_only(sc, long_in, amount));
        let Some(fired) = fired else {
            // cannot happen for k <= n with a deterministic execution; count it so that it is visible
            obs.probe("enum_fault_did_not_fire");
            continue;
        };
        obs.fault(fired.pt.name());
        obs.probe("swap_fault_points");
        obs.require(
            rk.is_err(),
            "C04",
            "fault_enum_not_failed",
            || format!("point={}", fired.pt.name()),
            || format!("swap returned Ok although fallible call {k}/{n} ({:?}) failed", fired.pt),
        );
        obs.require(
            wk.market.st == pre,
            "C04",
            "fault_enum_changed_market",
            || format!("point={}", fired.pt.name()),
            || {
                format!(
                    "call {k}/{n} ({:?}) failed; first difference {}",
                    fired.pt,
                    wk.market.st.first_diff(&pre).unwrap_or_default()
                )
            },
        );
        if obs.should_stop() {
            break;
        }
    }
    n
}
