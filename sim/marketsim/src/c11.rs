//! C11 — position profit and loss moves with the price in the right direction.
//!
//! Probe (forks of the world, one live position): full close at the current prices (`p1`), full close with both index
//! prices scaled by `(10000 + bump)/10000` (`p2 > p1`, everything else equal), partial close at `p1`.
//!
//! Oracles
//! * `pnl_direction`: long `pnl(p1) ≤ pnl(p2)`, short `pnl(p1) ≥ pnl(p2)` for the realised (credited) pnl of the two full
//!   closes. The key carries `capped` (the credited pnl differs from the uncapped pnl in one of the two closes: the cap
//!   scales the position's pnl by `cap / pool pnl`, and the pool pnl depends on the price too).
//! * `uncapped_pnl_direction`: the same for the uncapped pnl of the two reports.
//! * `credited_above_uncapped`: `pnl ≤ uncapped pnl` in every decrease report (probe closes and every real decrease /
//!   liquidation of the history).
//! * `partial_pnl_not_proportional`: with `S`, `T` the position's size in USD / tokens, `P` the pnl of the full close,
//!   `D` the size delta the partial close actually executed and `Pp` its pnl:
//!   `|Pp·S − D·P| ≤ S·(1 + ⌈|P|/T⌉)`. Derivation: the code realises `Pp = trunc(t·P/T)` with
//!   `t = ⌈T·D/S⌉` (long) or `⌊T·D/S⌋` (short), so `|t·S − T·D| < S` (one token unit) and `|Pp − t·P/T| < 1`; hence
//!   `|Pp·S − D·P| < S + S·|P|/T`: one unit of USD plus the pnl of one base unit of the token size.

use gmsol_model::action::decrease_position::{DecreasePositionFlags, DecreasePositionReport, DecreasePositionSwapType};
use gmsol_model::price::Prices;
use num_bigint::BigInt;
use num_traits::Signed;
use simcore::Obs;

use crate::refmath::{bi, bs};
use crate::world::{mul_div_u128, Report, StepOutcome, World};

fn close(w: &World, idx: usize, prices: Prices<u128>, size_delta: u128, full: bool) -> Option<Box<DecreasePositionReport<u128, i128>>> {
    let mut f = w.fork();
    f.prices = prices;
    let flags = DecreasePositionFlags {
        is_insolvent_close_allowed: full,
        is_liquidation_order: false,
        is_cap_size_delta_usd_allowed: false,
    };
    let (r, _, _, _) = f.run_tx(0, |w, sc| w.tx_decrease(sc, idx, size_delta, 0, flags, DecreasePositionSwapType::NoSwap, None, None));
    r.ok()
}

fn check_credited(rep: &DecreasePositionReport<u128, i128>, via: &'static str, obs: &mut Obs) {
    let (p, u) = (*rep.pnl().pnl(), *rep.pnl().uncapped_pnl());
    if p != u {
        obs.probe("c11_pnl_capped");
    }
    obs.require(p <= u, "C11", "credited_above_uncapped", || format!("via={via}"), || format!("pnl={p} uncapped={u}"));
}

pub fn after_step(_w: &World, out: &StepOutcome, obs: &mut Obs) {
    if let Report::Decrease(rep) = &out.report {
        check_credited(rep, "step", obs);
    }
}

pub fn probe_pnl(w: &World, pos: u8, bump_bps: u32, partial_bps: u32, obs: &mut Obs) {
    let live = w.live_positions();
    if live.is_empty() {
        return;
    }
    let idx = live[pos as usize % live.len()];
    let p = w.positions[idx];
    if p.size_in_usd == 0 || p.size_in_tokens == 0 {
        return;
    }
    let p1 = w.prices;
    let mut p2 = p1;
    let scale = |x: u128| mul_div_u128(x, 10_000 + bump_bps as u128, 10_000);
    p2.index_token_price.min = scale(p1.index_token_price.min);
    p2.index_token_price.max = scale(p1.index_token_price.max);
    if p2.index_token_price.min <= p1.index_token_price.min || p2.index_token_price.max <= p1.index_token_price.max {
        return;
    }
    let r1 = close(w, idx, p1, p.size_in_usd, true);
    let r2 = close(w, idx, p2, p.size_in_usd, true);
    if let Some(r) = &r1 {
        check_credited(r, "probe", obs);
    }
    if let Some(r) = &r2 {
        check_credited(r, "probe", obs);
    }
    let side = if p.is_long { "long" } else { "short" };
    if let (Some(a), Some(b)) = (&r1, &r2) {
        obs.probe("c11_two_closes_ok");
        let (pa, pb) = (*a.pnl().pnl(), *b.pnl().pnl());
        let (ua, ub) = (*a.pnl().uncapped_pnl(), *b.pnl().uncapped_pnl());
        let capped = pa != ua || pb != ub;
        let ok = if p.is_long { pa <= pb } else { pa >= pb };
        obs.require(
            ok,
            "C11",
            "pnl_direction",
            || format!("side={side},capped={capped}"),
            || format!("index {:?} -> {:?}: pnl {pa} -> {pb} (uncapped {ua} -> {ub})", (p1.index_token_price.min, p1.index_token_price.max), (p2.index_token_price.min, p2.index_token_price.max)),
        );
        let ok = if p.is_long { ua <= ub } else { ua >= ub };
        obs.require(ok, "C11", "uncapped_pnl_direction", || format!("side={side}"), || format!("uncapped pnl {ua} -> {ub}"));
    } else {
        obs.probe("c11_close_rejected");
    }
    // partial close
    let delta = mul_div_u128(p.size_in_usd, partial_bps.min(10_000) as u128, 10_000);
    if delta == 0 {
        return;
    }
    if let (Some(full), Some(part)) = (&r1, close(w, idx, p1, delta, false)) {
        check_credited(&part, "probe", obs);
        let d = *part.size_delta_usd();
        if d == p.size_in_usd {
            obs.probe("c11_partial_promoted_to_full");
        } else {
            obs.probe("c11_partial_close_ok");
        }
        let pf = bs(*full.pnl().pnl());
        let pp = bs(*part.pnl().pnl());
        let s = bi(p.size_in_usd);
        let t = bi(p.size_in_tokens);
        let lhs = (&pp * &s - bi(d) * &pf).abs();
        let per_token = (pf.abs() + &t - BigInt::from(1)) / &t;
        let rhs = &s * (BigInt::from(1) + per_token);
        obs.require(
            lhs <= rhs,
            "C11",
            "partial_pnl_not_proportional",
            || format!("side={side},promoted={}", d == p.size_in_usd),
            || format!("size={} tokens={} full pnl={pf} partial delta={d} partial pnl={pp}: |Pp·S − D·P|={lhs} > {rhs}", p.size_in_usd, p.size_in_tokens),
        );
    }
}
