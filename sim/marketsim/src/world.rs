//! The simulated world: `SimMarket` / `SimPosition` (own implementations of the `gmsol-model` market and position
//! traits for `u128`/20 decimals, with a simulated clock and failing storage), parties, token ledger and the
//! transactional execution of plan steps. Every *action* executed here is the real code of `gmsol-model`.

use std::ops::{Deref, DerefMut};
use std::panic::{catch_unwind, AssertUnwindSafe};
use std::rc::Rc;

use gmsol_model::{
    action::{
        decrease_position::{DecreasePositionFlags, DecreasePositionReport, DecreasePositionSwapType},
        deposit::DepositReport,
        distribute_position_impact::DistributePositionImpactReport,
        increase_position::IncreasePositionReport,
        swap::SwapReport,
        update_borrowing_state::UpdateBorrowingReport,
        update_funding_state::UpdateFundingReport,
        withdraw::WithdrawReport,
    },
    params::{
        fee::{
            BorrowingFeeKinkModelParams, BorrowingFeeKinkModelParamsForOneSide, BorrowingFeeParams,
            FundingFeeParams, LiquidationFeeParams,
        },
        position::PositionImpactDistributionParams,
        FeeParams, PositionParams, PriceImpactParams,
    },
    pool::{Balance, Delta, Pool},
    price::{Price, Prices},
    BaseMarket, BaseMarketMut, BorrowingFeeMarket, BorrowingFeeMarketMut, BorrowingFeeMarketMutExt,
    Error, LiquidityMarket, LiquidityMarketMut, LiquidityMarketMutExt, MarketAction, PerpMarket,
    PerpMarketMut, PerpMarketMutExt, PnlFactorKind, Position, PositionImpactMarket,
    PositionImpactMarketMut, PositionImpactMarketMutExt, PositionMut, PositionMutExt, PositionState,
    PositionStateMut, SwapMarket, SwapMarketMut, SwapMarketMutExt,
};
use num_bigint::BigUint;

use crate::cfg::{Cfg, FeeCfg, ImpactCfg, MarketCfg, PriceCfg, PricesCfg, Step};
use crate::fault::{self, Fired, Pt};

pub type Res<T> = gmsol_model::Result<T>;

// ---------------------------------------------------------------------------------------------------------
// Pools
// ---------------------------------------------------------------------------------------------------------

pub const P_PRIMARY: usize = 0;
pub const P_SWAP_IMPACT: usize = 1;
pub const P_CLAIMABLE_FEE: usize = 2;
pub const P_OI_LONG: usize = 3;
pub const P_OI_SHORT: usize = 4;
pub const P_OI_TOKENS_LONG: usize = 5;
pub const P_OI_TOKENS_SHORT: usize = 6;
pub const P_POSITION_IMPACT: usize = 7;
pub const P_BORROWING_FACTOR: usize = 8;
pub const P_FUNDING_LONG: usize = 9;
pub const P_FUNDING_SHORT: usize = 10;
pub const P_CLAIMABLE_FUNDING_LONG: usize = 11;
pub const P_CLAIMABLE_FUNDING_SHORT: usize = 12;
pub const P_COLLATERAL_SUM_LONG: usize = 13;
pub const P_COLLATERAL_SUM_SHORT: usize = 14;
pub const P_TOTAL_BORROWING: usize = 15;
pub const P_VI_SWAPS: usize = 16;
pub const P_VI_POSITIONS: usize = 17;
pub const N_POOLS: usize = 18;

pub const POOL_NAMES: [&str; N_POOLS] = [
    "primary",
    "swap_impact",
    "claimable_fee",
    "oi_long",
    "oi_short",
    "oi_tokens_long",
    "oi_tokens_short",
    "position_impact",
    "borrowing_factor",
    "funding_long",
    "funding_short",
    "claimable_funding_long",
    "claimable_funding_short",
    "collateral_sum_long",
    "collateral_sum_short",
    "total_borrowing",
    "vi_swaps",
    "vi_positions",
];

/// A two-sided balance with failing arithmetic.
#[derive(Clone, Copy, Debug, Default, PartialEq, Eq)]
pub struct SimPool {
    pub long: u128,
    pub short: u128,
    pub id: u8,
}

impl SimPool {
    pub fn amount(&self, is_long: bool) -> u128 {
        if is_long {
            self.long
        } else {
            self.short
        }
    }
}

impl Balance for SimPool {
    type Num = u128;
    type Signed = i128;
    fn long_amount(&self) -> Res<u128> {
        Ok(self.long)
    }
    fn short_amount(&self) -> Res<u128> {
        Ok(self.short)
    }
}

fn apply_signed(x: u128, d: i128, kind: &'static str) -> Res<u128> {
    if d >= 0 {
        x.checked_add(d.unsigned_abs()).ok_or(Error::Overflow)
    } else {
        x.checked_sub(d.unsigned_abs()).ok_or(Error::Computation(kind))
    }
}

impl Pool for SimPool {
    fn checked_apply_delta(&self, delta: Delta<&i128>) -> Res<Self> {
        fault::tick(Pt::Apply(self.id))?;
        let mut ans = *self;
        if let Some(d) = delta.long() {
            ans.long = apply_signed(ans.long, **d, "decreasing long amount")?;
        }
        if let Some(d) = delta.short() {
            ans.short = apply_signed(ans.short, **d, "decreasing short amount")?;
        }
        Ok(ans)
    }
}

// ---------------------------------------------------------------------------------------------------------
// Market
// ---------------------------------------------------------------------------------------------------------

pub const CLOCK_FUNDING: usize = 0;
pub const CLOCK_BORROWING: usize = 1;
pub const CLOCK_DISTRIBUTION: usize = 2;

/// Everything of a market that operations can change. "Bit-identical" in C04 means equality of this struct.
#[derive(Clone, Debug, PartialEq, Eq)]
pub struct MarketState {
    pub total_supply: u128,
    pub pools: [SimPool; N_POOLS],
    pub funding_factor_per_second: i128,
    /// Last update time of the funding, borrowing and impact-distribution clocks.
    pub clocks: [i64; 3],
    /// The simulated wall clock (owned by the world; never changed by an operation).
    pub now: i64,
}

impl MarketState {
    /// First pool that differs from `other` (for violation details).
    pub fn first_diff(&self, other: &MarketState) -> Option<String> {
        for i in 0..N_POOLS {
            if self.pools[i] != other.pools[i] {
                return Some(format!(
                    "{}: ({},{}) vs ({},{})",
                    POOL_NAMES[i], self.pools[i].long, self.pools[i].short, other.pools[i].long, other.pools[i].short
                ));
            }
        }
        if self.total_supply != other.total_supply {
            return Some(format!("total_supply: {} vs {}", self.total_supply, other.total_supply));
        }
        if self.funding_factor_per_second != other.funding_factor_per_second {
            return Some("funding_factor_per_second".into());
        }
        if self.clocks != other.clocks {
            return Some(format!("clocks: {:?} vs {:?}", self.clocks, other.clocks));
        }
        None
    }
}

#[derive(Clone, Copy, Debug, PartialEq, Eq)]
pub struct InsufficientFunding {
    pub cost_amount: u128,
    pub paid_in_collateral_amount: u128,
    pub paid_in_secondary_output_amount: u128,
    pub is_collateral_token_long: bool,
}

#[derive(Clone, Debug)]
pub struct SimMarket {
    pub p: Rc<MarketCfg>,
    pub st: MarketState,
    /// Per-order discount factor (the store computes it per user from referral / GT state).
    pub order_discount: Option<u128>,
    /// `on_insufficient_funding_fee_payment` callbacks of the current operation.
    pub events: Vec<InsufficientFunding>,
}

fn impact_params(c: &ImpactCfg) -> PriceImpactParams<u128> {
    PriceImpactParams::builder()
        .exponent(c.exponent.0)
        .positive_factor(c.positive_factor.0)
        .negative_factor(c.negative_factor.0)
        .build()
}

pub fn fee_params(c: &FeeCfg, discount: Option<u128>) -> FeeParams<u128> {
    let p = FeeParams::builder()
        .fee_receiver_factor(c.receiver_factor.0)
        .positive_impact_fee_factor(c.positive_impact_fee_factor.0)
        .negative_impact_fee_factor(c.negative_impact_fee_factor.0)
        .build();
    match discount.or(c.discount_factor.map(|d| d.0)) {
        Some(d) => p.with_discount_factor(d),
        None => p,
    }
}

impl SimMarket {
    pub fn new(p: Rc<MarketCfg>, now: i64) -> Self {
        let mut pools = [SimPool::default(); N_POOLS];
        for (i, pool) in pools.iter_mut().enumerate() {
            pool.id = i as u8;
        }
        if let Some(v) = &p.vi_swaps {
            pools[P_VI_SWAPS].long = v[0].0;
            pools[P_VI_SWAPS].short = v[1].0;
        }
        if let Some(v) = &p.vi_positions {
            pools[P_VI_POSITIONS].long = v[0].0;
            pools[P_VI_POSITIONS].short = v[1].0;
        }
        SimMarket {
            p,
            st: MarketState {
                total_supply: 0,
                pools,
                funding_factor_per_second: 0,
                clocks: [now; 3],
                now,
            },
            order_discount: None,
            events: vec![],
        }
    }

    #[inline]
    fn pool(&self, id: usize) -> Res<&SimPool> {
        fault::tick(Pt::Pool(id as u8))?;
        Ok(&self.st.pools[id])
    }

    #[inline]
    fn pool_mut(&mut self, id: usize) -> Res<&mut SimPool> {
        fault::tick(Pt::PoolMut(id as u8))?;
        Ok(&mut self.st.pools[id])
    }

    #[inline]
    fn param<T>(&self, id: u8, v: T) -> Res<T> {
        fault::tick(Pt::Param(id))?;
        Ok(v)
    }

    /// Mirror of the store's `AsClockMut::just_passed_in_seconds`.
    fn just_passed(&mut self, clock: usize) -> Res<u64> {
        fault::tick(Pt::Clock(clock as u8))?;
        let duration = self.st.now.saturating_sub(self.st.clocks[clock]);
        if duration > 0 {
            self.st.clocks[clock] = self.st.now;
            Ok(duration as u64)
        } else {
            Ok(0)
        }
    }

    /// Mirror of the store's `AsClock::passed_in_seconds`.
    fn passed(&self, clock: usize) -> Res<u64> {
        fault::tick(Pt::Clock(clock as u8))?;
        let duration = self.st.now.saturating_sub(self.st.clocks[clock]);
        if duration > 0 {
            Ok(duration as u64)
        } else {
            Ok(0)
        }
    }

    /// Direct (fault-free) view of a pool for oracles.
    pub fn peek(&self, id: usize) -> &SimPool {
        &self.st.pools[id]
    }

    pub fn swap_fee_params_plain(&self) -> FeeParams<u128> {
        fee_params(&self.p.swap_fee, None)
    }
}

impl BaseMarket<20> for SimMarket {
    type Num = u128;
    type Signed = i128;
    type Pool = SimPool;

    fn liquidity_pool(&self) -> Res<&SimPool> {
        self.pool(P_PRIMARY)
    }
    fn claimable_fee_pool(&self) -> Res<&SimPool> {
        self.pool(P_CLAIMABLE_FEE)
    }
    fn swap_impact_pool(&self) -> Res<&SimPool> {
        self.pool(P_SWAP_IMPACT)
    }
    fn open_interest_pool(&self, is_long: bool) -> Res<&SimPool> {
        self.pool(if is_long { P_OI_LONG } else { P_OI_SHORT })
    }
    fn open_interest_in_tokens_pool(&self, is_long: bool) -> Res<&SimPool> {
        self.pool(if is_long { P_OI_TOKENS_LONG } else { P_OI_TOKENS_SHORT })
    }
    fn collateral_sum_pool(&self, is_long: bool) -> Res<&SimPool> {
        self.pool(if is_long { P_COLLATERAL_SUM_LONG } else { P_COLLATERAL_SUM_SHORT })
    }
    fn virtual_inventory_for_swaps_pool(&self) -> Res<Option<impl Deref<Target = SimPool>>> {
        if self.p.vi_swaps.is_some() {
            Ok(Some(self.pool(P_VI_SWAPS)?))
        } else {
            Ok(None::<&SimPool>)
        }
    }
    fn virtual_inventory_for_positions_pool(&self) -> Res<Option<impl Deref<Target = SimPool>>> {
        if self.p.vi_positions.is_some() {
            Ok(Some(self.pool(P_VI_POSITIONS)?))
        } else {
            Ok(None::<&SimPool>)
        }
    }
    fn usd_to_amount_divisor(&self) -> u128 {
        self.p.usd_to_amount_divisor.0
    }
    fn max_pool_amount(&self, is_long_token: bool) -> Res<u128> {
        self.param(1, self.p.max_pool_amount[if is_long_token { 0 } else { 1 }].0)
    }
    fn pnl_factor_config(&self, kind: PnlFactorKind, _is_long: bool) -> Res<u128> {
        let i = match kind {
            PnlFactorKind::MaxAfterDeposit => 0,
            PnlFactorKind::MaxAfterWithdrawal => 1,
            PnlFactorKind::MaxForTrader => 2,
            PnlFactorKind::ForAdl => 3,
            PnlFactorKind::MinAfterAdl => 4,
            _ => 3,
        };
        self.param(2, self.p.pnl_factors[i].0)
    }
    fn reserve_factor(&self) -> Res<u128> {
        self.param(3, self.p.reserve_factor.0)
    }
    fn open_interest_reserve_factor(&self) -> Res<u128> {
        self.param(4, self.p.open_interest_reserve_factor.0)
    }
    fn max_open_interest(&self, is_long: bool) -> Res<u128> {
        self.param(5, self.p.max_open_interest[if is_long { 0 } else { 1 }].0)
    }
    fn ignore_open_interest_for_usage_factor(&self) -> Res<bool> {
        self.param(6, self.p.ignore_open_interest_for_usage_factor)
    }
}

impl BaseMarketMut<20> for SimMarket {
    fn liquidity_pool_mut(&mut self) -> Res<&mut SimPool> {
        self.pool_mut(P_PRIMARY)
    }
    fn claimable_fee_pool_mut(&mut self) -> Res<&mut SimPool> {
        self.pool_mut(P_CLAIMABLE_FEE)
    }
    fn virtual_inventory_for_swaps_pool_mut(&mut self) -> Res<Option<impl DerefMut<Target = SimPool>>> {
        if self.p.vi_swaps.is_some() {
            Ok(Some(self.pool_mut(P_VI_SWAPS)?))
        } else {
            Ok(None::<&mut SimPool>)
        }
    }
}

impl SwapMarket<20> for SimMarket {
    fn swap_impact_params(&self) -> Res<PriceImpactParams<u128>> {
        self.param(10, impact_params(&self.p.swap_impact))
    }
    fn swap_fee_params(&self) -> Res<FeeParams<u128>> {
        self.param(11, fee_params(&self.p.swap_fee, None))
    }
}

impl SwapMarketMut<20> for SimMarket {
    fn swap_impact_pool_mut(&mut self) -> Res<&mut SimPool> {
        self.pool_mut(P_SWAP_IMPACT)
    }
}

impl LiquidityMarket<20> for SimMarket {
    fn total_supply(&self) -> u128 {
        self.st.total_supply
    }
    fn max_pool_value_for_deposit(&self, is_long_token: bool) -> Res<u128> {
        self.param(12, self.p.max_pool_value_for_deposit[if is_long_token { 0 } else { 1 }].0)
    }
}

impl LiquidityMarketMut<20> for SimMarket {
    fn mint(&mut self, amount: &u128) -> Res<()> {
        fault::tick(Pt::Mint)?;
        self.st.total_supply = self.st.total_supply.checked_add(*amount).ok_or(Error::Overflow)?;
        Ok(())
    }
    fn burn(&mut self, amount: &u128) -> Res<()> {
        fault::tick(Pt::Burn)?;
        self.st.total_supply = self
            .st
            .total_supply
            .checked_sub(*amount)
            .ok_or(Error::Computation("burning market tokens"))?;
        Ok(())
    }
}

impl PositionImpactMarket<20> for SimMarket {
    fn position_impact_pool(&self) -> Res<&SimPool> {
        self.pool(P_POSITION_IMPACT)
    }
    fn position_impact_params(&self) -> Res<PriceImpactParams<u128>> {
        self.param(13, impact_params(&self.p.position_impact))
    }
    fn position_impact_distribution_params(&self) -> Res<PositionImpactDistributionParams<u128>> {
        self.param(
            14,
            PositionImpactDistributionParams::builder()
                .distribute_factor(self.p.distribute_factor.0)
                .min_position_impact_pool_amount(self.p.min_position_impact_pool_amount.0)
                .build(),
        )
    }
    fn passed_in_seconds_for_position_impact_distribution(&self) -> Res<u64> {
        self.passed(CLOCK_DISTRIBUTION)
    }
}

impl PositionImpactMarketMut<20> for SimMarket {
    fn position_impact_pool_mut(&mut self) -> Res<&mut SimPool> {
        self.pool_mut(P_POSITION_IMPACT)
    }
    fn just_passed_in_seconds_for_position_impact_distribution(&mut self) -> Res<u64> {
        self.just_passed(CLOCK_DISTRIBUTION)
    }
}

impl BorrowingFeeMarket<20> for SimMarket {
    fn borrowing_factor_pool(&self) -> Res<&SimPool> {
        self.pool(P_BORROWING_FACTOR)
    }
    fn total_borrowing_pool(&self) -> Res<&SimPool> {
        self.pool(P_TOTAL_BORROWING)
    }
    fn borrowing_fee_params(&self) -> Res<BorrowingFeeParams<u128>> {
        let b = &self.p.borrowing;
        self.param(
            15,
            BorrowingFeeParams::builder()
                .receiver_factor(b.receiver_factor.0)
                .exponent_for_long(b.exponent_for_long.0)
                .exponent_for_short(b.exponent_for_short.0)
                .factor_for_long(b.factor_for_long.0)
                .factor_for_short(b.factor_for_short.0)
                .skip_borrowing_fee_for_smaller_side(b.skip_borrowing_fee_for_smaller_side)
                .build(),
        )
    }
    fn passed_in_seconds_for_borrowing(&self) -> Res<u64> {
        self.passed(CLOCK_BORROWING)
    }
    fn borrowing_fee_kink_model_params(&self) -> Res<BorrowingFeeKinkModelParams<u128>> {
        let b = &self.p.borrowing;
        let side = |k: &[crate::num::U; 3]| {
            BorrowingFeeKinkModelParamsForOneSide::builder()
                .optimal_usage_factor(k[0].0)
                .base_borrowing_factor(k[1].0)
                .above_optimal_usage_borrowing_factor(k[2].0)
                .build()
        };
        self.param(
            16,
            BorrowingFeeKinkModelParams::builder()
                .long(side(&b.kink_long))
                .short(side(&b.kink_short))
                .build(),
        )
    }
}

impl BorrowingFeeMarketMut<20> for SimMarket {
    fn just_passed_in_seconds_for_borrowing(&mut self) -> Res<u64> {
        self.just_passed(CLOCK_BORROWING)
    }
    fn borrowing_factor_pool_mut(&mut self) -> Res<&mut SimPool> {
        self.pool_mut(P_BORROWING_FACTOR)
    }
}

impl PerpMarket<20> for SimMarket {
    fn funding_factor_per_second(&self) -> &i128 {
        &self.st.funding_factor_per_second
    }
    fn funding_amount_per_size_pool(&self, is_long: bool) -> Res<&SimPool> {
        self.pool(if is_long { P_FUNDING_LONG } else { P_FUNDING_SHORT })
    }
    fn claimable_funding_amount_per_size_pool(&self, is_long: bool) -> Res<&SimPool> {
        self.pool(if is_long { P_CLAIMABLE_FUNDING_LONG } else { P_CLAIMABLE_FUNDING_SHORT })
    }
    fn funding_amount_per_size_adjustment(&self) -> u128 {
        self.p.funding_amount_per_size_adjustment.0
    }
    fn funding_fee_params(&self) -> Res<FundingFeeParams<u128>> {
        let f = &self.p.funding;
        self.param(
            17,
            FundingFeeParams::builder()
                .exponent(f.exponent.0)
                .funding_factor(f.funding_factor.0)
                .increase_factor_per_second(f.increase_factor_per_second.0)
                .decrease_factor_per_second(f.decrease_factor_per_second.0)
                .max_factor_per_second(f.max_factor_per_second.0)
                .min_factor_per_second(f.min_factor_per_second.0)
                .threshold_for_stable_funding(f.threshold_for_stable_funding.0)
                .threshold_for_decrease_funding(f.threshold_for_decrease_funding.0)
                .build(),
        )
    }
    fn position_params(&self) -> Res<PositionParams<u128>> {
        let c = &self.p.position;
        self.param(
            18,
            PositionParams::builder()
                .min_position_size_usd(c.min_position_size_usd.0)
                .min_collateral_value(c.min_collateral_value.0)
                .min_collateral_factor(c.min_collateral_factor.0)
                .min_collateral_factor_for_liquidation(c.min_collateral_factor_for_liquidation.map(|x| x.0))
                .max_positive_position_impact_factor(c.max_positive_position_impact_factor.0)
                .max_negative_position_impact_factor(c.max_negative_position_impact_factor.0)
                .max_position_impact_factor_for_liquidations(c.max_position_impact_factor_for_liquidations.0)
                .build(),
        )
    }
    fn order_fee_params(&self) -> Res<FeeParams<u128>> {
        self.param(19, fee_params(&self.p.order_fee, self.order_discount))
    }
    fn min_collateral_factor_for_open_interest_multiplier(&self, is_long: bool) -> Res<u128> {
        self.param(
            20,
            self.p.min_collateral_factor_for_oi_multiplier[if is_long { 0 } else { 1 }].0,
        )
    }
    fn liquidation_fee_params(&self) -> Res<LiquidationFeeParams<u128>> {
        self.param(
            21,
            LiquidationFeeParams::builder()
                .factor(self.p.liquidation_fee_factor.0)
                .receiver_factor(self.p.liquidation_fee_receiver_factor.0)
                .build(),
        )
    }
}

impl PerpMarketMut<20> for SimMarket {
    fn just_passed_in_seconds_for_funding(&mut self) -> Res<u64> {
        self.just_passed(CLOCK_FUNDING)
    }
    fn funding_factor_per_second_mut(&mut self) -> &mut i128 {
        &mut self.st.funding_factor_per_second
    }
    fn open_interest_pool_mut(&mut self, is_long: bool) -> Res<&mut SimPool> {
        self.pool_mut(if is_long { P_OI_LONG } else { P_OI_SHORT })
    }
    fn open_interest_in_tokens_pool_mut(&mut self, is_long: bool) -> Res<&mut SimPool> {
        self.pool_mut(if is_long { P_OI_TOKENS_LONG } else { P_OI_TOKENS_SHORT })
    }
    fn funding_amount_per_size_pool_mut(&mut self, is_long: bool) -> Res<&mut SimPool> {
        self.pool_mut(if is_long { P_FUNDING_LONG } else { P_FUNDING_SHORT })
    }
    fn claimable_funding_amount_per_size_pool_mut(&mut self, is_long: bool) -> Res<&mut SimPool> {
        self.pool_mut(if is_long { P_CLAIMABLE_FUNDING_LONG } else { P_CLAIMABLE_FUNDING_SHORT })
    }
    fn collateral_sum_pool_mut(&mut self, is_long: bool) -> Res<&mut SimPool> {
        self.pool_mut(if is_long { P_COLLATERAL_SUM_LONG } else { P_COLLATERAL_SUM_SHORT })
    }
    fn total_borrowing_pool_mut(&mut self) -> Res<&mut SimPool> {
        self.pool_mut(P_TOTAL_BORROWING)
    }
    fn virtual_inventory_for_positions_pool_mut(&mut self) -> Res<Option<impl DerefMut<Target = SimPool>>> {
        if self.p.vi_positions.is_some() {
            Ok(Some(self.pool_mut(P_VI_POSITIONS)?))
        } else {
            Ok(None::<&mut SimPool>)
        }
    }
    fn on_insufficient_funding_fee_payment(
        &mut self,
        cost_amount: &u128,
        paid_in_collateral_amount: &u128,
        paid_in_secondary_output_amount: &u128,
        is_collateral_token_long: bool,
    ) -> Res<()> {
        self.events.push(InsufficientFunding {
            cost_amount: *cost_amount,
            paid_in_collateral_amount: *paid_in_collateral_amount,
            paid_in_secondary_output_amount: *paid_in_secondary_output_amount,
            is_collateral_token_long,
        });
        Ok(())
    }
}

// ---------------------------------------------------------------------------------------------------------
// Positions
// ---------------------------------------------------------------------------------------------------------

#[derive(Clone, Copy, Debug, Default, PartialEq, Eq)]
pub struct SimPosition {
    pub is_long: bool,
    pub is_collateral_token_long: bool,
    pub collateral_amount: u128,
    pub size_in_usd: u128,
    pub size_in_tokens: u128,
    pub borrowing_factor: u128,
    pub funding_fee_amount_per_size: u128,
    pub claimable_funding_fee_amount_per_size: [u128; 2],
}

impl SimPosition {
    pub fn empty(is_long: bool, is_collateral_token_long: bool) -> Self {
        SimPosition {
            is_long,
            is_collateral_token_long,
            ..Default::default()
        }
    }
    pub fn is_live(&self) -> bool {
        self.size_in_usd != 0 || self.size_in_tokens != 0 || self.collateral_amount != 0
    }
}

#[derive(Clone)]
pub struct InnerSwap {
    pub ty: DecreasePositionSwapType,
    pub report: Option<SwapReport<u128, i128>>,
    pub error: Option<String>,
}

/// Position + market: the object the position actions operate on.
pub struct PosOps<'a> {
    pub market: &'a mut SimMarket,
    pub pos: &'a mut SimPosition,
    pub inner: Vec<InnerSwap>,
}

impl PositionState<20> for PosOps<'_> {
    type Num = u128;
    type Signed = i128;
    fn collateral_amount(&self) -> &u128 {
        &self.pos.collateral_amount
    }
    fn size_in_usd(&self) -> &u128 {
        &self.pos.size_in_usd
    }
    fn size_in_tokens(&self) -> &u128 {
        &self.pos.size_in_tokens
    }
    fn borrowing_factor(&self) -> &u128 {
        &self.pos.borrowing_factor
    }
    fn funding_fee_amount_per_size(&self) -> &u128 {
        &self.pos.funding_fee_amount_per_size
    }
    fn claimable_funding_fee_amount_per_size(&self, is_long_collateral: bool) -> &u128 {
        &self.pos.claimable_funding_fee_amount_per_size[if is_long_collateral { 0 } else { 1 }]
    }
}

impl PositionStateMut<20> for PosOps<'_> {
    fn collateral_amount_mut(&mut self) -> &mut u128 {
        &mut self.pos.collateral_amount
    }
    fn size_in_usd_mut(&mut self) -> &mut u128 {
        &mut self.pos.size_in_usd
    }
    fn size_in_tokens_mut(&mut self) -> &mut u128 {
        &mut self.pos.size_in_tokens
    }
    fn borrowing_factor_mut(&mut self) -> &mut u128 {
        &mut self.pos.borrowing_factor
    }
    fn funding_fee_amount_per_size_mut(&mut self) -> &mut u128 {
        &mut self.pos.funding_fee_amount_per_size
    }
    fn claimable_funding_fee_amount_per_size_mut(&mut self, is_long_collateral: bool) -> &mut u128 {
        &mut self.pos.claimable_funding_fee_amount_per_size[if is_long_collateral { 0 } else { 1 }]
    }
}

impl Position<20> for PosOps<'_> {
    type Market = SimMarket;
    fn market(&self) -> &SimMarket {
        self.market
    }
    fn is_long(&self) -> bool {
        self.pos.is_long
    }
    fn is_collateral_token_long(&self) -> bool {
        self.pos.is_collateral_token_long
    }
    fn are_pnl_and_collateral_tokens_the_same(&self) -> bool {
        self.pos.is_long == self.pos.is_collateral_token_long
    }
    fn on_validate(&self) -> Res<()> {
        Ok(())
    }
}

impl PositionMut<20> for PosOps<'_> {
    fn market_mut(&mut self) -> &mut SimMarket {
        self.market
    }
    fn on_increased(&mut self) -> Res<()> {
        Ok(())
    }
    fn on_decreased(&mut self) -> Res<()> {
        Ok(())
    }
    fn on_swapped(&mut self, ty: DecreasePositionSwapType, report: &SwapReport<u128, i128>) -> Res<()> {
        self.inner.push(InnerSwap {
            ty,
            report: Some(report.clone()),
            error: None,
        });
        Ok(())
    }
    fn on_swap_error(&mut self, ty: DecreasePositionSwapType, error: Error) -> Res<()> {
        self.inner.push(InnerSwap {
            ty,
            report: None,
            error: Some(error.to_string()),
        });
        Ok(())
    }
}

// ---------------------------------------------------------------------------------------------------------
// Ledger
// ---------------------------------------------------------------------------------------------------------

/// Independent vault model: tokens that entered / left the market vault, per pool token (0 = long, 1 = short).
#[derive(Clone, Debug, Default)]
pub struct Ledger {
    pub total_in: [BigUint; 2],
    pub total_out: [BigUint; 2],
    pub deposits: [BigUint; 2],
    pub swap_in: [BigUint; 2],
    pub collateral_in: [BigUint; 2],
    pub withdrawn: [BigUint; 2],
    pub swap_out: [BigUint; 2],
    pub decrease_out: [BigUint; 2],
    pub claimable_collateral_user: [BigUint; 2],
    pub claimable_collateral_holding: [BigUint; 2],
    pub claimable_funding_out: [BigUint; 2],
    pub fee_claims: [BigUint; 2],
    /// Funding fee amounts charged to positions according to the reports (collateral token).
    pub funding_charged: [BigUint; 2],
    /// Funding fee amounts actually collected from positions in the collateral token: the charged amount, or the
    /// `paid_in_collateral_amount` of the insufficient-funding callback when one was reported for the step.
    pub funding_collected: [BigUint; 2],
    pub insufficient_funding_events: u64,
}

/// Token flows of one step.
#[derive(Clone, Copy, Debug, Default, PartialEq, Eq)]
pub struct Flows {
    pub token_in: [u128; 2],
    pub token_out: [u128; 2],
}

fn side(is_long: bool) -> usize {
    if is_long {
        0
    } else {
        1
    }
}

impl Ledger {
    fn add(slot: &mut [BigUint; 2], tot: &mut [BigUint; 2], is_long: bool, x: u128) {
        slot[side(is_long)] += BigUint::from(x);
        tot[side(is_long)] += BigUint::from(x);
    }
    pub fn vault(&self, is_long: bool) -> num_bigint::BigInt {
        num_bigint::BigInt::from(self.total_in[side(is_long)].clone())
            - num_bigint::BigInt::from(self.total_out[side(is_long)].clone())
    }
}

// ---------------------------------------------------------------------------------------------------------
// World
// ---------------------------------------------------------------------------------------------------------

pub fn to_price(p: &PriceCfg) -> Price<u128> {
    Price {
        min: p.min.0,
        max: p.max.0,
    }
}

pub fn to_prices(p: &PricesCfg) -> Prices<u128> {
    Prices {
        index_token_price: to_price(&p.index),
        long_token_price: to_price(&p.long),
        short_token_price: to_price(&p.short),
    }
}

/// What is snapshotted before an operation and restored when it fails (like a failed transaction).
#[derive(Clone, Debug, PartialEq)]
pub struct Snap {
    pub market: MarketState,
    pub positions: Vec<SimPosition>,
    pub lps: Vec<u128>,
}

pub enum Report {
    None,
    Deposit(DepositReport<u128, i128>),
    Withdraw(WithdrawReport<u128>),
    Swap(SwapReport<u128, i128>),
    Increase(Box<IncreasePositionReport<u128, i128>>),
    Decrease(Box<DecreasePositionReport<u128, i128>>),
    Funding(UpdateFundingReport<u128, i128>),
    Borrowing(UpdateBorrowingReport<u128>),
    Distribute(DistributePositionImpactReport<u128>),
    ClaimFees { long: u128, short: u128 },
}

/// Everything an oracle may want to know about one executed plan step.
pub struct StepOutcome {
    /// deposit | withdraw | swap | increase | decrease | liquidate | update_funding | update_borrowing |
    /// distribute_impact | claim_fees | advance | set_prices | fault | probe
    pub op: &'static str,
    pub role: &'static str,
    /// "ok", "noop", "panic", or the class of the model error.
    pub class: String,
    pub ok: bool,
    pub error: Option<String>,
    pub prices: Prices<u128>,
    pub now: i64,
    /// State before the transaction (before the optional pre-settlement).
    pub before: Snap,
    /// Reports of the pre-settlement inside the transaction (distribute, borrowing, funding).
    pub pre_reports: Vec<Report>,
    /// Swap only: market right before the swap action (after the borrowing pre-update).
    pub swap_pre: Option<MarketState>,
    /// Swap only, on failure: the market as the failed swap left it, *before* the harness restored it.
    pub swap_failed_state: Option<MarketState>,
    pub report: Report,
    /// Swaps executed inside a decrease (profit -> collateral, collateral -> pnl token) with their reports.
    pub inner_swaps: Vec<InnerSwap>,
    pub insufficient_funding: Vec<InsufficientFunding>,
    /// Position slot the step acted on.
    pub pos: Option<usize>,
    /// Position before the step.
    pub pos_before: Option<SimPosition>,
    /// Position as the successful action left it (before the harness resets a removed slot).
    pub pos_after: Option<SimPosition>,
    /// Funding fee amount collected in the collateral token by this step (see `Ledger::funding_collected`).
    pub funding_collected: u128,
    /// Claimable funding amounts (long token, short token) paid out by this step.
    pub claimable_funding_out: [u128; 2],
    /// LP the step acted on.
    pub lp: Option<usize>,
    /// Number of fallible storage calls the transaction made.
    pub fallible_calls: u32,
    pub fault_planned: u32,
    pub fault_fired: Option<Fired>,
    pub flows: Flows,
    /// Requested amounts (op specific): deposit (long, short), withdraw (market tokens, 0), swap (amount, 0),
    /// increase (collateral, size), decrease (size delta, collateral withdrawal).
    pub req: (u128, u128),
    pub swap_long_in: bool,
    pub order_discount: Option<u128>,
}

pub struct World {
    pub cfg: Rc<Cfg>,
    pub market: SimMarket,
    pub positions: Vec<SimPosition>,
    pub lps: Vec<u128>,
    pub prices: Prices<u128>,
    pub ledger: Ledger,
    /// `Fault{k}` waiting for the next operation.
    pub pending_fault: u32,
    /// Harness model for C13: per position slot, the cumulative borrowing factor of its side that the market showed
    /// at the end of the last successful increase / decrease of that slot (0 for an empty slot).
    pub settled_borrowing_factor: Vec<u128>,
}

impl Clone for World {
    fn clone(&self) -> Self {
        World {
            cfg: self.cfg.clone(),
            market: self.market.clone(),
            positions: self.positions.clone(),
            lps: self.lps.clone(),
            prices: self.prices,
            ledger: self.ledger.clone(),
            pending_fault: 0,
            settled_borrowing_factor: self.settled_borrowing_factor.clone(),
        }
    }
}

impl World {
    /// What-if copy for probes and fault enumeration: same market, positions, LPs and prices, no pending fault and
    /// an empty ledger (cheap; use `clone()` if the fork needs the token ledger too).
    pub fn fork(&self) -> World {
        World {
            cfg: self.cfg.clone(),
            market: self.market.clone(),
            positions: self.positions.clone(),
            lps: self.lps.clone(),
            prices: self.prices,
            ledger: Ledger::default(),
            pending_fault: 0,
            settled_borrowing_factor: self.settled_borrowing_factor.clone(),
        }
    }
}

pub fn err_class(e: &Error) -> &'static str {
    match e {
        Error::Unimplemented => "err_unimplemented",
        Error::InvalidArgument(_) => "err_invalid_argument",
        Error::EmptyDeposit => "err_empty_deposit",
        Error::EmptyWithdrawal => "err_empty_withdrawal",
        Error::EmptySwap => "err_empty_swap",
        Error::InvalidPrices => "err_invalid_prices",
        Error::Computation(_) => "err_computation",
        Error::PoolComputation(..) => "err_pool_computation",
        Error::PowComputation => "err_pow",
        Error::Overflow => "err_overflow",
        Error::DividedByZero => "err_div_zero",
        Error::InvalidPoolValue(_) => "err_invalid_pool_value",
        Error::Convert => "err_convert",
        Error::BuildParams(_) => "err_build_params",
        Error::MissingPoolKind(_) => "err_missing_pool",
        Error::MissingClockKind(_) => "err_missing_clock",
        Error::MintReceiverNotSet => "err_mint",
        Error::WithdrawalVaultNotSet => "err_burn",
        Error::InsufficientFundsToPayForCosts(_) => "err_insufficient_funds",
        Error::InvalidPosition(_) => "err_invalid_position",
        Error::Liquidatable(_) => "err_liquidatable",
        Error::NotLiquidatable => "err_not_liquidatable",
        Error::UnableToGetBorrowingFactorEmptyPoolValue => "err_borrowing_empty_pool",
        Error::InsufficientReserve(..) => "err_reserve",
        Error::InsufficientReserveForOpenInterest(..) => "err_oi_reserve",
        Error::PnlFactorExceeded(..) => "err_pnl_factor",
        Error::MaxPoolAmountExceeded(_) => "err_max_pool_amount",
        Error::MaxPoolValueExceeded(_) => "err_max_pool_value",
        Error::MaxOpenInterestExceeded => "err_max_oi",
        Error::InvalidTokenBalance(..) => "err_token_balance",
        Error::UnableToGetFundingFactorEmptyOpenInterest => "err_funding_empty_oi",
        // `gmsol_model::Error` gains variants (`Solana`, `Market`) when cargo unifies features with the chain engines
        #[allow(unreachable_patterns)]
        _ => "err_other",
    }
}

/// Error of a transaction: model error or caught panic.
pub enum TxErr {
    Model(Error),
    Panic(String),
}

impl From<Error> for TxErr {
    fn from(e: Error) -> Self {
        TxErr::Model(e)
    }
}

/// Mutable pieces a transaction body may fill in.
#[derive(Default)]
pub struct TxScratch {
    pub pre_reports: Vec<Report>,
    pub swap_pre: Option<MarketState>,
    pub swap_failed_state: Option<MarketState>,
    pub inner_swaps: Vec<InnerSwap>,
}

impl World {
    pub fn new(cfg: &Cfg) -> World {
        let cfg = Rc::new(cfg.clone());
        let mcfg = Rc::new(cfg.market.clone());
        let n = cfg.n_positions.max(1) as usize;
        let positions = (0..n)
            .map(|i| SimPosition::empty(i % 2 == 0, (i / 2) % 2 == 0))
            .collect();
        World {
            market: SimMarket::new(mcfg, cfg.init_now),
            positions,
            lps: vec![0; cfg.n_lps.max(1) as usize],
            prices: to_prices(&cfg.init_prices),
            ledger: Ledger::default(),
            pending_fault: 0,
            settled_borrowing_factor: vec![0; n],
            cfg,
        }
    }

    pub fn snap(&self) -> Snap {
        Snap {
            market: self.market.st.clone(),
            positions: self.positions.clone(),
            lps: self.lps.clone(),
        }
    }

    pub fn restore(&mut self, s: &Snap) {
        self.market.st = s.market.clone();
        self.positions = s.positions.clone();
        self.lps = s.lps.clone();
    }

    pub fn live_positions(&self) -> Vec<usize> {
        (0..self.positions.len()).filter(|i| self.positions[*i].is_live()).collect()
    }

    /// Distribute impact, update borrowing, update funding (the store's `update_fees_state`).
    pub fn settle(&mut self, pre: &mut Vec<Report>) -> Res<()> {
        let prices = self.prices;
        let d = self.market.distribute_position_impact()?.execute()?;
        pre.push(Report::Distribute(d));
        let b = self.market.update_borrowing(&prices)?.execute()?;
        pre.push(Report::Borrowing(b));
        let f = self.market.update_funding(&prices)?.execute()?;
        pre.push(Report::Funding(f));
        Ok(())
    }

    /// Run `body` as a transaction with the fault plan `fail_at`: returns the result, the number of fallible calls
    /// and the fault that fired. Does *not* restore on failure (the caller does, after looking at the state).
    pub fn run_tx<R>(
        &mut self,
        fail_at: u32,
        body: impl FnOnce(&mut World, &mut TxScratch) -> Res<R>,
    ) -> (Result<R, TxErr>, TxScratch, u32, Option<Fired>) {
        let mut scratch = TxScratch::default();
        self.market.events.clear();
        fault::begin(fail_at);
        let r = catch_unwind(AssertUnwindSafe(|| body(self, &mut scratch)));
        let (n, fired) = fault::end();
        let r = match r {
            Ok(Ok(v)) => Ok(v),
            Ok(Err(e)) => Err(TxErr::Model(e)),
            Err(p) => {
                let msg = if let Some(s) = p.downcast_ref::<&str>() {
                    s.to_string()
                } else if let Some(s) = p.downcast_ref::<String>() {
                    s.clone()
                } else {
                    "panic".to_string()
                };
                let loc = simcore::panic_loc::take().map(|l| l.0).unwrap_or_default();
                Err(TxErr::Panic(format!("{msg} @ {loc}")))
            }
        };
        (r, scratch, n, fired)
    }

    // --- transaction bodies (real actions of gmsol-model) ---------------------------------------------------

    pub fn tx_deposit(&mut self, sc: &mut TxScratch, long: u128, short: u128) -> Res<DepositReport<u128, i128>> {
        if self.cfg.settle_before_ops {
            self.settle(&mut sc.pre_reports)?;
        }
        let prices = self.prices;
        self.market.deposit(long, short, prices)?.execute()
    }

    pub fn tx_withdraw(&mut self, sc: &mut TxScratch, amount: u128) -> Res<WithdrawReport<u128>> {
        if self.cfg.settle_before_ops {
            self.settle(&mut sc.pre_reports)?;
        }
        let prices = self.prices;
        self.market.withdraw(amount, prices)?.execute()
    }

    pub fn tx_swap(&mut self, sc: &mut TxScratch, long_in: bool, amount: u128) -> Res<SwapReport<u128, i128>> {
        self.tx_swap_pre(sc)?;
        self.tx_swap_only(sc, long_in, amount)
    }

    /// The store updates the borrowing state before every swap step.
    pub fn tx_swap_pre(&mut self, sc: &mut TxScratch) -> Res<()> {
        if self.cfg.settle_before_ops {
            let prices = self.prices;
            let b = self.market.update_borrowing(&prices)?.execute()?;
            sc.pre_reports.push(Report::Borrowing(b));
        }
        Ok(())
    }

    /// The swap action alone. On failure the market is left exactly as the action left it.
    pub fn tx_swap_only(&mut self, sc: &mut TxScratch, long_in: bool, amount: u128) -> Res<SwapReport<u128, i128>> {
        let prices = self.prices;
        sc.swap_pre = Some(self.market.st.clone());
        let r = self.market.swap(long_in, amount, prices).and_then(|s| s.execute());
        if r.is_err() {
            sc.swap_failed_state = Some(self.market.st.clone());
        }
        r
    }

    pub fn tx_increase(
        &mut self,
        sc: &mut TxScratch,
        idx: usize,
        collateral: u128,
        size_usd: u128,
        acceptable: Option<u128>,
        discount: Option<u128>,
    ) -> Res<IncreasePositionReport<u128, i128>> {
        if self.cfg.settle_before_ops {
            self.settle(&mut sc.pre_reports)?;
        }
        let prices = self.prices;
        self.market.order_discount = discount;
        let mut ops = PosOps {
            market: &mut self.market,
            pos: &mut self.positions[idx],
            inner: vec![],
        };
        let r = ops.increase(prices, collateral, size_usd, acceptable).and_then(|a| a.execute());
        sc.inner_swaps = std::mem::take(&mut ops.inner);
        self.market.order_discount = None;
        r
    }

    #[allow(clippy::too_many_arguments)]
    pub fn tx_decrease(
        &mut self,
        sc: &mut TxScratch,
        idx: usize,
        size_delta_usd: u128,
        collateral_withdrawal: u128,
        flags: DecreasePositionFlags,
        swap: DecreasePositionSwapType,
        acceptable: Option<u128>,
        discount: Option<u128>,
    ) -> Res<Box<DecreasePositionReport<u128, i128>>> {
        if self.cfg.settle_before_ops {
            self.settle(&mut sc.pre_reports)?;
        }
        let prices = self.prices;
        self.market.order_discount = discount;
        let mut ops = PosOps {
            market: &mut self.market,
            pos: &mut self.positions[idx],
            inner: vec![],
        };
        let r = ops
            .decrease(prices, size_delta_usd, acceptable, collateral_withdrawal, flags)
            .map(|a| a.set_swap(swap))
            .and_then(|a| a.execute());
        sc.inner_swaps = std::mem::take(&mut ops.inner);
        self.market.order_discount = None;
        r
    }

    // --- plan step execution -----------------------------------------------------------------------------------

    fn blank_outcome(&self, op: &'static str, role: &'static str) -> StepOutcome {
        StepOutcome {
            op,
            role,
            class: "noop".into(),
            ok: false,
            error: None,
            prices: self.prices,
            now: self.market.st.now,
            before: self.snap(),
            pre_reports: vec![],
            swap_pre: None,
            swap_failed_state: None,
            report: Report::None,
            inner_swaps: vec![],
            insufficient_funding: vec![],
            pos: None,
            pos_before: None,
            pos_after: None,
            funding_collected: 0,
            claimable_funding_out: [0, 0],
            lp: None,
            fallible_calls: 0,
            fault_planned: 0,
            fault_fired: None,
            flows: Flows::default(),
            req: (0, 0),
            swap_long_in: false,
            order_discount: None,
        }
    }

    fn finish<R>(
        &mut self,
        out: &mut StepOutcome,
        res: (Result<R, TxErr>, TxScratch, u32, Option<Fired>),
    ) -> Option<R> {
        let (r, sc, n, fired) = res;
        out.pre_reports = sc.pre_reports;
        out.swap_pre = sc.swap_pre;
        out.swap_failed_state = sc.swap_failed_state;
        out.inner_swaps = sc.inner_swaps;
        out.fallible_calls = n;
        out.fault_fired = fired;
        out.insufficient_funding = std::mem::take(&mut self.market.events);
        if r.is_err() && out.swap_pre.is_some() && out.swap_failed_state.is_none() {
            // the swap panicked: what it left behind is still observable here
            out.swap_failed_state = Some(self.market.st.clone());
        }
        match r {
            Ok(v) => {
                out.ok = true;
                out.class = "ok".into();
                Some(v)
            }
            Err(e) => {
                // A failed transaction changes nothing (the store reverts; Swap's own promise is checked by C04
                // on `swap_failed_state` before this restore).
                let before = out.before.clone();
                self.restore(&before);
                out.insufficient_funding.clear();
                match e {
                    TxErr::Model(e) => {
                        out.class = if fired.is_some() {
                            "fault".to_string()
                        } else {
                            err_class(&e).to_string()
                        };
                        out.error = Some(e.to_string());
                    }
                    TxErr::Panic(p) => {
                        out.class = "panic".into();
                        out.error = Some(p);
                    }
                }
                None
            }
        }
    }

    /// Execute one plan step (probes are handled by the scenario, not here).
    pub fn exec(&mut self, step: &Step) -> StepOutcome {
        match step {
            Step::Advance { seconds } => {
                let mut out = self.blank_outcome("advance", "clock");
                self.market.st.now = self.market.st.now.saturating_add(*seconds);
                out.ok = true;
                out.class = if *seconds == 0 {
                    "stall".into()
                } else if *seconds < 0 {
                    "regress".into()
                } else if *seconds > 86_400 * 30 {
                    "jump".into()
                } else {
                    "ok".into()
                };
                out
            }
            Step::SetPrices { prices } => {
                let mut out = self.blank_outcome("set_prices", "oracle");
                self.prices = to_prices(prices);
                out.prices = self.prices;
                out.ok = true;
                out.class = "ok".into();
                out
            }
            Step::Fault { k } => {
                let mut out = self.blank_outcome("fault", "storage");
                self.pending_fault = *k;
                out.ok = true;
                out.class = "armed".into();
                out
            }
            Step::Probe { .. } => self.blank_outcome("probe", "oracle"),
            Step::Deposit { lp, long_amount, short_amount } => {
                let mut out = self.blank_outcome("deposit", "lp");
                let lp = *lp as usize % self.lps.len();
                out.lp = Some(lp);
                out.req = (long_amount.0, short_amount.0);
                let fail_at = std::mem::take(&mut self.pending_fault);
                out.fault_planned = fail_at;
                let (l, s) = (long_amount.0, short_amount.0);
                let res = self.run_tx(fail_at, |w, sc| w.tx_deposit(sc, l, s));
                if let Some(rep) = self.finish(&mut out, res) {
                    self.lps[lp] = self.lps[lp].saturating_add(*rep.minted());
                    Ledger::add(&mut self.ledger.deposits, &mut self.ledger.total_in, true, l);
                    Ledger::add(&mut self.ledger.deposits, &mut self.ledger.total_in, false, s);
                    out.flows.token_in = [l, s];
                    out.report = Report::Deposit(rep);
                }
                out
            }
            Step::Withdraw { lp, bps } => {
                let mut out = self.blank_outcome("withdraw", "lp");
                let lp = *lp as usize % self.lps.len();
                out.lp = Some(lp);
                let bal = self.lps[lp];
                let amount = mul_div_u128(bal, (*bps).min(10_000) as u128, 10_000);
                out.req = (amount, 0);
                let fail_at = std::mem::take(&mut self.pending_fault);
                out.fault_planned = fail_at;
                let res = self.run_tx(fail_at, |w, sc| w.tx_withdraw(sc, amount));
                if let Some(rep) = self.finish(&mut out, res) {
                    self.lps[lp] -= amount;
                    let (lo, so) = (*rep.long_token_output(), *rep.short_token_output());
                    Ledger::add(&mut self.ledger.withdrawn, &mut self.ledger.total_out, true, lo);
                    Ledger::add(&mut self.ledger.withdrawn, &mut self.ledger.total_out, false, so);
                    out.flows.token_out = [lo, so];
                    out.report = Report::Withdraw(rep);
                }
                out
            }
            Step::Swap { long_in, amount } => {
                let mut out = self.blank_outcome("swap", "swapper");
                out.req = (amount.0, 0);
                out.swap_long_in = *long_in;
                let fail_at = std::mem::take(&mut self.pending_fault);
                out.fault_planned = fail_at;
                let (li, a) = (*long_in, amount.0);
                let res = self.run_tx(fail_at, |w, sc| w.tx_swap(sc, li, a));
                if let Some(rep) = self.finish(&mut out, res) {
                    let o = *rep.token_out_amount();
                    Ledger::add(&mut self.ledger.swap_in, &mut self.ledger.total_in, li, a);
                    Ledger::add(&mut self.ledger.swap_out, &mut self.ledger.total_out, !li, o);
                    out.flows.token_in[side(li)] = a;
                    out.flows.token_out[side(!li)] = o;
                    out.report = Report::Swap(rep);
                }
                out
            }
            Step::Increase { pos, collateral, size_usd, acceptable, discount } => {
                let mut out = self.blank_outcome("increase", "trader");
                let idx = *pos as usize % self.positions.len();
                out.pos = Some(idx);
                out.pos_before = Some(self.positions[idx]);
                out.req = (collateral.0, size_usd.0);
                out.order_discount = discount.map(|d| d.0);
                let fail_at = std::mem::take(&mut self.pending_fault);
                out.fault_planned = fail_at;
                let (c, s, acc, d) = (collateral.0, size_usd.0, acceptable.map(|x| x.0), discount.map(|x| x.0));
                let res = self.run_tx(fail_at, |w, sc| w.tx_increase(sc, idx, c, s, acc, d));
                if let Some(rep) = self.finish(&mut out, res) {
                    let coll_long = self.positions[idx].is_collateral_token_long;
                    Ledger::add(&mut self.ledger.collateral_in, &mut self.ledger.total_in, coll_long, c);
                    out.flows.token_in[side(coll_long)] = c;
                    let (cl, cs) = rep.claimable_funding_amounts();
                    let (cl, cs) = (*cl, *cs);
                    Ledger::add(&mut self.ledger.claimable_funding_out, &mut self.ledger.total_out, true, cl);
                    Ledger::add(&mut self.ledger.claimable_funding_out, &mut self.ledger.total_out, false, cs);
                    out.flows.token_out = [cl, cs];
                    out.claimable_funding_out = [cl, cs];
                    self.ledger.funding_charged[side(coll_long)] +=
                        BigUint::from(*rep.fees().funding_fees().amount());
                    out.funding_collected = *rep.fees().funding_fees().amount();
                    self.ledger.funding_collected[side(coll_long)] += BigUint::from(out.funding_collected);
                    out.pos_after = Some(self.positions[idx]);
                    let is_long = self.positions[idx].is_long;
                    self.settled_borrowing_factor[idx] = self.market.st.pools[P_BORROWING_FACTOR].amount(is_long);
                    out.report = Report::Increase(Box::new(rep));
                }
                out
            }
            Step::Decrease {
                pos,
                size_bps,
                collateral_withdrawal,
                liquidation,
                insolvent_ok,
                cap,
                swap,
                acceptable,
                discount,
            } => {
                let op = if *liquidation { "liquidate" } else { "decrease" };
                let role = if *liquidation { "keeper" } else { "trader" };
                let mut out = self.blank_outcome(op, role);
                let live = self.live_positions();
                if live.is_empty() {
                    self.pending_fault = 0;
                    return out;
                }
                let idx = live[*pos as usize % live.len()];
                out.pos = Some(idx);
                out.pos_before = Some(self.positions[idx]);
                let size_delta = mul_div_u128(self.positions[idx].size_in_usd, *size_bps as u128, 10_000);
                out.req = (size_delta, collateral_withdrawal.0);
                out.order_discount = discount.map(|d| d.0);
                let flags = DecreasePositionFlags {
                    is_insolvent_close_allowed: *insolvent_ok,
                    is_liquidation_order: *liquidation,
                    is_cap_size_delta_usd_allowed: *cap,
                };
                let swap_ty = match swap {
                    1 => DecreasePositionSwapType::PnlTokenToCollateralToken,
                    2 => DecreasePositionSwapType::CollateralToPnlToken,
                    _ => DecreasePositionSwapType::NoSwap,
                };
                let fail_at = std::mem::take(&mut self.pending_fault);
                out.fault_planned = fail_at;
                let (cw, acc, d) = (collateral_withdrawal.0, acceptable.map(|x| x.0), discount.map(|x| x.0));
                let res = self.run_tx(fail_at, |w, sc| w.tx_decrease(sc, idx, size_delta, cw, flags, swap_ty, acc, d));
                if let Some(rep) = self.finish(&mut out, res) {
                    let out_long = rep.is_output_token_long();
                    let sec_long = rep.is_secondary_output_token_long();
                    let mut fl = Flows::default();
                    let mut add = |slot: &mut [BigUint; 2], tot: &mut [BigUint; 2], is_long: bool, x: u128| {
                        Ledger::add(slot, tot, is_long, x);
                        fl.token_out[side(is_long)] = fl.token_out[side(is_long)].saturating_add(x);
                    };
                    let lg = &mut self.ledger;
                    add(&mut lg.decrease_out, &mut lg.total_out, out_long, *rep.output_amount());
                    add(&mut lg.decrease_out, &mut lg.total_out, sec_long, *rep.secondary_output_amount());
                    let (cl, cs) = rep.claimable_funding_amounts();
                    out.claimable_funding_out = [*cl, *cs];
                    add(&mut lg.claimable_funding_out, &mut lg.total_out, true, *cl);
                    add(&mut lg.claimable_funding_out, &mut lg.total_out, false, *cs);
                    let h = rep.claimable_collateral_for_holding();
                    add(&mut lg.claimable_collateral_holding, &mut lg.total_out, out_long, *h.output_token_amount());
                    add(
                        &mut lg.claimable_collateral_holding,
                        &mut lg.total_out,
                        sec_long,
                        *h.secondary_output_token_amount(),
                    );
                    let u = rep.claimable_collateral_for_user();
                    add(&mut lg.claimable_collateral_user, &mut lg.total_out, out_long, *u.output_token_amount());
                    add(
                        &mut lg.claimable_collateral_user,
                        &mut lg.total_out,
                        sec_long,
                        *u.secondary_output_token_amount(),
                    );
                    lg.funding_charged[side(out_long)] += BigUint::from(*rep.fees().funding_fees().amount());
                    out.funding_collected = if out.insufficient_funding.is_empty() {
                        *rep.fees().funding_fees().amount()
                    } else {
                        out.insufficient_funding.iter().map(|e| e.paid_in_collateral_amount).sum()
                    };
                    lg.funding_collected[side(out_long)] += BigUint::from(out.funding_collected);
                    out.pos_after = Some(self.positions[idx]);
                    lg.insufficient_funding_events += out.insufficient_funding.len() as u64;
                    out.flows = fl;
                    if rep.should_remove() {
                        let p = self.positions[idx];
                        self.positions[idx] = SimPosition::empty(p.is_long, p.is_collateral_token_long);
                        self.settled_borrowing_factor[idx] = 0;
                    } else {
                        let is_long = self.positions[idx].is_long;
                        self.settled_borrowing_factor[idx] = self.market.st.pools[P_BORROWING_FACTOR].amount(is_long);
                    }
                    out.report = Report::Decrease(rep);
                }
                out
            }
            Step::UpdateFunding => {
                let mut out = self.blank_outcome("update_funding", "keeper");
                let fail_at = std::mem::take(&mut self.pending_fault);
                out.fault_planned = fail_at;
                let res = self.run_tx(fail_at, |w, _| {
                    let prices = w.prices;
                    w.market.update_funding(&prices)?.execute()
                });
                if let Some(rep) = self.finish(&mut out, res) {
                    out.report = Report::Funding(rep);
                }
                out
            }
            Step::UpdateBorrowing => {
                let mut out = self.blank_outcome("update_borrowing", "keeper");
                let fail_at = std::mem::take(&mut self.pending_fault);
                out.fault_planned = fail_at;
                let res = self.run_tx(fail_at, |w, _| {
                    let prices = w.prices;
                    w.market.update_borrowing(&prices)?.execute()
                });
                if let Some(rep) = self.finish(&mut out, res) {
                    out.report = Report::Borrowing(rep);
                }
                out
            }
            Step::DistributeImpact => {
                let mut out = self.blank_outcome("distribute_impact", "keeper");
                let fail_at = std::mem::take(&mut self.pending_fault);
                out.fault_planned = fail_at;
                let res = self.run_tx(fail_at, |w, _| w.market.distribute_position_impact()?.execute());
                if let Some(rep) = self.finish(&mut out, res) {
                    out.report = Report::Distribute(rep);
                }
                out
            }
            Step::ClaimFees => {
                let mut out = self.blank_outcome("claim_fees", "keeper");
                // The store's `claim_fees_from_market` zeroes the claimable fee pool side and transfers it out.
                let p = self.market.st.pools[P_CLAIMABLE_FEE];
                self.market.st.pools[P_CLAIMABLE_FEE].long = 0;
                self.market.st.pools[P_CLAIMABLE_FEE].short = 0;
                Ledger::add(&mut self.ledger.fee_claims, &mut self.ledger.total_out, true, p.long);
                Ledger::add(&mut self.ledger.fee_claims, &mut self.ledger.total_out, false, p.short);
                out.flows.token_out = [p.long, p.short];
                out.report = Report::ClaimFees { long: p.long, short: p.short };
                out.ok = true;
                out.class = if p.long == 0 && p.short == 0 { "empty".into() } else { "ok".into() };
                out
            }
        }
    }
}

/// floor(a*b/c) for values whose product fits `u128` comfortably in this harness (falls back to big integers).
pub fn mul_div_u128(a: u128, b: u128, c: u128) -> u128 {
    if c == 0 {
        return 0;
    }
    match a.checked_mul(b) {
        Some(p) => p / c,
        None => {
            let r = BigUint::from(a) * BigUint::from(b) / BigUint::from(c);
            u128::try_from(r).unwrap_or(u128::MAX)
        }
    }
}
