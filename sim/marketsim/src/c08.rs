//! C08 — market token accounting is conserved and funding payouts stay backed.
//!
//! Per pool token `t` (long token, short token), big integers:
//!
//! ```text
//! vault_t     = Σ tokens in − Σ tokens out                       (the harness' independent `Ledger`)
//! accounted_t = liquidity_t + swap_impact_t + claimable_fee_t + collateral_sum(long)_t + collateral_sum(short)_t
//! residual_t  = vault_t − accounted_t
//! ```
//!
//! Ledger legs (audited against the report fields): in — deposit amounts, swap input, collateral increment of an
//! increase; out — withdrawal outputs, swap output, decrease `output_amount` (output token) and
//! `secondary_output_amount` (secondary token), claimable funding amounts (long, short) of increase and decrease
//! reports, claimable collateral for the holding account and for the user (output / secondary token each), fee
//! claims. Liquidation fees, order and borrowing fees stay inside (`for_pool` → liquidity, `for_receiver` →
//! claimable fee); swaps inside a decrease move tokens between the two sides of the holdings without crossing the
//! vault boundary; the position impact pool is denominated in index tokens and is no holding.
//!
//! Oracles
//! * `ledger_identity` (after every step, in delta form, which gives the cumulative identity by induction):
//!   `Δvault_t − Δaccounted_t == funding collected in t by the step − claimable funding paid out in t by the step`,
//!   where the funding collected is the funding fee amount of the report (collateral token), or the
//!   `paid_in_collateral_amount` passed to `on_insufficient_funding_fee_payment` when that callback fired.
//!   Key: `op`, `direction=created|lost` (accounted holdings grew by more / less than the vault explains) and
//!   `below_one_secondary_unit` (the discrepancy is worth less than 5 base units of the other pool token at the
//!   execution prices: the size of the truncation when a remaining cost is converted into secondary tokens, at most
//!   once per cost of a decrease).
//! * `funding_index_backing` (every funding update report): per collateral token `c`,
//!   `Δfunding index[payer, c] · OI_payer[c] ≥ Δclaimable index[receiver, c] · OI_receiver` (payer indices are rounded up,
//!   receiver indices down), so that the amounts positions will be charged cover the amounts positions can claim.
//! * `funding_residual_negative` (after every step): `Σ funding collected in t − Σ claimable funding paid out in t ≥ 0`
//!   (this is `residual_t` whenever the identity holds) as long as no insufficient funding payment was reported in the
//!   history. The key says whether the deficit is covered by the funding fees that open positions already owe
//!   according to the funding index but have not settled yet (`covered_by_pending_payer_debt`, big integers:
//!   `Σ ⌈size·(index − position index)/(adjustment·10²⁰)⌉`).

use gmsol_model::action::update_funding_state::UpdateFundingReport;
use num_bigint::{BigInt, BigUint};
use num_traits::{Signed, Zero};
use simcore::Obs;

use crate::num::UNIT;
use crate::refmath::{bi, bu};
use crate::world::{
    MarketState, Report, StepOutcome, World, P_OI_LONG, P_OI_SHORT, P_CLAIMABLE_FEE, P_COLLATERAL_SUM_LONG, P_COLLATERAL_SUM_SHORT,
    P_FUNDING_LONG, P_FUNDING_SHORT, P_PRIMARY, P_SWAP_IMPACT,
};

pub fn accounted(st: &MarketState, token_long: bool) -> BigInt {
    BigInt::from(
        bu(st.pools[P_PRIMARY].amount(token_long))
            + bu(st.pools[P_SWAP_IMPACT].amount(token_long))
            + bu(st.pools[P_CLAIMABLE_FEE].amount(token_long))
            + bu(st.pools[P_COLLATERAL_SUM_LONG].amount(token_long))
            + bu(st.pools[P_COLLATERAL_SUM_SHORT].amount(token_long)),
    )
}

pub fn residual(w: &World, token_long: bool) -> BigInt {
    w.ledger.vault(token_long) - accounted(&w.market.st, token_long)
}

/// Funding fees open positions owe in `token_long` collateral according to the current funding index.
pub fn pending_payer_debt(w: &World, token_long: bool) -> BigUint {
    let adj = bu(w.cfg.market.funding_amount_per_size_adjustment.0) * bu(UNIT);
    let mut total = BigUint::zero();
    if adj.is_zero() {
        return total;
    }
    for p in &w.positions {
        if !p.is_live() || p.is_collateral_token_long != token_long {
            continue;
        }
        let idx = w.market.st.pools[if p.is_long { P_FUNDING_LONG } else { P_FUNDING_SHORT }].amount(token_long);
        if idx > p.funding_fee_amount_per_size {
            let n = bu(p.size_in_usd) * bu(idx - p.funding_fee_amount_per_size);
            total += (&n + &adj - bu(1)) / &adj;
        }
    }
    total
}

/// Index-level backing of one funding update: what the payers' index charges in collateral token `c`, summed over the
/// payers' open interest with that collateral, covers what the receivers' claimable index promises in `c` over the
/// receivers' whole open interest: `Δfunding[payer, c] · OI_payer[c] ≥ Δclaimable[receiver, c] · OI_receiver`.
fn check_funding_update(out: &StepOutcome, rep: &UpdateFundingReport<u128, i128>, obs: &mut Obs) {
    let pre = &out.before.market;
    for longs_pay in [true, false] {
        let payer = pre.pools[if longs_pay { P_OI_LONG } else { P_OI_SHORT }];
        let recv = pre.pools[if longs_pay { P_OI_SHORT } else { P_OI_LONG }];
        let recv_total = bu(recv.long) + bu(recv.short);
        for coll_long in [true, false] {
            let charged = bu(*rep.delta_funding_amount_per_size(longs_pay, coll_long)) * bu(payer.amount(coll_long));
            let promised = bu(*rep.delta_claimable_funding_amount_per_size(!longs_pay, coll_long)) * &recv_total;
            if promised.is_zero() && charged.is_zero() {
                continue;
            }
            obs.probe("c08_funding_update_with_payment");
            obs.require(
                charged >= promised,
                "C08",
                "funding_index_backing",
                || format!("payer={},collateral={}", if longs_pay { "long" } else { "short" }, if coll_long { "long" } else { "short" }),
                || format!("Δfunding index × payer OI = {charged} < Δclaimable index × receiver OI = {promised}"),
            );
        }
    }
}

pub fn after_step(w: &World, out: &StepOutcome, obs: &mut Obs) {
    if let Report::Funding(rep) = &out.report {
        check_funding_update(out, rep, obs);
    }
    for r in &out.pre_reports {
        if let Report::Funding(rep) = r {
            check_funding_update(out, rep, obs);
        }
    }
    for token_long in [true, false] {
        let i = if token_long { 0 } else { 1 };
        let tname = if token_long { "long" } else { "short" };
        // --- identity, delta form
        let d_vault = bi(out.flows.token_in[i]) - bi(out.flows.token_out[i]);
        let d_accounted = accounted(&w.market.st, token_long) - accounted(&out.before.market, token_long);
        let coll_long = out.pos_after.or(out.pos_before).map(|p| p.is_collateral_token_long);
        let collected = if coll_long == Some(token_long) { bi(out.funding_collected) } else { BigInt::zero() };
        let expected = collected - bi(out.claimable_funding_out[i]);
        let disc = &d_vault - &d_accounted - &expected; // > 0: tokens lost from the books, < 0: created
        let (p_t, p_o) = if token_long {
            (out.prices.long_token_price, out.prices.short_token_price)
        } else {
            (out.prices.short_token_price, out.prices.long_token_price)
        };
        let dust = disc.abs() * bi(p_t.min) < bi(p_o.max) * bi(5);
        obs.require(
            disc.is_zero(),
            "C08",
            "ledger_identity",
            || {
                format!(
                    "token={tname},op={},direction={},below_one_secondary_unit={dust}",
                    out.op,
                    if disc.is_negative() { "created" } else { "lost" }
                )
            },
            || {
                format!(
                    "Δvault={d_vault} Δaccounted={d_accounted} funding collected − claimable funding paid={expected} discrepancy={disc} after {} ({}); cumulative vault={} residual={}",
                    out.op,
                    out.class,
                    w.ledger.vault(token_long),
                    residual(w, token_long)
                )
            },
        );
        // --- funding backing
        let backing = BigInt::from(w.ledger.funding_collected[i].clone()) - BigInt::from(w.ledger.claimable_funding_out[i].clone());
        if w.ledger.insufficient_funding_events == 0 {
            if backing.is_negative() {
                let debt = BigInt::from(pending_payer_debt(w, token_long));
                let covered = &backing + &debt >= BigInt::zero();
                if covered {
                    obs.probe("c08_negative_residual_covered_by_pending_debt");
                }
                obs.violation(
                    "C08",
                    "funding_residual_negative",
                    format!("token={tname},covered_by_pending_payer_debt={covered}"),
                    format!(
                        "funding collected − claimable funding paid out={backing} (residual={}) pending funding owed by open positions={debt} after {} ({})",
                        residual(w, token_long),
                        out.op,
                        out.class
                    ),
                );
            } else {
                obs.checked("funding_residual_negative");
            }
        } else {
            obs.probe("c08_history_with_insufficient_funding_payment");
        }
    }
    if out.funding_collected != 0 {
        obs.probe("c08_funding_collected");
    }
    if !out.insufficient_funding.is_empty() {
        obs.probe("c08_insufficient_funding_reported");
    }
}
