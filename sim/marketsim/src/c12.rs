//! C12 — funding rates stay within bounds and funding indices only grow.
//!
//! Oracles
//! * `funding_rate_above_max` / `funding_rate_below_min` (every `UpdateFundingState` report — stand-alone keeper step
//!   or the pre-settlement of another operation — whose pre-state has open interest on both sides): the rate per
//!   second the update used, obtained by the harness from the public
//!   `UpdateFundingState::next_funding_factor_per_second(duration, long_oi, short_oi)` on a fork of the pre-state
//!   (same duration, same open interest), satisfies `rate ≤ max` and `rate ≥ min`; the stored next factor of the
//!   report satisfies `|next| ≤ max`. Keys carry `adaptive=true|false` (`increase_factor_per_second ≠ 0`): the
//!   non-adaptive branch of the code never applies the minimum.
//! * `smaller_side_pays` (non-adaptive only): the side whose `delta_funding_amount_per_size` is non-zero in the report
//!   (the payer) has strictly more open interest than the other side.
//! * `funding_index_decreased` (after every step): none of the four funding-amount-per-size and four
//!   claimable-funding-amount-per-size indices is smaller than before the step.
//! * `pending_funding_negative` (after every step, every open position): independent of the API, the market index is
//!   `≥` the position's index for its funding index and both claimable indices; `pending_funding_fees` called by the
//!   harness is `Ok` (skipped when the misconfigured adjustment is zero).

use gmsol_model::{action::update_funding_state::UpdateFundingState, PositionExt};
use simcore::Obs;

use crate::world::{
    PosOps, Report, StepOutcome, World, P_CLAIMABLE_FUNDING_LONG, P_CLAIMABLE_FUNDING_SHORT, P_FUNDING_LONG,
    P_FUNDING_SHORT, P_OI_LONG, P_OI_SHORT,
};

fn check_update(w: &World, out: &StepOutcome, rep: &gmsol_model::action::update_funding_state::UpdateFundingReport<u128, i128>, obs: &mut Obs) {
    let pre = &out.before.market;
    let lo = pre.pools[P_OI_LONG].long.saturating_add(pre.pools[P_OI_LONG].short);
    let so = pre.pools[P_OI_SHORT].long.saturating_add(pre.pools[P_OI_SHORT].short);
    if lo == 0 || so == 0 {
        obs.probe("c12_update_with_one_side_empty");
        return;
    }
    obs.probe("c12_update_with_both_sides_open");
    let fc = &w.cfg.market.funding;
    let adaptive = fc.increase_factor_per_second.0 != 0;
    let (min, max) = (fc.min_factor_per_second.0, fc.max_factor_per_second.0);
    let duration = rep.duration_in_seconds();
    if duration == 0 {
        obs.probe("c12_update_zero_elapsed");
    } else if duration > 86_400 * 365 {
        obs.probe("c12_update_years_elapsed");
    }
    let stored = *rep.next_funding_factor_per_second();
    obs.require(
        stored.unsigned_abs() <= max,
        "C12",
        "funding_rate_above_max",
        || format!("adaptive={adaptive},which=stored_next"),
        || format!("|next funding factor per second|={} max={max}", stored.unsigned_abs()),
    );
    // the rate the update used: public API on a fork of the pre-state
    let mut f = w.fork();
    f.restore(&out.before);
    f.prices = out.prices;
    let prices = f.prices;
    let (r, _, _, _) = f.run_tx(0, |w, _| {
        UpdateFundingState::try_new(&mut w.market, &prices)?.next_funding_factor_per_second(duration, &lo, &so)
    });
    if let Ok((rate, longs_pay, _)) = r {
        obs.require(
            rate <= max,
            "C12",
            "funding_rate_above_max",
            || format!("adaptive={adaptive},which=rate_used"),
            || format!("rate={rate} max={max} long_oi={lo} short_oi={so} duration={duration}"),
        );
        obs.require(
            rate >= min,
            "C12",
            "funding_rate_below_min",
            || format!("adaptive={adaptive}"),
            || format!("rate={rate} min={min} max={max} long_oi={lo} short_oi={so} duration={duration} longs_pay={longs_pay}"),
        );
    } else {
        obs.probe("c12_rate_not_computable");
    }
    if !adaptive {
        for is_long in [true, false] {
            let paid = *rep.delta_funding_amount_per_size(is_long, true) != 0 || *rep.delta_funding_amount_per_size(is_long, false) != 0;
            if paid {
                obs.probe("c12_non_adaptive_payment");
                let (payer, other) = if is_long { (lo, so) } else { (so, lo) };
                obs.require(
                    payer > other,
                    "C12",
                    "smaller_side_pays",
                    || format!("payer={}", if is_long { "long" } else { "short" }),
                    || format!("payer open interest={payer} receiver open interest={other}"),
                );
            }
        }
    }
}

pub fn after_step(w: &World, out: &StepOutcome, obs: &mut Obs) {
    if out.ok {
        if let Report::Funding(rep) = &out.report {
            check_update(w, out, rep, obs);
        }
        for r in &out.pre_reports {
            if let Report::Funding(rep) = r {
                check_update(w, out, rep, obs);
            }
        }
    }
    let st = &w.market.st;
    for (id, name) in [
        (P_FUNDING_LONG, "funding_long"),
        (P_FUNDING_SHORT, "funding_short"),
        (P_CLAIMABLE_FUNDING_LONG, "claimable_long"),
        (P_CLAIMABLE_FUNDING_SHORT, "claimable_short"),
    ] {
        for coll_long in [true, false] {
            let (a, b) = (out.before.market.pools[id].amount(coll_long), st.pools[id].amount(coll_long));
            obs.require(
                b >= a,
                "C12",
                "funding_index_decreased",
                || format!("index={name},collateral={},op={}", if coll_long { "long" } else { "short" }, out.op),
                || format!("{a} -> {b} by {} ({})", out.op, out.class),
            );
        }
    }
    let live = w.live_positions();
    if live.is_empty() {
        return;
    }
    let adjustment_zero = w.cfg.market.funding_amount_per_size_adjustment.0 == 0;
    let mut f = w.fork();
    for idx in live {
        let p = w.positions[idx];
        let fi = st.pools[if p.is_long { P_FUNDING_LONG } else { P_FUNDING_SHORT }].amount(p.is_collateral_token_long);
        let cp = st.pools[if p.is_long { P_CLAIMABLE_FUNDING_LONG } else { P_CLAIMABLE_FUNDING_SHORT }];
        let ordered = fi >= p.funding_fee_amount_per_size
            && cp.long >= p.claimable_funding_fee_amount_per_size[0]
            && cp.short >= p.claimable_funding_fee_amount_per_size[1];
        let (r, _, _, _) = if adjustment_zero {
            (Ok(None), Default::default(), 0, None)
        } else {
            f.run_tx(0, |w, _| {
                let mut pos = w.positions[idx];
                let ops = PosOps { market: &mut w.market, pos: &mut pos, inner: vec![] };
                ops.pending_funding_fees().map(Some)
            })
        };
        if let Ok(Some(fees)) = &r {
            if *fees.amount() != 0 {
                obs.probe("c12_pending_funding_fee_positive");
            }
        }
        obs.require(
            ordered && r.is_ok(),
            "C12",
            "pending_funding_negative",
            || format!("indices_ordered={ordered},api_ok={},op={}", r.is_ok(), out.op),
            || {
                format!(
                    "position {idx}: funding index {} vs market {fi}; claimable ({},{}) vs market ({},{}) after {} ({})",
                    p.funding_fee_amount_per_size,
                    p.claimable_funding_fee_amount_per_size[0],
                    p.claimable_funding_fee_amount_per_size[1],
                    cp.long,
                    cp.short,
                    out.op,
                    out.class
                )
            },
        );
    }
}
