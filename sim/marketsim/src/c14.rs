//! C14 — position impact distribution respects the pool floor.
//!
//! Oracles (every `DistributePositionImpact` report: keeper step or pre-settlement of another operation; big integers)
//! with `current` = position impact pool amount before, `min`, `rate` from the configuration and `elapsed` =
//! `max(now − last distribution time, 0)` taken from the harness' snapshot of the clocks:
//! * `distribution_amount`: `distributed == (rate == 0 or current ≤ min ? 0 : min(⌊elapsed·rate/10²⁰⌋, current − min))`,
//!   `report.next == current − distributed`, `report.duration == elapsed`, and for a stand-alone step the pool holds
//!   `report.next` afterwards.
//! * `distribution_increased_pool`: `next ≤ current`.
//! * `distribution_below_floor`: `current > min ⇒ next ≥ min`.
//! * `split_distributes_more` (probe): on two forks, distributing after `t1` and again after `t2` more seconds never
//!   distributes more in total than one distribution after `t1 + t2`.

use gmsol_model::{MarketAction, PositionImpactMarketMutExt};
use num_bigint::BigUint;
use num_traits::Zero;
use simcore::Obs;

use crate::num::UNIT;
use crate::refmath::bu;
use crate::world::{Report, StepOutcome, World, CLOCK_DISTRIBUTION, P_POSITION_IMPACT};

fn check(w: &World, out: &StepOutcome, rep: &gmsol_model::action::distribute_position_impact::DistributePositionImpactReport<u128>, standalone: bool, obs: &mut Obs) {
    let pre = &out.before.market;
    let current = pre.pools[P_POSITION_IMPACT].long;
    let min = w.cfg.market.min_position_impact_pool_amount.0;
    let rate = w.cfg.market.distribute_factor.0;
    let elapsed = pre.now.saturating_sub(pre.clocks[CLOCK_DISTRIBUTION]).max(0) as u64;
    let expected: BigUint = if rate == 0 || current <= min {
        BigUint::zero()
    } else {
        (bu(elapsed as u128) * bu(rate) / bu(UNIT)).min(bu(current - min))
    };
    let distributed = *rep.distribution_amount();
    let next = *rep.next_position_impact_pool_amount();
    if distributed != 0 {
        obs.probe("c14_distributed_nonzero");
        if bu(distributed) == bu(current.saturating_sub(min)) {
            obs.probe("c14_distribution_capped_at_floor");
        }
    }
    if current != 0 && current <= min {
        obs.probe("c14_pool_at_or_below_floor");
    }
    let pool_ok = !standalone || !out.ok || w.market.st.pools[P_POSITION_IMPACT].long == next;
    obs.require(
        bu(distributed) == expected && bu(next) + &expected == bu(current) && rep.duration_in_seconds() == elapsed && pool_ok,
        "C14",
        "distribution_amount",
        || format!("standalone={standalone},amount_ok={},next_ok={},duration_ok={},pool_ok={pool_ok}", bu(distributed) == expected, bu(next) + &expected == bu(current), rep.duration_in_seconds() == elapsed),
        || format!("current={current} min={min} rate={rate} elapsed={elapsed} (report {}) distributed={distributed} expected={expected} next={next}", rep.duration_in_seconds()),
    );
    obs.require(next <= current, "C14", "distribution_increased_pool", || format!("standalone={standalone}"), || format!("current={current} next={next}"));
    obs.require(current <= min || next >= min, "C14", "distribution_below_floor", || format!("standalone={standalone}"), || format!("current={current} min={min} next={next}"));
}

pub fn after_step(w: &World, out: &StepOutcome, obs: &mut Obs) {
    if let Report::Distribute(rep) = &out.report {
        check(w, out, rep, true, obs);
    }
    for r in &out.pre_reports {
        if let Report::Distribute(rep) = r {
            check(w, out, rep, false, obs);
        }
    }
}

pub fn probe_split(w: &World, t1: u32, t2: u32, obs: &mut Obs) {
    let run = |advances: &[i64]| -> Option<BigUint> {
        let mut f = w.fork();
        let mut total = BigUint::zero();
        for a in advances {
            f.market.st.now = f.market.st.now.saturating_add(*a);
            let (r, _, _, _) = f.run_tx(0, |w, _| w.market.distribute_position_impact()?.execute());
            total += bu(*r.ok()?.distribution_amount());
        }
        Some(total)
    };
    let split = run(&[t1 as i64, t2 as i64]);
    let once = run(&[t1 as i64 + t2 as i64]);
    if let (Some(a), Some(b)) = (split, once) {
        if !b.is_zero() {
            obs.probe("c14_split_probe_nonzero");
        }
        obs.require(a <= b, "C14", "split_distributes_more", || "probe".to_string(), || format!("t1={t1} t2={t2} split total={a} single={b}"));
    } else {
        obs.probe("c14_split_probe_not_computable");
    }
}
