//! Failing storage: "fail the k-th fallible call of this operation".
//!
//! The controller is a per-thread set of `Cell`s (a run executes on exactly one thread and every operation
//! starts with [`begin`], so the behaviour is a pure function of the plan). Every fallible accessor of
//! `SimMarket` / `SimPool` calls [`tick`] before doing anything else.
//!
//! Trait contract (documented on the `*_mut` accessors of `gmsol-model`: "must return `Ok` if the shared
//! accessor does", relied upon with `expect` in `BaseMarketMutExt::apply_delta` and `Swap::execute`):
//!
//! * a failing access to pool kind *K* makes *K* unavailable for the rest of the operation (the store fails
//!   these accessors exactly when the pool kind is missing, which is a static condition);
//! * a `*_mut` accessor of kind *K* is a fault point only while *K* has not been accessed successfully in this
//!   operation; afterwards it succeeds unconditionally (and is not counted).
//! * parameter getters, pool arithmetic (`checked_apply_delta`), clocks, mint and burn return `Result` without any
//!   such promise and are plain (transient) fault points.

use std::cell::Cell;

use gmsol_model::{ClockKind, Error, PoolKind};

#[derive(Clone, Copy, Debug, PartialEq, Eq)]
pub enum Pt {
    /// Shared pool accessor of pool id.
    Pool(u8),
    /// Mutable pool accessor of pool id.
    PoolMut(u8),
    /// Parameter getter (id is only informative).
    Param(u8),
    /// Pool arithmetic on pool id.
    Apply(u8),
    /// Clock read / update.
    Clock(u8),
    Mint,
    Burn,
}

impl Pt {
    pub fn name(&self) -> &'static str {
        match self {
            Pt::Pool(_) => "pool_access_fail",
            Pt::PoolMut(_) => "pool_mut_access_fail",
            Pt::Param(_) => "param_access_fail",
            Pt::Apply(_) => "pool_apply_delta_fail",
            Pt::Clock(_) => "clock_access_fail",
            Pt::Mint => "mint_fail",
            Pt::Burn => "burn_fail",
        }
    }
}

#[derive(Clone, Copy, Debug, PartialEq, Eq)]
pub struct Fired {
    /// 1-based index of the fallible call that failed.
    pub k: u32,
    pub pt: Pt,
}

struct Ctl {
    count: Cell<u32>,
    fail_at: Cell<u32>,
    fired: Cell<Option<Fired>>,
    ok_mask: Cell<u64>,
    broken_mask: Cell<u64>,
}

thread_local! {
    static CTL: Ctl = const { Ctl {
        count: Cell::new(0),
        fail_at: Cell::new(0),
        fired: Cell::new(None),
        ok_mask: Cell::new(0),
        broken_mask: Cell::new(0),
    } };
}

/// Start an operation; `fail_at == 0` means no injected failure.
pub fn begin(fail_at: u32) {
    CTL.with(|c| {
        c.count.set(0);
        c.fail_at.set(fail_at);
        c.fired.set(None);
        c.ok_mask.set(0);
        c.broken_mask.set(0);
    })
}

/// End an operation: `(number of fallible calls made, fault that fired)`. Disarms the controller.
pub fn end() -> (u32, Option<Fired>) {
    CTL.with(|c| {
        let r = (c.count.get(), c.fired.get());
        c.fail_at.set(0);
        c.broken_mask.set(0);
        c.ok_mask.set(0);
        r
    })
}

const POOL_KINDS: [PoolKind; 16] = [
    PoolKind::Primary,
    PoolKind::SwapImpact,
    PoolKind::ClaimableFee,
    PoolKind::OpenInterestForLong,
    PoolKind::OpenInterestForShort,
    PoolKind::OpenInterestInTokensForLong,
    PoolKind::OpenInterestInTokensForShort,
    PoolKind::PositionImpact,
    PoolKind::BorrowingFactor,
    PoolKind::FundingAmountPerSizeForLong,
    PoolKind::FundingAmountPerSizeForShort,
    PoolKind::ClaimableFundingAmountPerSizeForLong,
    PoolKind::ClaimableFundingAmountPerSizeForShort,
    PoolKind::CollateralSumForLong,
    PoolKind::CollateralSumForShort,
    PoolKind::TotalBorrowing,
];

fn error_for(pt: Pt) -> Error {
    match pt {
        Pt::Pool(id) | Pt::PoolMut(id) => match POOL_KINDS.get(id as usize) {
            Some(k) => Error::MissingPoolKind(*k),
            None => Error::InvalidArgument("injected: virtual inventory unavailable"),
        },
        Pt::Apply(id) => match POOL_KINDS.get(id as usize) {
            Some(k) => Error::PoolComputation(*k, "injected failure"),
            None => Error::Computation("injected: virtual inventory arithmetic failure"),
        },
        Pt::Param(_) => Error::InvalidArgument("injected: parameter unavailable"),
        Pt::Clock(id) => Error::MissingClockKind(match id {
            0 => ClockKind::Funding,
            1 => ClockKind::Borrowing,
            _ => ClockKind::PriceImpactDistribution,
        }),
        Pt::Mint => Error::MintReceiverNotSet,
        Pt::Burn => Error::WithdrawalVaultNotSet,
    }
}

/// Called by every fallible accessor.
#[inline]
pub fn tick(pt: Pt) -> Result<(), Error> {
    CTL.with(|c| {
        let kind_bit = match pt {
            Pt::Pool(id) | Pt::PoolMut(id) => Some(1u64 << id),
            _ => None,
        };
        if let Some(bit) = kind_bit {
            if c.broken_mask.get() & bit != 0 {
                return Err(error_for(pt));
            }
            if matches!(pt, Pt::PoolMut(_)) && c.ok_mask.get() & bit != 0 {
                // contract: must succeed, not a fault point
                return Ok(());
            }
        }
        let n = c.count.get() + 1;
        c.count.set(n);
        if n == c.fail_at.get() {
            c.fired.set(Some(Fired { k: n, pt }));
            if let Some(bit) = kind_bit {
                c.broken_mask.set(c.broken_mask.get() | bit);
            }
            return Err(error_for(pt));
        }
        if let Some(bit) = kind_bit {
            c.ok_mask.set(c.ok_mask.get() | bit);
        }
        Ok(())
    })
}
