//! C06 — liquidity providers cannot profit from a deposit / withdraw round trip.
//!
//! Probe (fork of the world): settle the fee state like the store does before every deposit / withdrawal
//! (distribute impact, update borrowing, update funding; this also makes the pending terms of the pool value
//! independent of the pool size), deposit `(x, y)`, withdraw everything minted at the same prices and time.
//!
//! Oracles
//! * `round_trip_profit` (a): `out_usd ≤ in_usd`, both valued at the mid prices (the code guarantees the stronger
//!   `out·p.max ≤ in·p.min`). If it fails, the key says whether the profit is covered by the value that left the
//!   swap impact pool during the deposit leg (`funded_by_impact_pool=true`: profit ≤ Σ impact-pool decrease ×
//!   p.max, the balancing incentive) or not (`false`), and whether the supply was zero before the deposit
//!   (`supply_zero_before=true`: with zero supply and a non-zero pool value the depositor is given the ownerless
//!   pool value by `usd_to_market_token_amount`; no other LP exists). `false,false` is a hard violation.
//! * `lp_value_decreased` (b): with `v` = `pool_value` (the code's public valuation, called by the harness) and `S` =
//!   supply, across each leg `v₁·S₀ ≥ v₀·S₁ − max(S₀,S₁)` (big integers), i.e. the value of one market token drops by
//!   at most `1 unit / supply`. Soundness: with `u` the credited USD value, the deposit mints `⌊S·u/v⌋` (rounded
//!   down) while the maximised pool value grows by at least `u` (fees stay in the pool, input valued at min, pool at
//!   max); the withdrawal pays `⌊⌊v·m/S⌋·share/p.max⌋` (rounded down twice) while the minimised pool value shrinks by
//!   at most `v·m/S`; every rounding favours the pool, so the exact bound is 0 and the allowance is slack.
//!   Valuations: the deposit leg is checked under the valuation the deposit uses (`MaxAfterDeposit`, maximised),
//!   the withdrawal leg under the one the withdrawal uses (`MaxAfterWithdrawal`, minimised). The two cross
//!   combinations are checked only when all three prices have `min == max` and the pool pnl is not capped under
//!   that valuation before and after the leg (with a spread, or a binding pnl cap, the other valuation can move
//!   against the leg by construction: a positive-impact bonus is minted at `p.max` but valued at `p.min`, and a
//!   binding cap grows with the deposited side). The key carries `leg`, `valuation`, `pnl_capped`.
//!   The same check runs as a monitor on every real deposit / withdrawal step of a history whose configuration
//!   settles the fee state first.
//! * `first_deposit_price` (c): a deposit into an empty pool (supply 0, liquidity 0, pool value 0) mints
//!   `Σ_side ⌊net_side · p_side.min / divisor⌋` market tokens where `net_side` is what entered the liquidity pool
//!   net of pool fees (observed from the pool delta and the report), and never more than
//!   `Σ_side amount_side · p_side.min / divisor` (one USD per token).

use gmsol_model::{price::Prices, LiquidityMarketExt, LiquidityMarketMutExt, MarketAction, PnlFactorKind};
use num_bigint::{BigInt, BigUint};
use num_traits::{Signed, Zero};
use simcore::Obs;

use crate::refmath::{apply_factor, bi, bs, bu, mid};
use crate::world::{
    MarketState, Report, StepOutcome, World, P_OI_LONG, P_OI_SHORT, P_OI_TOKENS_LONG, P_OI_TOKENS_SHORT, P_PRIMARY,
    P_SWAP_IMPACT,
};

#[derive(Clone, Copy, Debug, PartialEq, Eq)]
pub enum Valuation {
    /// `pool_value(MaxAfterDeposit, maximize = true)` — what a deposit uses.
    Deposit,
    /// `pool_value(MaxAfterWithdrawal, maximize = false)` — what a withdrawal uses.
    Withdrawal,
}

impl Valuation {
    fn name(&self) -> &'static str {
        match self {
            Valuation::Deposit => "max_after_deposit_maximized",
            Valuation::Withdrawal => "max_after_withdrawal_minimized",
        }
    }
}

#[derive(Clone, Debug)]
pub struct Valued {
    pub supply: u128,
    pub value: Option<i128>,
    pub pnl_capped: bool,
}

/// Is the pool pnl of either side capped under this valuation? (independent arithmetic on the pools)
fn pnl_capped(w: &World, st: &MarketState, prices: &Prices<u128>, val: Valuation) -> bool {
    let (factor, maximize) = match val {
        Valuation::Deposit => (w.cfg.market.pnl_factors[0].0, true),
        Valuation::Withdrawal => (w.cfg.market.pnl_factors[1].0, false),
    };
    let mut capped = false;
    for is_long in [true, false] {
        let oi = if is_long { st.pools[P_OI_LONG] } else { st.pools[P_OI_SHORT] };
        let oit = if is_long { st.pools[P_OI_TOKENS_LONG] } else { st.pools[P_OI_TOKENS_SHORT] };
        let oi = bi(oi.long) + bi(oi.short);
        let oit = bi(oit.long) + bi(oit.short);
        // pool_value uses pnl(.., !maximize); pick_price_for_pnl(is_long, m) = if is_long ^ m { min } else { max }
        let m = !maximize;
        let price = if is_long ^ m { prices.index_token_price.min } else { prices.index_token_price.max };
        let pnl: BigInt = if is_long { &oit * bi(price) - &oi } else { &oi - &oit * bi(price) };
        let tp = if is_long { prices.long_token_price } else { prices.short_token_price };
        let side_value = bu(st.pools[P_PRIMARY].amount(is_long)) * bu(if maximize { tp.max } else { tp.min });
        let cap = BigInt::from(apply_factor(&side_value, factor));
        if pnl.is_positive() && pnl > cap {
            capped = true;
        }
    }
    capped
}

pub fn valued(w: &mut World, val: Valuation) -> Valued {
    let prices = w.prices;
    let (kind, maximize) = match val {
        Valuation::Deposit => (PnlFactorKind::MaxAfterDeposit, true),
        Valuation::Withdrawal => (PnlFactorKind::MaxAfterWithdrawal, false),
    };
    let (r, _, _, _) = w.run_tx(0, |w, _| w.market.pool_value(&prices, kind, maximize));
    Valued {
        supply: w.market.st.total_supply,
        value: r.ok(),
        pnl_capped: pnl_capped(w, &w.market.st, &prices, val),
    }
}

fn no_spread(p: &Prices<u128>) -> bool {
    p.index_token_price.min == p.index_token_price.max
        && p.long_token_price.min == p.long_token_price.max
        && p.short_token_price.min == p.short_token_price.max
}

/// (b) across one leg under one valuation.
fn check_leg(leg: &'static str, val: Valuation, via: &'static str, a: &Valued, b: &Valued, obs: &mut Obs) {
    let (Some(v0), Some(v1)) = (a.value, b.value) else {
        obs.probe("c06_value_not_computable");
        return;
    };
    if a.supply == 0 || b.supply == 0 {
        return; // no other LPs before / nobody left after
    }
    if v0 < 0 {
        return;
    }
    let lhs = bs(v1) * bi(a.supply);
    let rhs = bs(v0) * bi(b.supply) - bi(a.supply.max(b.supply));
    let capped = a.pnl_capped || b.pnl_capped;
    obs.require(
        lhs >= rhs,
        "C06",
        "lp_value_decreased",
        || format!("leg={leg},valuation={},pnl_capped={capped},via={via}", val.name()),
        || {
            format!(
                "pool_value {v0} -> {v1}, supply {} -> {}; v1*S0={lhs} < v0*S1 - max(S)={rhs}",
                a.supply, b.supply
            )
        },
    );
}

fn legs(leg: &'static str, via: &'static str, prices: &Prices<u128>, before: &[Valued; 2], after: &[Valued; 2], obs: &mut Obs) {
    let (own, cross) = if leg == "deposit" { (0, 1) } else { (1, 0) };
    let vals = [Valuation::Deposit, Valuation::Withdrawal];
    check_leg(leg, vals[own], via, &before[own], &after[own], obs);
    if no_spread(prices) && !before[cross].pnl_capped && !after[cross].pnl_capped {
        obs.probe("c06_cross_valuation_checked");
        check_leg(leg, vals[cross], via, &before[cross], &after[cross], obs);
    }
}

fn both(w: &mut World) -> [Valued; 2] {
    [valued(w, Valuation::Deposit), valued(w, Valuation::Withdrawal)]
}

/// (c) first deposit pricing, from the state before / after a successful deposit.
fn check_first_deposit(
    w: &World,
    before: &MarketState,
    after: &MarketState,
    value_before: Option<i128>,
    rep: &gmsol_model::action::deposit::DepositReport<u128, i128>,
    prices: &Prices<u128>,
    via: &'static str,
    obs: &mut Obs,
) {
    let empty = before.total_supply == 0
        && before.pools[P_PRIMARY].long == 0
        && before.pools[P_PRIMARY].short == 0
        && value_before == Some(0);
    if !empty {
        return;
    }
    obs.probe("c06_first_deposit");
    let divisor = w.cfg.market.usd_to_amount_divisor.0;
    if divisor == 0 {
        return;
    }
    let mut exact = BigUint::zero();
    let mut upper = BigUint::zero();
    for (is_long, amount, fees, p) in [
        (true, *rep.params().long_token_amount(), rep.long_token_fees(), prices.long_token_price),
        (false, *rep.params().short_token_amount(), rep.short_token_fees(), prices.short_token_price),
    ] {
        let entered = after.pools[P_PRIMARY].amount(is_long) - before.pools[P_PRIMARY].amount(is_long);
        let net = entered.saturating_sub(*fees.fee_amount_for_pool());
        exact += bu(net) * bu(p.min) / bu(divisor);
        upper += bu(amount) * bu(p.min);
    }
    let minted = bu(*rep.minted());
    obs.require(
        minted == exact && &minted * bu(divisor) <= upper,
        "C06",
        "first_deposit_price",
        || format!("exact={},within_one_usd_per_token={},via={via}", minted == exact, &minted * bu(divisor) <= upper),
        || format!("minted={minted} expected={exact} gross_value={upper} divisor={divisor}"),
    );
}

pub fn probe_round_trip(w: &World, long_amount: u128, short_amount: u128, obs: &mut Obs) {
    let mut f = w.fork();
    let prices = f.prices;
    let (r, _, _, _) = f.run_tx(0, |w, sc| w.settle(&mut sc.pre_reports));
    if r.is_err() {
        obs.probe("c06_probe_settle_failed");
        return;
    }
    let st0 = f.market.st.clone();
    let v0 = both(&mut f);
    let (r, _, _, _) = f.run_tx(0, |w, _| w.market.deposit(long_amount, short_amount, prices)?.execute());
    let dep = match r {
        Ok(d) => d,
        Err(_) => {
            obs.probe("c06_probe_deposit_rejected");
            return;
        }
    };
    let st1 = f.market.st.clone();
    let v1 = both(&mut f);
    obs.probe("c06_probe_deposit_ok");
    if *dep.price_impact() > 0 {
        obs.probe("c06_probe_deposit_positive_impact");
    }
    check_first_deposit(w, &st0, &st1, v0[0].value, &dep, &prices, "probe", obs);
    legs("deposit", "probe", &prices, &v0, &v1, obs);
    if obs.should_stop() {
        return;
    }
    let minted = *dep.minted();
    if minted == 0 {
        obs.probe("c06_probe_minted_zero");
        return;
    }
    let (r, _, _, _) = f.run_tx(0, |w, _| w.market.withdraw(minted, prices)?.execute());
    let wd = match r {
        Ok(x) => x,
        Err(_) => {
            obs.probe("c06_probe_withdraw_rejected");
            return;
        }
    };
    let v2 = both(&mut f);
    obs.probe("c06_probe_round_trip_ok");
    legs("withdraw", "probe", &prices, &v1, &v2, obs);
    // (a)
    let ml = mid(prices.long_token_price.min, prices.long_token_price.max);
    let ms = mid(prices.short_token_price.min, prices.short_token_price.max);
    let in_usd = bu(long_amount) * bu(ml) + bu(short_amount) * bu(ms);
    let out_usd = bu(*wd.long_token_output()) * bu(ml) + bu(*wd.short_token_output()) * bu(ms);
    let dec = |is_long: bool| st0.pools[P_SWAP_IMPACT].amount(is_long).saturating_sub(st1.pools[P_SWAP_IMPACT].amount(is_long));
    let bonus = bu(dec(true)) * bu(prices.long_token_price.max) + bu(dec(false)) * bu(prices.short_token_price.max);
    if out_usd > in_usd {
        let profit = &out_usd - &in_usd;
        let funded = profit <= bonus;
        if funded {
            obs.probe("c06_round_trip_profit_funded_by_impact_pool");
        }
        obs.violation(
            "C06",
            "round_trip_profit",
            format!("funded_by_impact_pool={funded},supply_zero_before={}", st0.total_supply == 0),
            format!(
                "deposit=({long_amount},{short_amount}) minted={minted} withdrawn=({},{}) in_usd={in_usd} out_usd={out_usd} profit={profit} impact_pool_bonus_value={bonus}",
                wd.long_token_output(),
                wd.short_token_output()
            ),
        );
    } else {
        obs.checked("round_trip_profit");
    }
}

/// Monitor on a real deposit / withdrawal step (only when the configuration settles the fee state first).
pub fn after_step(w: &World, out: &StepOutcome, obs: &mut Obs) {
    if !out.ok || !(out.op == "deposit" || out.op == "withdraw") {
        return;
    }
    if !w.cfg.settle_before_ops {
        // (c) does not need the settlement
        if let Report::Deposit(rep) = &out.report {
            if out.before.market.total_supply == 0 {
                let mut b = w.fork();
                b.restore(&out.before);
                let v = valued(&mut b, Valuation::Deposit);
                check_first_deposit(w, &out.before.market, &w.market.st, v.value, rep, &out.prices, "step", obs);
            }
        }
        return;
    }
    // state right before the action: the snapshot plus the settlement the transaction did
    let mut b = w.fork();
    b.restore(&out.before);
    b.prices = out.prices;
    let (r, _, _, _) = b.run_tx(0, |w, sc| w.settle(&mut sc.pre_reports));
    if r.is_err() {
        return;
    }
    let st0 = b.market.st.clone();
    let v0 = both(&mut b);
    let mut a = w.fork();
    a.prices = out.prices;
    let v1 = both(&mut a);
    match &out.report {
        Report::Deposit(rep) => {
            check_first_deposit(w, &st0, &w.market.st, v0[0].value, rep, &out.prices, "step", obs);
            legs("deposit", "step", &out.prices, &v0, &v1, obs);
        }
        Report::Withdraw(_) => legs("withdraw", "step", &out.prices, &v0, &v1, obs),
        _ => {}
    }
}
