//! The `market_history` scenario: one market, LPs, swappers, traders, a keeper, a price process and a clock.

use simcore::{Components, Obs, Scenario, Tier};

use crate::cfg::{Cfg, ProbeKind, Step};
use crate::world::{Report, StepOutcome, World, N_POOLS};
use crate::{c02, c03, c04, c05, c06, c07, c08, c09, c10, c11, c12, c13, c14, gen};

pub struct MarketHistory {
    pub focus: &'static str,
}

impl MarketHistory {
    pub fn for_focus(focus: &'static str) -> Self {
        MarketHistory { focus }
    }
}

fn fingerprint(w: &World, obs: &mut Obs) {
    // sign/zero pattern of every pool and of the funding factor x number of open positions per side
    let mut bits = 0u64;
    for i in 0..N_POOLS {
        let p = w.market.st.pools[i];
        bits |= ((p.long != 0) as u64) << (2 * i);
        bits |= ((p.short != 0) as u64) << (2 * i + 1);
    }
    let f = w.market.st.funding_factor_per_second;
    let fs = if f > 0 { 1 } else if f < 0 { 2 } else { 0 };
    let longs = w.positions.iter().filter(|p| p.is_live() && p.is_long).count() as u64;
    let shorts = w.positions.iter().filter(|p| p.is_live() && !p.is_long).count() as u64;
    let supply = (w.market.st.total_supply != 0) as u64;
    obs.fingerprint(&[bits, fs, longs, shorts, supply]);
}

fn describe(out: &StepOutcome) -> String {
    let detail = match &out.report {
        Report::Deposit(r) => format!("minted={} impact={}", r.minted(), r.price_impact()),
        Report::Withdraw(r) => format!("out=({},{})", r.long_token_output(), r.short_token_output()),
        Report::Swap(r) => format!(
            "in={} out={} impact={} fees=({},{})",
            r.params().token_in_amount(),
            r.token_out_amount(),
            r.price_impact(),
            r.token_in_fees().fee_amount_for_pool(),
            r.token_in_fees().fee_amount_for_receiver()
        ),
        Report::Increase(r) => format!(
            "size_tokens={} impact={} collateral_delta={}",
            r.execution().size_delta_in_tokens(),
            r.execution().price_impact_value(),
            r.collateral_delta_amount()
        ),
        Report::Decrease(r) => format!(
            "size_delta={} out=({},{}) remove={} pnl={} insolvent={:?}",
            r.size_delta_usd(),
            r.output_amount(),
            r.secondary_output_amount(),
            r.should_remove(),
            r.pnl().pnl(),
            r.insolvent_close_step()
        ),
        Report::Funding(r) => format!("dt={} next_factor={}", r.duration_in_seconds(), r.next_funding_factor_per_second()),
        Report::Borrowing(r) => format!("dt={}", r.duration_in_seconds()),
        Report::Distribute(r) => format!("dt={} distributed={}", r.duration_in_seconds(), r.distribution_amount()),
        Report::ClaimFees { long, short } => format!("claimed=({long},{short})"),
        Report::None => String::new(),
    };
    format!(
        "{} {} req=({},{}) calls={} fault={:?} {} {}",
        out.op,
        out.class,
        out.req.0,
        out.req.1,
        out.fallible_calls,
        out.fault_fired.map(|f| (f.k, f.pt.name())),
        detail,
        out.error.clone().unwrap_or_default()
    )
}

impl Scenario for MarketHistory {
    type Cfg = Cfg;
    type Step = Step;

    fn name(&self) -> &'static str {
        "market_history"
    }

    fn generate(&self, seed: u64, run: u64, tier: Tier, focus: &str) -> (Cfg, Vec<Step>) {
        let g = gen::generate(seed, run, tier, focus);
        (g.cfg, g.steps)
    }

    fn execute(&self, cfg: &Cfg, steps: &[Step], obs: &mut Obs) {
        let mut w = World::new(cfg);
        obs.event(|| {
            format!(
                "batch={} faults={} misconfig={} settle={} lps={} positions={} vi=({},{})",
                cfg.batch,
                cfg.faults_enabled,
                cfg.misconfig,
                cfg.settle_before_ops,
                cfg.n_lps,
                cfg.n_positions,
                cfg.market.vi_swaps.is_some(),
                cfg.market.vi_positions.is_some()
            )
        });
        c03::once_per_run(&w, obs);
        if obs.should_stop() {
            return;
        }
        for (i, step) in steps.iter().enumerate() {
            obs.set_step(i);
            match step {
                Step::Probe { kind } => {
                    match kind {
                        ProbeKind::LpRoundTrip { long_amount, short_amount } => {
                            c06::probe_round_trip(&w, long_amount.0, short_amount.0, obs)
                        }
                        ProbeKind::ImpactRoundTrip { long_delta, short_delta } => {
                            c03::probe_round_trip(&w, long_delta.0, short_delta.0, obs)
                        }
                        ProbeKind::PositionImpactRoundTrip { pos, size_usd } => {
                            c03::probe_position_round_trip(&w, *pos, size_usd.0, obs)
                        }
                        ProbeKind::Discount { pos, collateral, size_usd, discount } => {
                            c02::probe_discount(&w, *pos, collateral.0, size_usd.0, discount.0, obs)
                        }
                        ProbeKind::FeesDirect { amount, discount, pos } => {
                            c02::probe_fees_direct(&w, amount.0, discount.0, *pos, obs)
                        }
                        ProbeKind::SplitDistribution { t1, t2 } => c14::probe_split(&w, *t1, *t2, obs),
                        ProbeKind::OpenClose { is_long, collateral_long, collateral, size_usd } => {
                            c10::probe_open_close(&w, *is_long, *collateral_long, collateral.0, size_usd.0, obs)
                        }
                        ProbeKind::PnlDirection { pos, bump_bps, partial_bps } => c11::probe_pnl(&w, *pos, *bump_bps, *partial_bps, obs),
                    }
                    let name = match kind {
                        ProbeKind::LpRoundTrip { .. } => "lp_round_trip",
                        ProbeKind::ImpactRoundTrip { .. } => "impact_round_trip",
                        ProbeKind::PositionImpactRoundTrip { .. } => "position_impact_round_trip",
                        ProbeKind::Discount { .. } => "discount_fork",
                        ProbeKind::FeesDirect { .. } => "fees_direct",
                        ProbeKind::SplitDistribution { .. } => "split_distribution",
                        ProbeKind::OpenClose { .. } => "open_close",
                        ProbeKind::PnlDirection { .. } => "pnl_direction",
                    };
                    obs.outcome("oracle", name, "ok");
                    obs.event(|| format!("probe {name}"));
                }
                _ => {
                    if let Step::Swap { long_in, amount } = step {
                        if cfg.enumerate_swap_faults {
                            let n = c04::enumerate(&w, *long_in, amount.0, obs);
                            obs.event(|| format!("fault enumeration over {n} points"));
                            if obs.should_stop() {
                                return;
                            }
                        }
                    }
                    let out = w.exec(step);
                    if let Step::Advance { seconds } = step {
                        if *seconds > 0 {
                            obs.sim_seconds += *seconds as u64;
                        }
                    }
                    if let Some(f) = out.fault_fired {
                        obs.fault(f.pt.name());
                    }
                    if out.class == "panic" {
                        obs.probe("model_panic_caught");
                    }
                    obs.outcome(out.role, out.op, &out.class);
                    obs.probe(&format!("outcome:{}:{}", out.op, out.class));
                    obs.event(|| describe(&out));
                    c04::after_step(&w, &out, obs);
                    c05::after_step(&w, &out, obs);
                    c02::after_step(&w, &out, obs);
                    c03::after_step(&w, &out, obs);
                    c03::after_step_positions(&w, &out, obs);
                    c06::after_step(&w, &out, obs);
                    c07::after_step(&w, &out, obs);
                    c08::after_step(&w, &out, obs);
                    c13::after_step(&w, &out, obs);
                    c12::after_step(&w, &out, obs);
                    c14::after_step(&w, &out, obs);
                    c11::after_step(&w, &out, obs);
                    c09::after_step(&w, &out, obs);
                    if let Report::Decrease(r) = &out.report {
                        if r.insolvent_close_step().is_some() {
                            obs.probe("insolvent_close");
                        }
                        if *r.size_delta_usd() > out.req.0 && out.req.0 != 0 {
                            obs.probe("decrease_promoted_to_full_close");
                        }
                    }
                    fingerprint(&w, obs);
                }
            }
            if obs.should_stop() {
                return;
            }
        }
    }

    fn simplify_step(&self, step: &Step) -> Vec<Step> {
        gen::simplify_step(step)
    }

    fn simplify_cfg(&self, cfg: &Cfg) -> Vec<Cfg> {
        gen::simplify_cfg(cfg)
    }

    fn components(&self) -> Components {
        Components {
            real: vec![
                "gmsol-model actions: Deposit, Withdrawal, Swap, IncreasePosition, DecreasePosition, UpdateFundingState, UpdateBorrowingState, DistributePositionImpact".into(),
                "gmsol-model ext traits: BaseMarketExt, SwapMarketExt, LiquidityMarketExt, PerpMarketExt, PositionExt, BorrowingFeeMarketExt, PositionImpactMarketExt".into(),
                "gmsol-model params: FeeParams, PriceImpactParams, PositionParams, LiquidationFeeParams, BorrowingFeeParams, FundingFeeParams".into(),
                "gmsol-model num/fixed/utils (u128, 20 decimals, ruint U256 mul_div)".into(),
            ],
            stub: vec![
                "SimMarket / SimPool / SimPosition: container implementing the model traits (simulated clock mirroring AsClock(Mut), failing storage, optional virtual inventories)".into(),
                "transaction semantics: snapshot / restore on failure (the store's revertible buffer is not used here)".into(),
                "token vault ledger, LP balances, fee claiming (claimable fee pool zeroed by the harness)".into(),
                "price process and keeper schedule (plan steps)".into(),
            ],
        }
    }

    fn rule(&self) -> String {
        format!(
            "market_history(focus={}): per run a swarm configuration (fee/impact/funding/borrowing/position parameter sets from typical values, zeros, maxima, tiny maxima; token decimals and prices; spread; virtual inventories on/off; settle-before-ops on/off; sub-batches plain 5/8, fault-injecting 2/8 (Fault{{k}} steps: k-th fallible storage call of the next operation fails), misconfiguration 1/8 (factors > 100 %, non-unit exponents, zero divisors, min > max)) and a plan of 5-60 steps (15 %: 60-300) of Advance/SetPrices/Deposit/Withdraw/Swap/Increase/Decrease/liquidation/keeper updates/ClaimFees/Fault/Probe with concrete amounts; a case is one executed plan step or probe; distinct = outcome trigrams (role, op, outcome class) plus pool zero-pattern x funding sign x open positions per side fingerprints. C02 drives FeeParams both through the operations and by direct calls on params objects built from the simulated configuration with simulated amounts.",
            self.focus
        )
    }
}
