//! Number conventions of the shipped configuration (`u128`, 20 decimals) and serde wrappers.
//!
//! `serde_json::Value` cannot hold integers above `u64::MAX`, and the runner stores plans as `Value`s, so every
//! 128-bit quantity of a plan is (de)serialised as a decimal string through [`U`] / [`I`].

use serde::{de::Error as _, Deserialize, Deserializer, Serialize, Serializer};

pub const DECIMALS: u8 = 20;
pub const UNIT: u128 = 100_000_000_000_000_000_000; // 10^20
/// 10^(20-9): shipped `usd_to_amount_divisor` (market tokens have 9 decimals).
pub const USD_TO_AMOUNT_DIVISOR: u128 = 100_000_000_000;
/// Shipped `funding_amount_per_size_adjustment`.
pub const FUNDING_ADJUSTMENT: u128 = 10_000_000_000;

/// Unsigned 128-bit plan value, serialised as a decimal string.
#[derive(Clone, Copy, Debug, Default, PartialEq, Eq, PartialOrd, Ord)]
pub struct U(pub u128);

/// Signed 128-bit plan value, serialised as a decimal string.
#[derive(Clone, Copy, Debug, Default, PartialEq, Eq, PartialOrd, Ord)]
pub struct I(pub i128);

impl Serialize for U {
    fn serialize<S: Serializer>(&self, s: S) -> Result<S::Ok, S::Error> {
        s.serialize_str(&self.0.to_string())
    }
}
impl<'de> Deserialize<'de> for U {
    fn deserialize<D: Deserializer<'de>>(d: D) -> Result<Self, D::Error> {
        let s = String::deserialize(d)?;
        s.parse::<u128>().map(U).map_err(D::Error::custom)
    }
}
impl Serialize for I {
    fn serialize<S: Serializer>(&self, s: S) -> Result<S::Ok, S::Error> {
        s.serialize_str(&self.0.to_string())
    }
}
impl<'de> Deserialize<'de> for I {
    fn deserialize<D: Deserializer<'de>>(d: D) -> Result<Self, D::Error> {
        let s = String::deserialize(d)?;
        s.parse::<i128>().map(I).map_err(D::Error::custom)
    }
}

impl From<u128> for U {
    fn from(x: u128) -> Self {
        U(x)
    }
}
impl From<i128> for I {
    fn from(x: i128) -> Self {
        I(x)
    }
}

/// Short human-readable rendering of a 20-decimals fixed point value (for details, not keys).
pub fn fx(x: u128) -> String {
    let int = x / UNIT;
    let frac = x % UNIT;
    if frac == 0 {
        format!("{int}")
    } else {
        let s = format!("{frac:020}");
        format!("{int}.{}", s.trim_end_matches('0'))
    }
}
